// Command extract regenerates parts of the Lean model from /repo's current sources.
// Usage: extract <repo> <outdir>
// Each translator aborts (non-zero exit) on anything outside its handled subset.
package main

import (
	"fmt"
	"os"
	"path/filepath"
)

func die(format string, args ...interface{}) {
	fmt.Fprintf(os.Stderr, "extract: "+format+"\n", args...)
	os.Exit(2)
}

func main() {
	if len(os.Args) < 3 {
		die("usage: extract <repo> <outdir> [only]")
	}
	repo, out := os.Args[1], os.Args[2]
	only := ""
	if len(os.Args) > 3 {
		only = os.Args[3]
	}
	if err := os.MkdirAll(out, 0o755); err != nil {
		die("%v", err)
	}
	gens := []struct {
		name string
		f    func(repo string) string
	}{
		{"ResArith", genResArith},
		{"Consts", genConsts},
		{"AppFsm", genAppFsm},
		{"ConfConsts", genConfConsts},
		{"LockOrder", genLockOrder},
	}
	for _, g := range gens {
		if only != "" && only != g.name {
			continue
		}
		p := filepath.Join(out, g.name+".lean")
		_ = os.Remove(p)
		src := g.f(repo)
		if err := os.WriteFile(p, []byte(src), 0o644); err != nil {
			die("%v", err)
		}
	}
}
