package main

// T4: lock-order extraction. From the CURRENT source of the repository compute the relation `held -> acquired` between
// lock classes (the struct type / package variable that owns a locking.RWMutex / locking.Mutex / sync.*Mutex), inter-
// procedurally over an SSA call graph, and emit lean/YkModel/Generated/LockOrder.lean.
//
//   * a function f acquires class A (Lock/RLock on a receiver / field path) and, before the matching Unlock
//     (`defer x.Unlock()` = held to function end; straight-line Lock ... Unlock = held between, flow-sensitive over the
//     SSA control-flow graph, may-hold = union over paths), calls a function that (transitively) acquires class B
//     => edge A -> B with ONE witness call chain and the read/write modes;
//   * calls through interfaces / function values are over-approximated with the call graph (VTA refined from CHA by
//     default; LOCKORDER_CG=cha selects plain CHA); `go f()` does not inherit the caller's locks; a deferred call is
//     treated as a call at the defer statement;
//   * same-class edges are refined by the relation between the two INSTANCES, computed from symbolic access paths
//     relative to the function parameters: same / up (acquired is reached through `.parent` of the held one) /
//     down (through the children map) / unknown;
//   * test files are not loaded; packages pkg/mock, pkg/examples and files *_mock.go are dropped (test doubles).
//
// Only locks owned by types / variables of the repository are classes. Locks inside the standard library and third
// party modules are leaf locks outside the property (their holders never call back into the core while holding them,
// except through callbacks that the call graph follows anyway).

import (
	"crypto/sha256"
	"encoding/hex"
	"fmt"
	"go/token"
	"go/types"
	"io"
	"os"
	"path/filepath"
	"runtime"
	"sort"
	"strings"
	"time"

	"golang.org/x/tools/go/callgraph"
	"golang.org/x/tools/go/callgraph/cha"
	"golang.org/x/tools/go/callgraph/vta"
	"golang.org/x/tools/go/packages"
	"golang.org/x/tools/go/ssa"
	"golang.org/x/tools/go/ssa/ssautil"
)

const lockOrderVersion = "T4-v7"

const modPrefix = "github.com/apache/yunikorn-core/"

// fields that order the instances of one class: (class, field) -> 'U' (towards the root) / 'D' (towards the leaves)
var treeFields = map[string]byte{
	"objects.Queue.parent":   'U',
	"objects.Queue.children": 'D',
}

// ---------------------------------------------------------------------------------------------------- access paths

// lpath is a symbolic access path of an object relative to the parameters of the function under analysis.
//
//	base: "" unknown; "p<i>" parameter i (receiver = p0); "g:<pkg.var>" package variable; "env:<fn>#<k>" free variable k
//	      of closure fn; followed by ".field" / "[]" steps
//	kind/n/plus: tree suffix: kind 'U' = n (or more when plus) parent hops, 'D' = n (or more) child hops
//	elem: the path goes through an element of an unordered container (two evaluations may give different objects)
type lpath struct {
	bottom bool
	base   string
	kind   byte
	n      int
	plus   bool
	elem   bool
	dcont  bool // the value is the children CONTAINER (map / slice of children) not yet indexed
}

var unknownPath = lpath{}
var bottomPath = lpath{bottom: true}

func (p lpath) known() bool { return !p.bottom && p.base != "" }

func (p lpath) String() string {
	if p.bottom {
		return "_"
	}
	if p.base == "" {
		return "?"
	}
	s := p.base
	if p.kind != 0 {
		s += fmt.Sprintf("^%c%d", p.kind, p.n)
		if p.plus {
			s += "+"
		}
	}
	if p.dcont {
		s += "{}"
	}
	return s
}

const maxHops = 3

func (p lpath) hop(k byte) lpath {
	if !p.known() {
		return p
	}
	if p.kind == 0 || p.kind == k {
		q := p
		q.kind = k
		q.n = p.n + 1
		if q.n > maxHops {
			q.n = maxHops
			q.plus = true
		}
		return q
	}
	return unknownPath // mixed directions: no longer comparable
}

func (p lpath) field(name string) lpath {
	if !p.known() {
		return p
	}
	if strings.Count(p.base, ".")+strings.Count(p.base, "[") > 6 {
		return unknownPath
	}
	q := lpath{base: p.String() + "." + name, elem: p.elem}
	return q
}

func (p lpath) element() lpath {
	if !p.known() {
		return p
	}
	if p.dcont {
		q := p
		q.dcont = false
		return q
	}
	if strings.Count(p.base, ".")+strings.Count(p.base, "[") > 6 {
		return unknownPath
	}
	return lpath{base: p.String() + "[]", elem: true}
}

func joinPath(a, b lpath) lpath {
	if a.bottom {
		return b
	}
	if b.bottom {
		return a
	}
	if a == b {
		return a
	}
	if a.known() && b.known() && a.base == b.base && a.kind == b.kind && a.dcont == b.dcont && a.kind != 0 {
		// same direction, different hop counts: widen
		q := a
		if b.n < q.n {
			q.n = b.n
		}
		q.plus = true
		q.elem = a.elem || b.elem
		return q
	}
	return unknownPath
}

// compose: `outer` is the caller-side path of the argument bound to parameter i, `inner` a callee-side path rooted at p<i>
func composePath(outer, inner lpath, root string) lpath {
	if inner.bottom || !inner.known() {
		return inner
	}
	if !outer.known() {
		return unknownPath
	}
	rest := strings.TrimPrefix(inner.base, root)
	if rest == "" {
		// inner = root with tree suffix only
		if outer.dcont {
			return unknownPath
		}
		if inner.kind == 0 {
			q := outer
			q.dcont = inner.dcont
			return q
		}
		if outer.kind == 0 || outer.kind == inner.kind {
			q := outer
			q.kind = inner.kind
			q.n = outer.n + inner.n
			q.plus = outer.plus || inner.plus
			if q.n > maxHops {
				q.n = maxHops
				q.plus = true
			}
			q.elem = outer.elem || inner.elem
			q.dcont = inner.dcont
			return q
		}
		return unknownPath
	}
	if outer.dcont {
		return unknownPath
	}
	if strings.Count(outer.String(), ".")+strings.Count(rest, ".")+strings.Count(rest, "[") > 7 {
		return unknownPath
	}
	q := inner
	q.base = outer.String() + rest
	q.elem = inner.elem || outer.elem
	return q
}

// relation between the instance held (h) and the instance acquired (a) of the same class
func relation(h, a lpath) string {
	if !h.known() || !a.known() || h.base != a.base || h.dcont || a.dcont {
		return "unknown"
	}
	if h.elem || a.elem {
		// "some element of a container": two evaluations may denote different objects
		return "unknown"
	}
	hv, av := signed(h), signed(a)
	// hv/av: position on the vertical axis relative to base: U = negative depth offset, D = positive
	switch {
	case h.kind == 0 && a.kind == 0:
		return "same"
	case h.kind == 0:
		if a.kind == 'U' && (a.n > 0) {
			return "up"
		}
		if a.kind == 'D' && (a.n > 0) {
			return "down"
		}
		return "unknown"
	case a.kind == 0:
		if h.kind == 'U' && h.n > 0 {
			return "down"
		}
		if h.kind == 'D' && h.n > 0 {
			return "up"
		}
		return "unknown"
	case h.kind == 'U' && a.kind == 'U':
		// both ancestors of base: on one chain
		if !h.plus && !a.plus {
			if hv == av {
				return "same"
			}
			if a.n > h.n {
				return "up"
			}
			return "down"
		}
		if !h.plus && a.plus && a.n > h.n {
			return "up"
		}
		if h.plus && !a.plus && h.n > a.n {
			return "down"
		}
		return "unknown"
	case h.kind == 'U' && a.kind == 'D':
		return "down"
	case h.kind == 'D' && a.kind == 'U':
		return "up"
	default:
		// both descendants: different branches possible
		return "unknown"
	}
}

func signed(p lpath) int {
	if p.kind == 'U' {
		return -p.n
	}
	return p.n
}

// ---------------------------------------------------------------------------------------------------- analysis state

type lockOp struct {
	kind  string // Lock RLock Unlock RUnlock
	class string
	owner ssa.Value // the object that owns the lock (nil for package variables)
	glob  string
}

type heldLock struct {
	class    string
	mode     byte // 'R' / 'W'
	p        lpath
	pos      token.Pos
	deferred bool
}

func (h heldLock) key() string { return h.class + "|" + string(h.mode) + "|" + h.p.String() }

type acq struct {
	class  string
	mode   byte
	locker string // the function that contains the Lock call
	via    string // the last function outside the repository through which the chain calls back ("" = direct calls only)
	p      lpath
	chain  []string // witness: function names from this function down to the locking call (with positions)
}

func (a acq) key() string {
	return a.class + "|" + string(a.mode) + "|" + a.p.String() + "|" + a.locker + "|" + a.via
}

type calleeRef struct {
	fn  *ssa.Function
	via *ssa.Function // nil: called directly; else: called back by this function outside the repository
}

type callSite struct {
	instr   ssa.CallInstruction
	held    []heldLock
	callees []calleeRef
}

type fnInfo struct {
	fn       *ssa.Function
	direct   []acq          // lock operations of the function body itself (path relative to own params)
	directH  [][]heldLock   // held set at each direct acquisition
	sites    []*callSite    // call sites (not `go`)
	summary  map[string]acq // transitive acquisitions, relative to own params
	closures map[*ssa.Function][]*ssa.MakeClosure
	leaks    []heldLock
	pathMemo map[ssa.Value]lpath
	inprog   map[ssa.Value]bool
	cuts     int
	repo     bool
}

type lockAnalysis struct {
	prog    *ssa.Program
	fset    *token.FileSet
	cg      *callgraph.Graph
	infos   map[*ssa.Function]*fnInfo
	retMemo map[string]lpath
	retProg map[string]bool
	classes map[string]bool
	unres   []string
	repo    string
}

func shortName(s string) string {
	s = strings.ReplaceAll(s, modPrefix+"pkg/", "")
	s = strings.ReplaceAll(s, modPrefix, "")
	s = strings.ReplaceAll(s, "github.com/", "")
	return s
}

func (la *lockAnalysis) posStr(p token.Pos) string {
	if !p.IsValid() {
		return "?"
	}
	q := la.fset.Position(p)
	return fmt.Sprintf("%s:%d", filepath.Base(q.Filename), q.Line)
}

func derefType(t types.Type) types.Type {
	if p, ok := t.Underlying().(*types.Pointer); ok {
		return p.Elem()
	}
	return t
}

func isLockWrapperType(t types.Type) bool {
	n, ok := derefType(t).(*types.Named)
	if !ok || n.Obj().Pkg() == nil {
		return false
	}
	pp := n.Obj().Pkg().Path()
	name := n.Obj().Name()
	if name != "Mutex" && name != "RWMutex" {
		return false
	}
	return pp == "sync" || pp == "github.com/sasha-s/go-deadlock" || pp == modPrefix+"pkg/locking"
}

func className(n *types.Named) string {
	pk := ""
	if n.Obj().Pkg() != nil {
		pk = n.Obj().Pkg().Name()
	}
	return pk + "." + n.Obj().Name()
}

func inRepo(pkg *types.Package) bool {
	return pkg != nil && strings.HasPrefix(pkg.Path(), modPrefix)
}

// lockOpOf recognises x.Lock() / RLock / Unlock / RUnlock on a mutex and resolves the owning class
func (la *lockAnalysis) lockOpOf(fi *fnInfo, c *ssa.CallCommon) *lockOp {
	callee := c.StaticCallee()
	if callee == nil || callee.Signature.Recv() == nil {
		return nil
	}
	name := callee.Name()
	switch name {
	case "Lock", "RLock", "Unlock", "RUnlock", "TryLock", "TryRLock":
	default:
		return nil
	}
	kind := name
	if name == "TryLock" {
		kind = "Lock"
	}
	if name == "TryRLock" {
		kind = "RLock"
	}
	if isLockWrapperFn(callee) && len(c.Args) > 0 {
		// x.Lock() through the promoted-method wrapper of the owning struct
		if owner, ok := derefType(callee.Signature.Recv().Type()).(*types.Named); ok && inRepo(owner.Obj().Pkg()) {
			if la.mockType(owner) {
				return nil
			}
			return &lockOp{kind: kind, class: className(owner), owner: c.Args[0]}
		}
		return nil
	}
	if !isLockWrapperType(callee.Signature.Recv().Type()) {
		return nil
	}
	if len(c.Args) == 0 {
		return nil
	}
	if name == "TryLock" {
		kind = "Lock"
	}
	if name == "TryRLock" {
		kind = "RLock"
	}
	cur := c.Args[0]
	for depth := 0; depth < 12; depth++ {
		switch x := cur.(type) {
		case *ssa.FieldAddr:
			st, ok := derefType(x.X.Type()).Underlying().(*types.Struct)
			if !ok {
				return la.unresolved(fi, c, kind)
			}
			fld := st.Field(x.Field)
			if isLockWrapperType(x.X.Type()) {
				cur = x.X
				continue
			}
			owner, ok := derefType(x.X.Type()).(*types.Named)
			if !ok {
				// anonymous struct: name it after the package variable that holds it
				if g, ok := x.X.(*ssa.Global); ok && inRepo(g.Pkg.Pkg) {
					return &lockOp{kind: kind, class: g.Pkg.Pkg.Name() + "." + g.Name(), glob: g.Pkg.Pkg.Name() + "." + g.Name()}
				}
				return la.unresolved(fi, c, kind)
			}
			if !inRepo(owner.Obj().Pkg()) || la.mockType(owner) {
				return nil // a lock of the standard library / a dependency / a test double: not a class of the property
			}
			cls := className(owner)
			if !fld.Embedded() {
				cls += "." + fld.Name()
			}
			return &lockOp{kind: kind, class: cls, owner: x.X}
		case *ssa.UnOp:
			if x.Op == token.MUL {
				cur = x.X
				continue
			}
			return la.unresolved(fi, c, kind)
		case *ssa.Global:
			if !inRepo(x.Pkg.Pkg) {
				return nil
			}
			n := x.Pkg.Pkg.Name() + "." + x.Name()
			return &lockOp{kind: kind, class: n, glob: n}
		default:
			if fi.fn.Pkg == nil || !inRepo(fi.fn.Pkg.Pkg) {
				return nil
			}
			return la.unresolved(fi, c, kind)
		}
	}
	return la.unresolved(fi, c, kind)
}

func (la *lockAnalysis) mockType(n *types.Named) bool {
	pp := n.Obj().Pkg().Path()
	if pp == modPrefix+"pkg/mock" || pp == modPrefix+"pkg/examples" {
		return true
	}
	if n.Obj().Pos().IsValid() {
		return strings.HasSuffix(la.fset.Position(n.Obj().Pos()).Filename, "_mock.go")
	}
	return false
}

func (la *lockAnalysis) unresolved(fi *fnInfo, c *ssa.CallCommon, kind string) *lockOp {
	if fi.fn.Pkg == nil || !inRepo(fi.fn.Pkg.Pkg) {
		if fi.fn.Parent() == nil || fi.fn.Parent().Pkg == nil || !inRepo(fi.fn.Parent().Pkg.Pkg) {
			return nil
		}
	}
	la.unres = append(la.unres, fmt.Sprintf("%s in %s at %s", kind, shortName(fi.fn.String()), la.posStr(c.Pos())))
	return &lockOp{kind: kind, class: "unresolved." + sanitize(shortName(fi.fn.String()))}
}

// ---------------------------------------------------------------------------------------------------- path evaluation

func (la *lockAnalysis) pathOf(fi *fnInfo, v ssa.Value) lpath {
	if v == nil {
		return unknownPath
	}
	if p, ok := fi.pathMemo[v]; ok {
		return p
	}
	if fi.inprog[v] {
		fi.cuts++
		return bottomPath // cycle through a phi / container: contributes nothing
	}
	fi.inprog[v] = true
	before := fi.cuts
	p := la.pathOf1(fi, v)
	delete(fi.inprog, v)
	// a result computed while a cycle was cut below may be incomplete: memoised only at top level
	if fi.cuts == before || len(fi.inprog) == 0 {
		fi.pathMemo[v] = p
	}
	return p
}

func (la *lockAnalysis) fieldStep(p lpath, structT types.Type, idx int) lpath {
	st, ok := derefType(structT).Underlying().(*types.Struct)
	if !ok {
		return unknownPath
	}
	fld := st.Field(idx)
	if n, ok := derefType(structT).(*types.Named); ok {
		if k, ok := treeFields[className(n)+"."+fld.Name()]; ok {
			if k == 'U' {
				return p.hop('U')
			}
			q := p.hop('D')
			if q.known() {
				q.dcont = true
			}
			return q
		}
	}
	if p.dcont {
		return unknownPath
	}
	return p.field(fld.Name())
}

func (la *lockAnalysis) storesInto(fi *fnInfo, addr ssa.Value, depth int) lpath {
	// join of everything stored through addr (an Alloc, or element addresses derived from it)
	res := bottomPath
	refs := addr.Referrers()
	if refs == nil || depth > 3 {
		return unknownPath
	}
	for _, r := range *refs {
		switch x := r.(type) {
		case *ssa.Store:
			if x.Addr == addr {
				res = joinPath(res, la.pathOf(fi, x.Val))
			}
		case *ssa.IndexAddr:
			if x.X == addr {
				e := la.storesInto(fi, x, depth+1)
				// elements of a local array / slice: the container "is" its elements
				res = joinPath(res, e)
			}
		case *ssa.MapUpdate:
			if x.Map == addr {
				res = joinPath(res, la.pathOf(fi, x.Value))
			}
		}
	}
	return res
}

func (la *lockAnalysis) pathOf1(fi *fnInfo, v ssa.Value) lpath {
	switch x := v.(type) {
	case *ssa.Parameter:
		for i, p := range fi.fn.Params {
			if p == x {
				return lpath{base: fmt.Sprintf("p%d", i)}
			}
		}
		return unknownPath
	case *ssa.FreeVar:
		for i, p := range fi.fn.FreeVars {
			if p == x {
				return lpath{base: fmt.Sprintf("env:%s#%d", fnKeyOf(fi.fn), i)}
			}
		}
		return unknownPath
	case *ssa.Global:
		if x.Pkg != nil && x.Pkg.Pkg != nil {
			return lpath{base: "g:" + x.Pkg.Pkg.Name() + "." + x.Name()}
		}
		return unknownPath
	case *ssa.FieldAddr:
		return la.fieldStep(la.pathOf(fi, x.X), x.X.Type(), x.Field)
	case *ssa.Field:
		return la.fieldStep(la.pathOf(fi, x.X), x.X.Type(), x.Field)
	case *ssa.UnOp:
		if x.Op != token.MUL {
			return unknownPath
		}
		switch y := x.X.(type) {
		case *ssa.Alloc:
			return la.storesInto(fi, y, 0)
		case *ssa.FreeVar:
			// variable captured by reference: the cell is resolved in the creating function
			p := la.pathOf(fi, y)
			if p.known() {
				p.base += "*"
			}
			return p
		default:
			return la.pathOf(fi, x.X)
		}
	case *ssa.Alloc:
		// the address of a local: treat the cell and its content alike
		return la.storesInto(fi, x, 0)
	case *ssa.MakeMap:
		q := la.storesInto(fi, x, 0)
		return q
	case *ssa.MakeSlice:
		return la.storesInto(fi, x, 0)
	case *ssa.Slice:
		return la.pathOf(fi, x.X)
	case *ssa.MakeInterface:
		return la.pathOf(fi, x.X)
	case *ssa.ChangeInterface:
		return la.pathOf(fi, x.X)
	case *ssa.ChangeType:
		return la.pathOf(fi, x.X)
	case *ssa.Convert:
		return la.pathOf(fi, x.X)
	case *ssa.TypeAssert:
		return la.pathOf(fi, x.X)
	case *ssa.Phi:
		res := bottomPath
		for _, e := range x.Edges {
			res = joinPath(res, la.pathOf(fi, e))
			if !res.bottom && !res.known() {
				break
			}
		}
		return res
	case *ssa.Lookup:
		return la.pathOf(fi, x.X).element()
	case *ssa.Index:
		return la.pathOf(fi, x.X).element()
	case *ssa.IndexAddr:
		return la.pathOf(fi, x.X).element()
	case *ssa.Range:
		return la.pathOf(fi, x.X)
	case *ssa.Next:
		return la.pathOf(fi, x.Iter)
	case *ssa.Extract:
		switch t := x.Tuple.(type) {
		case *ssa.Next:
			if x.Index == 2 {
				return la.pathOf(fi, t).element()
			}
			return unknownPath
		case *ssa.TypeAssert:
			if x.Index == 0 {
				return la.pathOf(fi, t)
			}
			return unknownPath
		case *ssa.Lookup:
			if x.Index == 0 {
				return la.pathOf(fi, t)
			}
			return unknownPath
		case *ssa.Call:
			return la.callResult(fi, t, x.Index)
		}
		return unknownPath
	case *ssa.Call:
		return la.callResult(fi, x, 0)
	case *ssa.Const:
		return bottomPath // nil contributes nothing to a join
	}
	return unknownPath
}

func (la *lockAnalysis) callResult(fi *fnInfo, c *ssa.Call, idx int) lpath {
	if b, ok := c.Call.Value.(*ssa.Builtin); ok {
		if b.Name() == "append" && len(c.Call.Args) == 2 {
			return joinPath(la.pathOf(fi, c.Call.Args[0]), la.pathOf(fi, c.Call.Args[1]))
		}
		return unknownPath
	}
	callee := c.Call.StaticCallee()
	if callee == nil || callee.Blocks == nil {
		return unknownPath
	}
	r := la.retPath(callee, idx)
	if !r.known() {
		if r.bottom {
			return unknownPath
		}
		return r
	}
	return la.mapUp(fi, &c.Call, callee, r)
}

// mapUp translates a callee-relative path into the caller's frame at a call
func (la *lockAnalysis) mapUp(fi *fnInfo, c *ssa.CallCommon, callee *ssa.Function, r lpath) lpath {
	if !r.known() {
		return r
	}
	if strings.HasPrefix(r.base, "g:") {
		return r
	}
	if strings.HasPrefix(r.base, "env:") {
		return la.resolveEnv(fi, r)
	}
	if !strings.HasPrefix(r.base, "p") || !fi.repo {
		return unknownPath
	}
	// parameter index
	j := 1
	for j < len(r.base) && r.base[j] >= '0' && r.base[j] <= '9' {
		j++
	}
	var pi int
	fmt.Sscanf(r.base[1:j], "%d", &pi)
	root := r.base[:j]
	var arg ssa.Value
	if c.IsInvoke() {
		if pi == 0 {
			arg = c.Value
		} else if pi-1 < len(c.Args) {
			arg = c.Args[pi-1]
		}
	} else if pi < len(c.Args) {
		arg = c.Args[pi]
	}
	if arg == nil {
		return unknownPath
	}
	return composePath(la.pathOf(fi, arg), r, root)
}

// mapUpVia: as mapUp; for a callee that is called back from outside the repository the arguments are not those of the
// call site: only closure-environment and package-variable paths survive
func (la *lockAnalysis) mapUpVia(fi *fnInfo, c *ssa.CallCommon, callee, via *ssa.Function, r lpath) lpath {
	if via == nil {
		return la.mapUp(fi, c, callee, r)
	}
	if !r.known() {
		return r
	}
	if strings.HasPrefix(r.base, "g:") {
		return r
	}
	if strings.HasPrefix(r.base, "env:") {
		return la.resolveEnv(fi, r)
	}
	return unknownPath
}

func (la *lockAnalysis) hopStr(fn *ssa.Function, instr ssa.CallInstruction, via *ssa.Function) string {
	s := fmt.Sprintf("%s @%s", shortName(fn.String()), la.posStr(instr.Pos()))
	if via != nil {
		s += " -> [" + shortName(via.String()) + " calls back]"
	}
	return s
}

// resolveEnv: a path rooted at free variable k of closure c is expressed in the frame of the function that creates c
// (assumption: a closure reached from its creating function was created by this activation)
func (la *lockAnalysis) resolveEnv(fi *fnInfo, r lpath) lpath {
	// base = env:<ptr>#<k>[*]<rest>
	b := r.base
	hash := strings.Index(b, "#")
	if hash < 0 {
		return r
	}
	j := hash + 1
	for j < len(b) && b[j] >= '0' && b[j] <= '9' {
		j++
	}
	var k int
	fmt.Sscanf(b[hash+1:j], "%d", &k)
	fnKey := b[4:hash]
	for cf, mcs := range fi.closures {
		if fnKeyOf(cf) != fnKey {
			continue
		}
		res := bottomPath
		for _, mc := range mcs {
			if k >= len(mc.Bindings) {
				return unknownPath
			}
			res = joinPath(res, la.pathOf(fi, mc.Bindings[k]))
		}
		root := b[:j]
		if j < len(b) && b[j] == '*' {
			root = b[:j+1]
		}
		return composePath(res, r, root)
	}
	return r // not created here: stays symbolic
}

func (la *lockAnalysis) retPath(fn *ssa.Function, idx int) lpath {
	key := fmt.Sprintf("%s/%d", fnKeyOf(fn), idx)
	if p, ok := la.retMemo[key]; ok {
		return p
	}
	if la.retProg[key] {
		return bottomPath
	}
	la.retProg[key] = true
	fi := la.info(fn)
	res := bottomPath
	for _, b := range fn.Blocks {
		for _, ins := range b.Instrs {
			if r, ok := ins.(*ssa.Return); ok && idx < len(r.Results) {
				res = joinPath(res, la.pathOf(fi, r.Results[idx]))
			}
		}
	}
	delete(la.retProg, key)
	if res.known() && !(strings.HasPrefix(res.base, "p") || strings.HasPrefix(res.base, "g:")) {
		res = unknownPath
	}
	la.retMemo[key] = res
	return res
}

// ---------------------------------------------------------------------------------------------------- per function

func (la *lockAnalysis) info(fn *ssa.Function) *fnInfo {
	if fi, ok := la.infos[fn]; ok {
		return fi
	}
	fi := &fnInfo{fn: fn, summary: map[string]acq{}, closures: map[*ssa.Function][]*ssa.MakeClosure{},
		pathMemo: map[ssa.Value]lpath{}, inprog: map[ssa.Value]bool{}}
	la.infos[fn] = fi
	top := fn
	for top.Parent() != nil {
		top = top.Parent()
	}
	fi.repo = top.Pkg != nil && inRepo(top.Pkg.Pkg)
	for _, b := range fn.Blocks {
		for _, ins := range b.Instrs {
			if mc, ok := ins.(*ssa.MakeClosure); ok {
				if cf, ok := mc.Fn.(*ssa.Function); ok {
					fi.closures[cf] = append(fi.closures[cf], mc)
				}
			}
		}
	}
	return fi
}

func excludedFn(fn *ssa.Function, fset *token.FileSet) bool {
	f := fn
	for f.Parent() != nil {
		f = f.Parent()
	}
	if f.Pkg != nil && f.Pkg.Pkg != nil {
		pp := f.Pkg.Pkg.Path()
		if pp == modPrefix+"pkg/mock" || pp == modPrefix+"pkg/examples" {
			return true
		}
	}
	if f.Pos().IsValid() {
		name := filepath.Base(fset.Position(f.Pos()).Filename)
		if strings.HasSuffix(name, "_mock.go") || strings.HasSuffix(name, "_test.go") {
			return true
		}
	}
	return false
}

func heldKeySet(hs map[string]heldLock) string {
	ks := make([]string, 0, len(hs))
	for k, h := range hs {
		if h.deferred {
			k += "d"
		}
		ks = append(ks, k)
	}
	sort.Strings(ks)
	return strings.Join(ks, ";")
}

// analyseBody: flow-sensitive may-hold analysis of one function; fills direct acquisitions and call sites
func (la *lockAnalysis) analyseBody(fi *fnInfo, sitesOut map[ssa.CallInstruction][]calleeRef) {
	fn := fi.fn
	if fn.Blocks == nil {
		return
	}
	// does the function (or a deferred closure) contain lock operations at all? otherwise only collect call sites
	in := make([]map[string]heldLock, len(fn.Blocks))
	out := make([]map[string]heldLock, len(fn.Blocks))
	for i := range in {
		in[i] = map[string]heldLock{}
	}
	siteHeld := map[ssa.Instruction]map[string]heldLock{}
	transfer := func(b *ssa.BasicBlock, st map[string]heldLock, record bool) map[string]heldLock {
		cur := map[string]heldLock{}
		for k, v := range st {
			cur[k] = v
		}
		for _, ins := range b.Instrs {
			ci, ok := ins.(ssa.CallInstruction)
			if !ok {
				if _, isRet := ins.(*ssa.Return); isRet && record {
					for _, h := range cur {
						if !h.deferred {
							fi.leaks = append(fi.leaks, h)
						}
					}
				}
				continue
			}
			if _, isGo := ci.(*ssa.Go); isGo {
				continue
			}
			_, isDefer := ci.(*ssa.Defer)
			op := la.lockOpOf(fi, ci.Common())
			if op != nil {
				var p lpath
				if op.glob != "" {
					p = lpath{base: "g:" + op.glob}
				} else {
					p = la.pathOf(fi, op.owner)
					if p.bottom {
						p = unknownPath
					}
				}
				switch op.kind {
				case "Lock", "RLock":
					if isDefer {
						continue // `defer x.Lock()` does not occur; ignore
					}
					mode := byte('W')
					if op.kind == "RLock" {
						mode = 'R'
					}
					h := heldLock{class: op.class, mode: mode, p: p, pos: ci.Pos()}
					if record {
						snap := map[string]heldLock{}
						for k, v := range cur {
							snap[k] = v
						}
						siteHeld[ins] = snap
					}
					cur[h.key()] = h
				case "Unlock", "RUnlock":
					mode := byte('W')
					if op.kind == "RUnlock" {
						mode = 'R'
					}
					k := op.class + "|" + string(mode) + "|" + p.String()
					if isDefer {
						if h, ok := cur[k]; ok {
							h.deferred = true
							cur[k] = h
						} else {
							for kk, h := range cur {
								if h.class == op.class && h.mode == mode {
									h.deferred = true
									cur[kk] = h
								}
							}
						}
						continue
					}
					if _, ok := cur[k]; ok {
						delete(cur, k)
					} else {
						// no exact instance match: release every held lock of that class and mode
						for kk, h := range cur {
							if h.class == op.class && h.mode == mode {
								delete(cur, kk)
							}
						}
					}
				}
				continue
			}
			if isDefer {
				// a deferred closure that unlocks: the lock is held to the end of the function
				if mc, ok := ci.Common().Value.(*ssa.MakeClosure); ok {
					if cf, ok := mc.Fn.(*ssa.Function); ok {
						for _, cls := range la.unlocksIn(cf) {
							for kk, h := range cur {
								if h.class == cls {
									h.deferred = true
									cur[kk] = h
								}
							}
						}
					}
				}
			}
			if record {
				snap := map[string]heldLock{}
				for k, v := range cur {
					snap[k] = v
				}
				siteHeld[ins] = snap
			}
		}
		return cur
	}
	// fixpoint
	changed := true
	for iter := 0; changed && iter < 50; iter++ {
		changed = false
		for i, b := range fn.Blocks {
			if i > 0 || len(b.Preds) > 0 {
				merged := map[string]heldLock{}
				for _, p := range b.Preds {
					if out[p.Index] != nil {
						for k, v := range out[p.Index] {
							if old, ok := merged[k]; ok {
								v.deferred = v.deferred && old.deferred
							}
							merged[k] = v
						}
					}
				}
				in[i] = merged
			}
			o := transfer(b, in[i], false)
			if out[i] == nil || heldKeySet(out[i]) != heldKeySet(o) {
				out[i] = o
				changed = true
			}
		}
	}
	for i, b := range fn.Blocks {
		transfer(b, in[i], true)
	}
	// collect
	for _, b := range fn.Blocks {
		for _, ins := range b.Instrs {
			ci, ok := ins.(ssa.CallInstruction)
			if !ok {
				continue
			}
			if _, isGo := ci.(*ssa.Go); isGo {
				continue
			}
			hs := siteHeld[ins]
			var held []heldLock
			for _, h := range hs {
				held = append(held, h)
			}
			sort.Slice(held, func(i, j int) bool { return held[i].key() < held[j].key() })
			if op := la.lockOpOf(fi, ci.Common()); op != nil {
				if op.kind == "Lock" || op.kind == "RLock" {
					if _, isDefer := ci.(*ssa.Defer); isDefer {
						continue
					}
					mode := byte('W')
					if op.kind == "RLock" {
						mode = 'R'
					}
					var p lpath
					if op.glob != "" {
						p = lpath{base: "g:" + op.glob}
					} else {
						p = la.pathOf(fi, op.owner)
						if p.bottom {
							p = unknownPath
						}
					}
					la.classes[op.class] = true
					a := acq{class: op.class, mode: mode, p: p, locker: shortName(fn.String()),
						chain: []string{fmt.Sprintf("%s [%s %s @%s]", shortName(fn.String()), op.class, op.kind, la.posStr(ci.Pos()))}}
					fi.direct = append(fi.direct, a)
					fi.directH = append(fi.directH, held)
				}
				continue
			}
			callees := sitesOut[ci]
			if len(callees) == 0 {
				continue
			}
			fi.sites = append(fi.sites, &callSite{instr: ci, held: held, callees: callees})
		}
	}
}

var unlockMemo = map[*ssa.Function][]string{}

// classes unlocked somewhere in the body of a (deferred) closure
func (la *lockAnalysis) unlocksIn(fn *ssa.Function) []string {
	if r, ok := unlockMemo[fn]; ok {
		return r
	}
	fi := la.info(fn)
	var res []string
	for _, b := range fn.Blocks {
		for _, ins := range b.Instrs {
			if ci, ok := ins.(ssa.CallInstruction); ok {
				if op := la.lockOpOf(fi, ci.Common()); op != nil && (op.kind == "Unlock" || op.kind == "RUnlock") {
					res = append(res, op.class)
				}
			}
		}
	}
	unlockMemo[fn] = res
	return res
}

// ---------------------------------------------------------------------------------------------------- driver

type edgeOut struct {
	held, acq         string
	heldMode, acqMode byte
	rel               string
	witness           string
	chainLen          int
	holder, locker    string
	via               string
}

func fnKeyOf(fn *ssa.Function) string {
	return sanitize(fn.String()) + fmt.Sprintf("_%d", int(fn.Pos()))
}

func sanitize(s string) string {
	var b strings.Builder
	for _, r := range s {
		if (r >= 'a' && r <= 'z') || (r >= 'A' && r <= 'Z') || (r >= '0' && r <= '9') {
			b.WriteRune(r)
		} else {
			b.WriteByte('_')
		}
	}
	return b.String()
}

func sourceHash(repo string) string {
	h := sha256.New()
	io.WriteString(h, lockOrderVersion+os.Getenv("LOCKORDER_CG"))
	if exe, err := os.Executable(); err == nil {
		if f, err := os.Open(exe); err == nil {
			io.Copy(h, f)
			f.Close()
		}
	}
	var files []string
	for _, d := range []string{"pkg", "cmd"} {
		filepath.Walk(filepath.Join(repo, d), func(p string, info os.FileInfo, err error) error {
			if err == nil && !info.IsDir() && strings.HasSuffix(p, ".go") && !strings.HasSuffix(p, "_test.go") {
				files = append(files, p)
			}
			return nil
		})
	}
	files = append(files, filepath.Join(repo, "go.mod"))
	sort.Strings(files)
	for _, p := range files {
		rel, _ := filepath.Rel(repo, p)
		io.WriteString(h, "\x00"+rel+"\x00")
		if f, err := os.Open(p); err == nil {
			io.Copy(h, f)
			f.Close()
		}
	}
	return hex.EncodeToString(h.Sum(nil))[:32]
}

// lockOrderCacheDir: `.cache/lockorder/` next to `check` in the framework this translator was built from (git-ignored),
// or $VERIF_CACHE_DIR/lockorder. "" = no cache. The cache only saves time: a missing / unwritable / stale cache means
// the table is recomputed from the sources.
func lockOrderCacheDir() string {
	if d := os.Getenv("VERIF_CACHE_DIR"); d != "" {
		return filepath.Join(d, "lockorder")
	}
	if _, file, _, ok := runtime.Caller(0); ok && filepath.IsAbs(file) {
		root := filepath.Dir(filepath.Dir(file))
		if st, err := os.Stat(filepath.Join(root, "check")); err == nil && !st.IsDir() {
			return filepath.Join(root, ".cache", "lockorder")
		}
	}
	return ""
}

func genLockOrder(repo string) string {
	// the analysis depends only on the non-test Go sources (and on this translator): results are cached by content hash
	cacheDir := lockOrderCacheDir()
	if cacheDir == "" || os.Getenv("VERIF_NOCACHE") != "" {
		return computeLockOrder(repo)
	}
	cachePath := filepath.Join(cacheDir, sourceHash(repo)+".lean")
	if b, err := os.ReadFile(cachePath); err == nil && strings.HasSuffix(strings.TrimSpace(string(b)), "end Yk.Gen.LockOrder") {
		return string(b)
	}
	src := computeLockOrder(repo)
	if err := os.MkdirAll(cacheDir, 0o755); err == nil {
		tmp := cachePath + fmt.Sprintf(".%d", os.Getpid())
		if os.WriteFile(tmp, []byte(src), 0o644) == nil {
			_ = os.Rename(tmp, cachePath)
		}
		// keep the directory small: the 8 most recent tables
		if ents, err := os.ReadDir(cacheDir); err == nil && len(ents) > 8 {
			type ent struct {
				name string
				mod  time.Time
			}
			var es []ent
			for _, e := range ents {
				if info, err := e.Info(); err == nil {
					es = append(es, ent{e.Name(), info.ModTime()})
				}
			}
			sort.Slice(es, func(i, j int) bool { return es[i].mod.After(es[j].mod) })
			for _, e := range es[8:] {
				_ = os.Remove(filepath.Join(cacheDir, e.name))
			}
		}
	}
	return src
}

func computeLockOrder(repo string) string {
	t0 := time.Now()
	tick := func(what string) {
		if os.Getenv("LOCKORDER_DEBUG") != "" {
			fmt.Fprintf(os.Stderr, "lockorder: %-40s %6.1fs\n", what, time.Since(t0).Seconds())
		}
	}
	env := append(os.Environ(), "GOFLAGS=-mod=mod", "GOPROXY=off")
	cfg := &packages.Config{Mode: packages.LoadAllSyntax, Dir: repo, Tests: false, Env: env}
	pkgs, err := packages.Load(cfg, "./pkg/...")
	if err != nil {
		die("lockorder: load: %v", err)
	}
	nerr := 0
	packages.Visit(pkgs, nil, func(p *packages.Package) {
		for _, e := range p.Errors {
			fmt.Fprintln(os.Stderr, "lockorder:", e)
			nerr++
		}
	})
	if nerr > 0 {
		die("lockorder: %d package errors", nerr)
	}
	var roots []*packages.Package
	for _, p := range pkgs {
		if p.PkgPath == modPrefix+"pkg/mock" || p.PkgPath == modPrefix+"pkg/examples" {
			continue
		}
		roots = append(roots, p)
	}
	tick("load")
	prog, _ := ssautil.AllPackages(roots, ssa.InstantiateGenerics)
	prog.Build()
	tick("ssa")
	var cg *callgraph.Graph
	mode := os.Getenv("LOCKORDER_CG")
	base := cha.CallGraph(prog)
	if mode == "cha" {
		cg = base
	} else {
		mode = "vta"
		cg = vta.CallGraph(ssautil.AllFunctions(prog), base)
	}
	tick("callgraph " + mode)
	la := &lockAnalysis{prog: prog, fset: prog.Fset, cg: cg, infos: map[*ssa.Function]*fnInfo{}, retMemo: map[string]lpath{},
		retProg: map[string]bool{}, classes: map[string]bool{}, repo: repo}

	// ---- nodes of the analysis: the functions of the repository (no tests, no test doubles, no promoted Lock wrappers)
	isRepo := map[*ssa.Function]bool{}
	var all []*ssa.Function
	names := map[*ssa.Function]string{}
	for fn := range cg.Nodes {
		if fn == nil {
			continue
		}
		if fnInRepo(fn) && !excludedFn(fn, prog.Fset) && !isLockWrapperFn(fn) {
			isRepo[fn] = true
			if fn.Blocks != nil {
				all = append(all, fn)
				names[fn] = fn.String()
			}
		}
	}
	sort.Slice(all, func(i, j int) bool {
		if names[all[i]] != names[all[j]] {
			return names[all[i]] < names[all[j]]
		}
		return all[i].Pos() < all[j].Pos()
	})
	// ---- callbacks: repository functions that code OUTSIDE the repository (standard library, dependencies) may call.
	// extReach[E] = repository functions reachable from the external function E through external functions only.
	extReach := map[*ssa.Function]map[*ssa.Function]bool{}
	var targets []*ssa.Function
	for fn := range isRepo {
		node := cg.Nodes[fn]
		for _, e := range node.In {
			if e.Caller.Func != nil && !isRepo[e.Caller.Func] && !excludedFn(e.Caller.Func, prog.Fset) && !isLockWrapperFn(e.Caller.Func) {
				targets = append(targets, fn)
				break
			}
		}
	}
	for _, g := range targets {
		seen := map[*ssa.Function]bool{}
		var st []*ssa.Function
		push := func(n *callgraph.Node) {
			for _, e := range n.In {
				c := e.Caller.Func
				if c == nil || isRepo[c] || seen[c] {
					continue
				}
				if _, isGo := e.Site.(*ssa.Go); isGo {
					continue
				}
				seen[c] = true
				st = append(st, c)
			}
		}
		push(cg.Nodes[g])
		for len(st) > 0 {
			c := st[len(st)-1]
			st = st[:len(st)-1]
			if extReach[c] == nil {
				extReach[c] = map[*ssa.Function]bool{}
			}
			extReach[c][g] = true
			push(cg.Nodes[c])
		}
	}
	tick(fmt.Sprintf("callback reachability (%d targets)", len(targets)))
	// ---- call sites of repository functions
	type bsite struct {
		fi    *fnInfo
		site  ssa.CallInstruction
		repoC []*ssa.Function
		extC  []*ssa.Function
		j     *just
	}
	var bsites []*bsite
	for _, fn := range all {
		node := cg.Nodes[fn]
		fi := la.info(fn)
		bySite := map[ssa.CallInstruction]*bsite{}
		var order []ssa.CallInstruction
		for _, e := range node.Out {
			if e.Site == nil || e.Callee.Func == nil {
				continue
			}
			if _, isGo := e.Site.(*ssa.Go); isGo {
				continue
			}
			c := e.Callee.Func
			bs := bySite[e.Site]
			if bs == nil {
				bs = &bsite{fi: fi, site: e.Site}
				bySite[e.Site] = bs
				order = append(order, e.Site)
			}
			if isRepo[c] {
				if c.Blocks != nil {
					bs.repoC = append(bs.repoC, c)
				}
			} else if !excludedFn(c, prog.Fset) && !isLockWrapperFn(c) {
				bs.extC = append(bs.extC, c)
			}
		}
		sort.Slice(order, func(i, k int) bool { return order[i].Pos() < order[k].Pos() })
		for _, st := range order {
			bs := bySite[st]
			if len(bs.extC) > 0 {
				bs.j = la.justify(fi, st.Common())
			}
			bsites = append(bsites, bs)
		}
	}
	// function values stored in objects of types outside the repository (fsm callbacks, btree less functions, ...):
	// a function handed to a call that RETURNS a value of external type T (a constructor) may be kept by that T and be
	// called whenever a T is handed over (as receiver or argument) again. Functions handed to other calls are assumed to
	// be called during that call only (sync.Once.Do, sort.Slice, ...).
	// The objects are told apart by the struct field of the repository they are kept in (Application.stateMachine vs
	// Queue.stateMachine): key = "T@pkg.Struct.field" when the constructed value flows into such a field, "T" otherwise.
	carried := map[string]map[*ssa.Function]bool{}
	extNamed := func(t types.Type) string {
		if n, ok := derefType(t).(*types.Named); ok && n.Obj().Pkg() != nil && !inRepo(n.Obj().Pkg()) {
			switch n.Underlying().(type) {
			case *types.Struct, *types.Interface, *types.Map, *types.Slice:
				return n.String()
			}
		}
		return ""
	}
	fieldKey := func(fa *ssa.FieldAddr) string {
		if n, ok := derefType(fa.X.Type()).(*types.Named); ok && inRepo(n.Obj().Pkg()) {
			if st, ok := n.Underlying().(*types.Struct); ok {
				return "@" + className(n) + "." + st.Field(fa.Field).Name()
			}
		}
		return ""
	}
	// where does a freshly constructed value end up: set of "@Struct.field" keys, "" = somewhere else
	var flowsTo func(v ssa.Value, seen map[ssa.Value]bool, depth int) map[string]bool
	flowsTo = func(v ssa.Value, seen map[ssa.Value]bool, depth int) map[string]bool {
		res := map[string]bool{}
		if v == nil || seen[v] || depth > 6 {
			res[""] = true
			return res
		}
		seen[v] = true
		refs := v.Referrers()
		if refs == nil || len(*refs) == 0 {
			return res
		}
		for _, r := range *refs {
			switch x := r.(type) {
			case *ssa.Store:
				if x.Val != v {
					continue
				}
				if fa, ok := x.Addr.(*ssa.FieldAddr); ok {
					if k := fieldKey(fa); k != "" {
						res[k] = true
						continue
					}
				}
				if al, ok := x.Addr.(*ssa.Alloc); ok {
					// a local variable: follow its loads
					if ar := al.Referrers(); ar != nil {
						for _, l := range *ar {
							if u, ok := l.(*ssa.UnOp); ok && u.X == al {
								for k := range flowsTo(u, seen, depth+1) {
									res[k] = true
								}
							}
						}
					}
					continue
				}
				res[""] = true
			case *ssa.Return:
				fn := x.Parent()
				node := cg.Nodes[fn]
				if node == nil || len(node.In) == 0 {
					res[""] = true
					continue
				}
				for _, e := range node.In {
					if e.Site == nil || e.Site.Value() == nil {
						continue
					}
					for k := range flowsTo(e.Site.Value(), seen, depth+1) {
						res[k] = true
					}
				}
			case *ssa.Phi:
				for k := range flowsTo(x, seen, depth+1) {
					res[k] = true
				}
			case *ssa.Extract:
				for k := range flowsTo(x, seen, depth+1) {
					res[k] = true
				}
			case *ssa.MakeInterface:
				for k := range flowsTo(x, seen, depth+1) {
					res[k] = true
				}
			case *ssa.ChangeType:
				for k := range flowsTo(x, seen, depth+1) {
					res[k] = true
				}
			case *ssa.DebugRef:
			case ssa.CallInstruction:
				// used as receiver / argument of a call: no new home; handing it to a repository function is followed
				// through that function's parameter only when it is stored there — approximated by "elsewhere"
				c := x.Common()
				if sc := c.StaticCallee(); sc != nil && isRepo[sc] {
					res[""] = true
				}
			case *ssa.If, *ssa.BinOp:
			default:
				res[""] = true
			}
		}
		return res
	}
	addCarried := func(k string, fns map[*ssa.Function]bool) {
		if carried[k] == nil {
			carried[k] = map[*ssa.Function]bool{}
		}
		for f := range fns {
			if isRepo[f] {
				carried[k][f] = true
			}
		}
	}
	for _, bs := range bsites {
		if bs.j == nil || len(bs.j.fns) == 0 {
			continue
		}
		v := bs.site.Value()
		if v == nil {
			continue
		}
		var results []ssa.Value
		var rtypes []types.Type
		if tup, ok := v.Type().(*types.Tuple); ok {
			if refs := v.Referrers(); refs != nil {
				for _, r := range *refs {
					if ex, ok := r.(*ssa.Extract); ok && ex.Index < tup.Len() {
						results = append(results, ex)
						rtypes = append(rtypes, tup.At(ex.Index).Type())
					}
				}
			}
		} else {
			results, rtypes = []ssa.Value{v}, []types.Type{v.Type()}
		}
		for i, rv := range results {
			t := extNamed(rtypes[i])
			if t == "" {
				continue
			}
			for k := range flowsTo(rv, map[ssa.Value]bool{}, 0) {
				addCarried(t+k, bs.j.fns)
			}
		}
	}
	// what an external-typed value handed over at a call may carry
	carriedBy := func(v ssa.Value) map[*ssa.Function]bool {
		t := extNamed(v.Type())
		if t == "" {
			return nil
		}
		res := map[*ssa.Function]bool{}
		if u, ok := v.(*ssa.UnOp); ok {
			if fa, ok := u.X.(*ssa.FieldAddr); ok {
				if k := fieldKey(fa); k != "" {
					for f := range carried[t+k] {
						res[f] = true
					}
					for f := range carried[t] {
						res[f] = true
					}
					return res
				}
			}
		}
		for k, fs := range carried {
			if k == t || strings.HasPrefix(k, t+"@") {
				for f := range fs {
					res[f] = true
				}
			}
		}
		return res
	}
	sites := map[ssa.CallInstruction][]calleeRef{}
	for _, bs := range bsites {
		seen := map[*ssa.Function]bool{}
		var refs []calleeRef
		sort.Slice(bs.repoC, func(i, k int) bool { return names[bs.repoC[i]] < names[bs.repoC[k]] })
		for _, c := range bs.repoC {
			if !seen[c] {
				seen[c] = true
				refs = append(refs, calleeRef{fn: c})
			}
		}
		if bs.j != nil {
			cc := bs.site.Common()
			if cc.IsInvoke() {
				for f := range carriedBy(cc.Value) {
					bs.j.fns[f] = true
				}
			}
			for _, a := range cc.Args {
				for f := range carriedBy(a) {
					bs.j.fns[f] = true
				}
			}
			if d := os.Getenv("LOCKORDER_JDEBUG"); d != "" && strings.Contains(la.posStr(bs.site.Pos()), d) {
				var ts []string
				for t := range bs.j.types {
					ts = append(ts, shortName(t))
				}
				sort.Strings(ts)
				fmt.Fprintf(os.Stderr, "justify %s in %s: anyType=%v anyFunc=%v why=%v fns=%d ifaces=%d types=%v carriedKeys=%d\n", la.posStr(bs.site.Pos()), shortName(bs.fi.fn.String()),
					bs.j.anyType, bs.j.anyFunc, bs.j.why, len(bs.j.fns), len(bs.j.ifaces), ts, len(carried))
			}
			sort.Slice(bs.extC, func(i, k int) bool { return bs.extC[i].String() < bs.extC[k].String() })
			for _, c := range bs.extC {
				var gs []*ssa.Function
				for g := range extReach[c] {
					if !seen[g] && g.Blocks != nil && bs.j.allows(g) {
						gs = append(gs, g)
					}
				}
				sort.Slice(gs, func(i, k int) bool { return names[gs[i]] < names[gs[k]] })
				for _, g := range gs {
					seen[g] = true
					refs = append(refs, calleeRef{fn: g, via: c})
				}
			}
		}
		sites[bs.site] = refs
	}
	tick("call sites")
	hasLock := map[*ssa.Function]bool{}
	for _, fn := range all {
		fi := la.info(fn)
		for _, b := range fn.Blocks {
			for _, ins := range b.Instrs {
				if ci, ok := ins.(ssa.CallInstruction); ok {
					if op := la.lockOpOf(fi, ci.Common()); op != nil && (op.kind == "Lock" || op.kind == "RLock") {
						hasLock[fn] = true
					}
				}
			}
		}
	}
	la.unres = nil
	rel := all
	tick(fmt.Sprintf("relevant set (%d of %d functions)", len(rel), len(all)))
	for _, fn := range rel {
		la.analyseBody(la.info(fn), sites)
	}
	if d := os.Getenv("LOCKORDER_FDEBUG"); d != "" {
		for _, fn := range rel {
			if !strings.Contains(fn.String(), d) {
				continue
			}
			fi := la.infos[fn]
			fmt.Fprintf(os.Stderr, "FDEBUG %s: direct=%d sites=%d\n", fn.String(), len(fi.direct), len(fi.sites))
			for i, a := range fi.direct {
				fmt.Fprintf(os.Stderr, "  direct %s held=%v\n", a.key(), fi.directH[i])
			}
			for _, s := range fi.sites {
				var cs []string
				for _, c := range s.callees {
					cs = append(cs, c.fn.String())
				}
				fmt.Fprintf(os.Stderr, "  site %s held=%v callees=%v\n", la.posStr(s.instr.Pos()), s.held, cs)
			}
		}
	}
	tick("bodies")
	// summaries: breadth-first propagation from the locking calls up the call graph (first = shortest witness chain)
	type callerRef struct {
		fi   *fnInfo
		site *callSite
		via  *ssa.Function
	}
	callersOf := map[*ssa.Function][]callerRef{}
	for _, fn := range rel {
		fi := la.infos[fn]
		for _, s := range fi.sites {
			for _, callee := range s.callees {
				callersOf[callee.fn] = append(callersOf[callee.fn], callerRef{fi, s, callee.via})
			}
		}
	}
	type work struct {
		fn *ssa.Function
		a  acq
	}
	var queue []work
	for _, fn := range rel {
		fi := la.infos[fn]
		for _, a := range fi.direct {
			if _, ok := fi.summary[a.key()]; !ok {
				fi.summary[a.key()] = a
				queue = append(queue, work{fn, a})
			}
		}
	}
	nwork := 0
	for len(queue) > 0 {
		w := queue[0]
		queue = queue[1:]
		nwork++
		for _, cr := range callersOf[w.fn] {
			fi := cr.fi
			na := acq{class: w.a.class, mode: w.a.mode, locker: w.a.locker, via: w.a.via, p: la.mapUpVia(fi, cr.site.instr.Common(), w.fn, cr.via, w.a.p)}
			if na.via == "" && cr.via != nil {
				na.via = shortName(cr.via.String())
			}
			if na.p.bottom {
				na.p = unknownPath
			}
			nk := na.key()
			if _, ok := fi.summary[nk]; !ok {
				na.chain = append([]string{la.hopStr(fi.fn, cr.site.instr, cr.via)}, w.a.chain...)
				fi.summary[nk] = na
				queue = append(queue, work{fi.fn, na})
			}
		}
	}
	tick(fmt.Sprintf("summaries (%d work items)", nwork))
	// edges
	edges := map[string]edgeOut{}
	fine := map[string]edgeOut{}
	addEdge := func(h heldLock, a acq, holder *ssa.Function, chain []string) {
		rl := "other"
		if h.class == a.class {
			rl = relation(h.p, a.p)
		}
		hn := shortName(holder.String())
		w := fmt.Sprintf("%s holds %s(%c) since %s", hn, h.class, h.mode, la.posStr(h.pos)) + " => " + strings.Join(chain, " -> ")
		k := fmt.Sprintf("%s|%c|%s|%c|%s", h.class, h.mode, a.class, a.mode, rl)
		e := edgeOut{held: h.class, acq: a.class, heldMode: h.mode, acqMode: a.mode, rel: rl, witness: w, chainLen: len(chain)}
		if old, ok := edges[k]; !ok || len(chain) < old.chainLen || (len(chain) == old.chainLen && w < old.witness) {
			edges[k] = e
		}
		fk := k + "|" + hn + "|" + a.locker + "|" + a.via
		e.holder, e.locker, e.via = hn, a.locker, a.via
		if old, ok := fine[fk]; !ok || len(chain) < old.chainLen || (len(chain) == old.chainLen && w < old.witness) {
			fine[fk] = e
		}
	}
	var leaks []string
	for _, fn := range rel {
		fi := la.infos[fn]
		if fn.Pkg == nil && fn.Parent() == nil {
			// synthetic wrappers hold nothing
		}
		for i, a := range fi.direct {
			for _, h := range fi.directH[i] {
				addEdge(h, a, fn, a.chain)
			}
		}
		for _, s := range fi.sites {
			if len(s.held) == 0 {
				continue
			}
			for _, callee := range s.callees {
				ci := la.infos[callee.fn]
				if ci == nil {
					continue
				}
				for _, a := range ci.summary {
					na := acq{class: a.class, mode: a.mode, locker: a.locker, via: a.via, p: la.mapUpVia(fi, s.instr.Common(), callee.fn, callee.via, a.p)}
					if na.via == "" && callee.via != nil {
						na.via = shortName(callee.via.String())
					}
					if na.p.bottom {
						na.p = unknownPath
					}
					chain := append([]string{la.hopStr(fn, s.instr, callee.via)}, a.chain...)
					for _, h := range s.held {
						addEdge(h, na, fn, chain)
					}
				}
			}
		}
		seen := map[string]bool{}
		for _, h := range fi.leaks {
			m := fmt.Sprintf("%s returns holding %s(%c) taken at %s", shortName(fn.String()), h.class, h.mode, la.posStr(h.pos))
			if !seen[m] {
				seen[m] = true
				leaks = append(leaks, m)
			}
		}
	}
	sort.Strings(leaks)
	sort.Strings(la.unres)
	tick("edges")

	// ------------------------------------------------------------------ emit
	var classes []string
	for c := range la.classes {
		classes = append(classes, c)
	}
	sort.Strings(classes)
	// granularity: an edge that can be ranked is kept once per (classes, modes, relation). Edges that lie on a cycle of
	// the class graph — where a ranking has to fail somewhere — are listed per (holding function, locking function):
	// same-class edges that are not consistently directed, and edges between classes of one strongly connected component.
	scc := classSCC(edges)
	dirCount := map[string]int{}
	for _, e := range fine {
		if e.held == e.acq && (e.rel == "up" || e.rel == "down") {
			dirCount[e.held+"|"+e.rel]++
		}
	}
	needFine := func(e edgeOut) bool {
		if e.held == e.acq {
			switch e.rel {
			case "up", "down":
				other := "up"
				if e.rel == "up" {
					other = "down"
				}
				n, m := dirCount[e.held+"|"+e.rel], dirCount[e.held+"|"+other]
				return m > 0 && (n < m || (n == m && e.rel == "down"))
			default:
				return true
			}
		}
		return scc[e.held] == scc[e.acq]
	}
	final := map[string]edgeOut{}
	for k, e := range edges {
		if !needFine(e) {
			final[k] = e
		}
	}
	for k, e := range fine {
		if needFine(e) {
			final[k] = e
		}
	}
	edges = final
	var keys []string
	for k := range edges {
		keys = append(keys, k)
	}
	sort.Strings(keys)
	var b strings.Builder
	fmt.Fprintf(&b, "-- GENERATED by /verif/extract (T4 %s, call graph %s) from the non-test sources under pkg/ — do not edit\n", lockOrderVersion, mode)
	b.WriteString("namespace Yk.Gen.LockOrder\n\n")
	b.WriteString("/-- lock classes: the struct type (or package variable) that owns a mutex; `pkg_Type` / `pkg_Type_field` -/\n")
	b.WriteString("inductive Cls where\n")
	for _, c := range classes {
		fmt.Fprintf(&b, "  | %s\n", sanitize(c))
	}
	b.WriteString("  deriving DecidableEq, Repr\n\n")
	b.WriteString("def Cls.name : Cls → String\n")
	for _, c := range classes {
		fmt.Fprintf(&b, "  | .%s => %s\n", sanitize(c), leanStr(c))
	}
	b.WriteString("\ndef allClasses : List Cls := [")
	for i, c := range classes {
		if i > 0 {
			b.WriteString(", ")
		}
		b.WriteString("." + sanitize(c))
	}
	b.WriteString("]\n\n")
	b.WriteString("inductive LockMode where | R | W\n  deriving DecidableEq, Repr\n\n")
	b.WriteString("/-- relation between the instance held and the instance acquired: `other` = different classes; for one class:\n")
	b.WriteString("    `same` instance (re-entrant acquisition), `up` = the acquired one is an ancestor (reached through .parent),\n")
	b.WriteString("    `down` = a descendant (reached through the children map), `unknown` = two instances the analysis cannot relate -/\n")
	b.WriteString("inductive Rel where | other | same | up | down | unknown\n  deriving DecidableEq, Repr\n\n")
	b.WriteString("structure Edge where\n  held : Cls\n  heldMode : LockMode\n  acq : Cls\n  acqMode : LockMode\n  rel : Rel\n  holder : String\n  locker : String\n  via : String\n  witness : String\n\n")
	b.WriteString("/-- held ⟶ acquired with one witness call chain. Edges that can be ranked appear once per (classes, modes, relation)\n")
	b.WriteString("    with holder = locker = via = \"\"; edges on a cycle of the class graph appear once per (holding function, locking function,\n    last function outside the repository through which the chain calls back — \"\" when the chain is direct calls only). -/\n")
	b.WriteString("def edges : List Edge := [\n")
	for i, k := range keys {
		e := edges[k]
		sep := ","
		if i == len(keys)-1 {
			sep = ""
		}
		fmt.Fprintf(&b, "  ⟨.%s, .%c, .%s, .%c, .%s, %s, %s, %s,\n    %s⟩%s\n", sanitize(e.held), e.heldMode, sanitize(e.acq), e.acqMode, e.rel, leanStr(e.holder), leanStr(e.locker), leanStr(e.via), leanStr(e.witness), sep)
	}
	b.WriteString("]\n\n")
	b.WriteString("/-- functions that return while still holding a lock they took (none expected: the analysis treats every lock as released at function exit) -/\n")
	b.WriteString("def leaks : List String := [")
	for i, l := range leaks {
		if i > 0 {
			b.WriteString(",")
		}
		b.WriteString("\n  " + leanStr(l))
	}
	b.WriteString("]\n\n")
	b.WriteString("/-- lock operations whose owner the translator could not resolve to a class -/\n")
	b.WriteString("def unresolved : List String := [")
	for i, l := range la.unres {
		if i > 0 {
			b.WriteString(",")
		}
		b.WriteString("\n  " + leanStr(l))
	}
	b.WriteString("]\n\nend Yk.Gen.LockOrder\n")
	if os.Getenv("LOCKORDER_DEBUG") != "" {
		fmt.Fprintf(os.Stderr, "lockorder: %d functions, %d relevant, %d locking, %d classes, %d edges, %d leaks, %d unresolved\n",
			len(all), len(rel), len(hasLock), len(classes), len(keys), len(leaks), len(la.unres))
	}
	return b.String()
}

// ---------------------------------------------------------------------------------------------------- repository / callbacks

func pkgOfNamed(t types.Type) *types.Package {
	if n, ok := derefType(t).(*types.Named); ok && n.Obj() != nil {
		return n.Obj().Pkg()
	}
	return nil
}

// fnInRepo: is the function (or the synthetic wrapper / bound method / instantiation) code of the repository
func fnInRepo(fn *ssa.Function) bool {
	f := fn
	for f.Parent() != nil {
		f = f.Parent()
	}
	if f.Origin() != nil {
		f = f.Origin()
	}
	if f.Pkg != nil {
		return inRepo(f.Pkg.Pkg)
	}
	if r := f.Signature.Recv(); r != nil {
		return inRepo(pkgOfNamed(r.Type()))
	}
	if len(f.FreeVars) > 0 {
		return inRepo(pkgOfNamed(f.FreeVars[0].Type()))
	}
	return false
}

var lockMethodNames = map[string]bool{"Lock": true, "RLock": true, "Unlock": true, "RUnlock": true, "TryLock": true, "TryRLock": true, "RLocker": true}

// isLockWrapperFn: the compiler-made wrapper that promotes Lock/Unlock/... of an embedded mutex to the outer struct
func isLockWrapperFn(fn *ssa.Function) bool {
	if fn.Synthetic == "" || !lockMethodNames[fn.Name()] {
		return false
	}
	r := fn.Signature.Recv()
	return r != nil && !isLockWrapperType(r.Type())
}

// just: what a call into code outside the repository hands over, i.e. what that code can call back
type just struct {
	fns     map[*ssa.Function]bool
	types   map[string]bool
	ifaces  []*types.Interface
	anyType bool // a value of unknown dynamic type is handed over: any method of any type of the repository
	anyFunc bool // a function value of unknown origin is handed over: any function
	why     []string
}

func (j *just) allows(g *ssa.Function) bool {
	f := g
	for f != nil {
		if j.fns[f] {
			return true
		}
		f = f.Parent()
	}
	if j.anyFunc {
		return true
	}
	var rt types.Type
	if r := g.Signature.Recv(); r != nil {
		rt = r.Type()
	} else if len(g.FreeVars) > 0 && g.Synthetic != "" {
		rt = g.FreeVars[0].Type()
	}
	if rt == nil {
		return false
	}
	if j.anyType {
		return true
	}
	if n, ok := derefType(rt).(*types.Named); ok {
		if j.types[n.String()] {
			return true
		}
		for _, it := range j.ifaces {
			if types.Implements(n, it) || types.Implements(types.NewPointer(n), it) {
				return true
			}
		}
	}
	return false
}

func (j *just) addType(t types.Type, depth int) {
	if depth > 3 || t == nil {
		return
	}
	switch x := t.(type) {
	case *types.Pointer:
		j.addType(x.Elem(), depth)
	case *types.Named:
		if inRepo(x.Obj().Pkg()) {
			j.types[x.String()] = true
		}
		if st, ok := x.Underlying().(*types.Struct); ok {
			for i := 0; i < st.NumFields(); i++ {
				if st.Field(i).Exported() || st.Field(i).Embedded() {
					j.addType(st.Field(i).Type(), depth+1)
				}
			}
		} else if _, ok := x.Underlying().(*types.Interface); !ok {
			j.addType(x.Underlying(), depth+1)
		}
	case *types.Slice:
		j.addType(x.Elem(), depth+1)
	case *types.Array:
		j.addType(x.Elem(), depth+1)
	case *types.Map:
		j.addType(x.Key(), depth+1)
		j.addType(x.Elem(), depth+1)
	case *types.Struct:
		for i := 0; i < x.NumFields(); i++ {
			j.addType(x.Field(i).Type(), depth+1)
		}
	}
}

func (la *lockAnalysis) justify(fi *fnInfo, c *ssa.CallCommon) *just {
	j := &just{fns: map[*ssa.Function]bool{}, types: map[string]bool{}}
	seen := map[ssa.Value]bool{}
	if c.Value != nil && c.IsInvoke() {
		la.collectJust(c.Value, j, seen, 0) // the receiver of an interface call; for other calls Value is the callee itself
	}
	for _, a := range c.Args {
		la.collectJust(a, j, seen, 0)
	}
	return j
}

func (la *lockAnalysis) collectJust(v ssa.Value, j *just, seen map[ssa.Value]bool, depth int) {
	if v == nil || seen[v] {
		return
	}
	seen[v] = true
	if depth > 16 {
		j.anyType = true
		j.anyFunc = true
		j.why = append(j.why, "depth")
		return
	}
	opaque := false // the value comes from somewhere we do not look into
	switch x := v.(type) {
	case *ssa.Const, *ssa.Builtin:
		return
	case *ssa.Function:
		j.fns[x] = true
		return
	case *ssa.MakeClosure:
		if f, ok := x.Fn.(*ssa.Function); ok {
			j.fns[f] = true
		}
		for _, b := range x.Bindings {
			la.collectJust(b, j, seen, depth+1)
		}
		return
	case *ssa.Parameter:
		// an interface / function parameter: what the callers inside the repository pass
		opaque = true
		switch x.Type().Underlying().(type) {
		case *types.Interface, *types.Signature:
			if la.fromCallers(x, j, seen, depth) {
				opaque = false
			}
		}
	case *ssa.MakeInterface:
		la.collectJust(x.X, j, seen, depth+1)
	case *ssa.ChangeInterface:
		la.collectJust(x.X, j, seen, depth+1)
	case *ssa.ChangeType:
		la.collectJust(x.X, j, seen, depth+1)
	case *ssa.Convert:
		la.collectJust(x.X, j, seen, depth+1)
	case *ssa.TypeAssert:
		la.collectJust(x.X, j, seen, depth+1)
	case *ssa.Slice:
		la.collectJust(x.X, j, seen, depth+1)
	case *ssa.Phi:
		for _, e := range x.Edges {
			la.collectJust(e, j, seen, depth+1)
		}
	case *ssa.Extract:
		if c, ok := x.Tuple.(*ssa.Call); ok && isErrorType(x.Type()) {
			if callee := c.Call.StaticCallee(); callee != nil && !fnInRepo(callee) {
				opaque = true
				break
			}
		}
		la.collectJust(x.Tuple, j, seen, depth+1)
	case *ssa.UnOp:
		switch y := x.X.(type) {
		case *ssa.Alloc:
			la.collectStores(y, j, seen, depth+1)
		case *ssa.IndexAddr:
			la.collectJust(y.X, j, seen, depth+1) // an element of a container: whatever was put into it
		default:
			opaque = true // a field / variable load: known by its type only
		}
	case *ssa.Alloc:
		la.collectStores(x, j, seen, depth+1)
	case *ssa.MakeMap, *ssa.MakeSlice:
		la.collectStores(x, j, seen, depth+1)
	case *ssa.Lookup:
		la.collectJust(x.X, j, seen, depth+1)
	case *ssa.IndexAddr:
		la.collectJust(x.X, j, seen, depth+1)
	case *ssa.Index:
		la.collectJust(x.X, j, seen, depth+1)
	case *ssa.Call:
		callee := x.Call.StaticCallee()
		if callee != nil && !fnInRepo(callee) {
			// a value built by a constructor outside the repository (zap.Stringer(k, v), ...): it carries its arguments.
			// Exception: an `error` made outside the repository is taken not to keep live references to the arguments of
			// the failed call (fmt.Errorf formats eagerly; looplab/fsm errors carry the event and state names).
			if isErrorType(v.Type()) {
				opaque = true
			} else {
				for _, a := range x.Call.Args {
					la.collectJust(a, j, seen, depth+1)
				}
			}
		} else if callee != nil && callee.Blocks != nil && depth < 8 {
			// a value built by a function of the repository: what it returns
			for _, b := range callee.Blocks {
				for _, ins := range b.Instrs {
					if r, ok := ins.(*ssa.Return); ok {
						for _, res := range r.Results {
							la.collectJust(res, j, seen, depth+1)
						}
					}
				}
			}
		} else {
			opaque = true
		}
	default:
		opaque = true
	}
	t := v.Type()
	j.addType(t, 0)
	if opaque {
		switch u := t.Underlying().(type) {
		case *types.Interface:
			if u.NumMethods() == 0 {
				j.anyType = true
				j.why = append(j.why, "any:"+v.Name()+" in "+fnName(v))
			} else {
				j.ifaces = append(j.ifaces, u)
			}
		case *types.Signature:
			// a function value of unknown origin: any function
			j.anyFunc = true
			j.why = append(j.why, "func:"+v.Name()+" in "+fnName(v))
		}
	}
}

// what is stored into a local cell / array / struct literal
func (la *lockAnalysis) collectStores(addr ssa.Value, j *just, seen map[ssa.Value]bool, depth int) {
	refs := addr.Referrers()
	if refs == nil || depth > 12 {
		return
	}
	for _, r := range *refs {
		switch x := r.(type) {
		case *ssa.Store:
			if x.Addr == addr {
				la.collectJust(x.Val, j, seen, depth+1)
			}
		case *ssa.IndexAddr:
			if x.X == addr && !seen[x] {
				seen[x] = true
				la.collectStores(x, j, seen, depth+1)
			}
		case *ssa.FieldAddr:
			if x.X == addr && !seen[x] {
				seen[x] = true
				la.collectStores(x, j, seen, depth+1)
			}
		case *ssa.MapUpdate:
			if x.Map == addr {
				la.collectJust(x.Key, j, seen, depth+1)
				la.collectJust(x.Value, j, seen, depth+1)
			}
		}
	}
}

func fnName(v ssa.Value) string {
	if v.Parent() != nil {
		return shortName(v.Parent().String())
	}
	return "?"
}

// fromCallers: justify a parameter by the arguments of every caller (all callers must be repository functions)
func (la *lockAnalysis) fromCallers(p *ssa.Parameter, j *just, seen map[ssa.Value]bool, depth int) bool {
	fn := p.Parent()
	if fn == nil {
		return false
	}
	idx := -1
	for i, q := range fn.Params {
		if q == p {
			idx = i
		}
	}
	node := la.cg.Nodes[fn]
	if idx < 0 || node == nil || len(node.In) == 0 {
		return false
	}
	var args []ssa.Value
	for _, e := range node.In {
		if e.Caller.Func == nil || !fnInRepo(e.Caller.Func) || e.Site == nil {
			return false
		}
		if excludedFn(e.Caller.Func, la.fset) {
			continue
		}
		c := e.Site.Common()
		var a ssa.Value
		if c.IsInvoke() {
			if idx == 0 {
				a = c.Value
			} else if idx-1 < len(c.Args) {
				a = c.Args[idx-1]
			}
		} else if sc := c.StaticCallee(); sc == fn {
			if idx < len(c.Args) {
				a = c.Args[idx]
			}
		} else if fn.Signature.Recv() == nil && len(fn.FreeVars) == 0 && idx < len(c.Args) {
			a = c.Args[idx] // called through a function value
		} else if idx < len(c.Args) && len(c.Args) == len(fn.Params) {
			a = c.Args[idx]
		}
		if a == nil {
			return false
		}
		args = append(args, a)
	}
	for _, a := range args {
		la.collectJust(a, j, seen, depth+1)
	}
	return true
}

// classSCC: strongly connected components of the class graph (edges between different classes); class -> component id
func classSCC(edges map[string]edgeOut) map[string]int {
	adj := map[string][]string{}
	nodes := map[string]bool{}
	for _, e := range edges {
		nodes[e.held], nodes[e.acq] = true, true
		if e.held != e.acq {
			adj[e.held] = append(adj[e.held], e.acq)
		}
	}
	var names []string
	for n := range nodes {
		names = append(names, n)
	}
	sort.Strings(names)
	index, low, onst := map[string]int{}, map[string]int{}, map[string]bool{}
	comp := map[string]int{}
	var st []string
	idx, nc := 0, 0
	var strong func(v string)
	strong = func(v string) {
		idx++
		index[v], low[v] = idx, idx
		st = append(st, v)
		onst[v] = true
		for _, w := range adj[v] {
			if index[w] == 0 {
				strong(w)
				if low[w] < low[v] {
					low[v] = low[w]
				}
			} else if onst[w] && index[w] < low[v] {
				low[v] = index[w]
			}
		}
		if low[v] == index[v] {
			nc++
			for {
				w := st[len(st)-1]
				st = st[:len(st)-1]
				onst[w] = false
				comp[w] = nc
				if w == v {
					break
				}
			}
		}
	}
	for _, n := range names {
		if index[n] == 0 {
			strong(n)
		}
	}
	// singletons get distinct ids already; classes absent from the graph never compare equal
	return comp
}

func isErrorType(t types.Type) bool {
	n, ok := t.(*types.Named)
	return ok && n.Obj().Pkg() == nil && n.Obj().Name() == "error"
}
