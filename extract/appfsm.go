package main

import (
	"fmt"
	"go/ast"
	"go/token"
	"go/types"
	"sort"
	"strconv"
	"strings"
)

// T2: the application state machine of pkg/scheduler/objects/application_state.go:
// eventDesc() -> transition table; callbacks() -> per callback key the tracked calls it makes and under which guard.

var trackedCalls = map[string]bool{
	"incRunningApps": true, "decRunningApps": true, "setStateTimer": true, "clearStateTimer": true,
	"executeTerminatedCallback": true, "cleanupAsks": true, "clearPlaceholderTimer": true, "cleanupTrackedResource": true,
	"OnStateChange": true, "SendStateChangeEvent": true,
}

type fsmCtx struct {
	names map[string]string // const identifier -> its String() value
}

func collectEnum(f *ast.File, typeName string) []string {
	// const block whose first spec has type typeName and value iota
	for _, d := range f.Decls {
		gd, ok := d.(*ast.GenDecl)
		if !ok || gd.Tok != token.CONST || len(gd.Specs) == 0 {
			continue
		}
		first := gd.Specs[0].(*ast.ValueSpec)
		if id, ok := first.Type.(*ast.Ident); !ok || id.Name != typeName {
			continue
		}
		var out []string
		for _, s := range gd.Specs {
			vs := s.(*ast.ValueSpec)
			for _, n := range vs.Names {
				out = append(out, n.Name)
			}
		}
		return out
	}
	die("T2: const block of type %s not found", typeName)
	return nil
}

func stringArray(f *ast.File, recvType string) []string {
	for _, d := range f.Decls {
		fd, ok := d.(*ast.FuncDecl)
		if !ok || fd.Recv == nil || fd.Name.Name != "String" {
			continue
		}
		if id, ok := fd.Recv.List[0].Type.(*ast.Ident); !ok || id.Name != recvType {
			continue
		}
		var out []string
		ast.Inspect(fd.Body, func(n ast.Node) bool {
			if cl, ok := n.(*ast.CompositeLit); ok && out == nil {
				if _, ok := cl.Type.(*ast.ArrayType); ok {
					for _, e := range cl.Elts {
						s, err := strconv.Unquote(e.(*ast.BasicLit).Value)
						if err != nil {
							die("T2: String() array of %s", recvType)
						}
						out = append(out, s)
					}
				}
			}
			return true
		})
		return out
	}
	die("T2: String() of %s not found", recvType)
	return nil
}

// X.String() -> value
func (c *fsmCtx) strOf(e ast.Expr) string {
	if ce, ok := e.(*ast.CallExpr); ok {
		if se, ok := ce.Fun.(*ast.SelectorExpr); ok && se.Sel.Name == "String" {
			if id, ok := se.X.(*ast.Ident); ok {
				if v, ok := c.names[id.Name]; ok {
					return v
				}
			}
		}
	}
	if bl, ok := e.(*ast.BasicLit); ok && bl.Kind == token.STRING {
		s, _ := strconv.Unquote(bl.Value)
		return s
	}
	die("T2: cannot resolve state/event expression %s", types.ExprString(e))
	return ""
}

func (c *fsmCtx) keyOf(e ast.Expr) string {
	if bl, ok := e.(*ast.BasicLit); ok {
		s, _ := strconv.Unquote(bl.Value)
		return s
	}
	if ce, ok := e.(*ast.CallExpr); ok {
		if se, ok := ce.Fun.(*ast.SelectorExpr); ok && se.Sel.Name == "Sprintf" && len(ce.Args) == 2 {
			format, _ := strconv.Unquote(ce.Args[0].(*ast.BasicLit).Value)
			return strings.Replace(format, "%s", c.strOf(ce.Args[1]), 1)
		}
	}
	die("T2: cannot resolve callback key %s", types.ExprString(e))
	return ""
}

func findFunc(f *ast.File, name string) *ast.FuncDecl {
	for _, d := range f.Decls {
		if fd, ok := d.(*ast.FuncDecl); ok && fd.Recv == nil && fd.Name.Name == name {
			return fd
		}
	}
	die("T2: func %s not found", name)
	return nil
}

func firstCompositeLit(n ast.Node) *ast.CompositeLit {
	var out *ast.CompositeLit
	ast.Inspect(n, func(x ast.Node) bool {
		if cl, ok := x.(*ast.CompositeLit); ok && out == nil {
			out = cl
			return false
		}
		return out == nil
	})
	return out
}

// guard expression with X.String() resolved
func (c *fsmCtx) guardText(e ast.Expr) string {
	s := types.ExprString(e)
	for id, v := range c.names {
		s = strings.ReplaceAll(s, id+".String()", v)
	}
	return s
}

func (c *fsmCtx) callsIn(body *ast.BlockStmt) [][2]string {
	var out [][2]string
	var walk func(n ast.Node, guard string)
	walk = func(n ast.Node, guard string) {
		switch x := n.(type) {
		case *ast.IfStmt:
			g := c.guardText(x.Cond)
			if guard != "" {
				g = guard + " && " + g
			}
			if x.Init != nil {
				walk(x.Init, guard)
			}
			walk(x.Body, g)
			if x.Else != nil {
				walk(x.Else, guard+" && !("+c.guardText(x.Cond)+")")
			}
			return
		case *ast.CallExpr:
			if se, ok := x.Fun.(*ast.SelectorExpr); ok && trackedCalls[se.Sel.Name] {
				name := se.Sel.Name
				if name == "setStateTimer" && len(x.Args) == 3 {
					name = fmt.Sprintf("setStateTimer(%s,%s)", types.ExprString(x.Args[0]), types.ExprString(x.Args[2]))
				}
				out = append(out, [2]string{name, guard})
			}
		}
		// generic traversal of children
		ast.Inspect(n, func(ch ast.Node) bool {
			if ch == n || ch == nil {
				return true
			}
			walk(ch, guard)
			return false
		})
	}
	walk(body, "")
	return out
}

func genAppFsm(repo string) string {
	_, f := parseFile(repo, "pkg/scheduler/objects/application_state.go")
	c := &fsmCtx{names: map[string]string{}}
	evNames, evStrs := collectEnum(f, "applicationEvent"), stringArray(f, "applicationEvent")
	stNames, stStrs := collectEnum(f, "applicationState"), stringArray(f, "applicationState")
	if len(evNames) != len(evStrs) || len(stNames) != len(stStrs) {
		die("T2: enum/String() length mismatch")
	}
	for i := range evNames {
		c.names[evNames[i]] = evStrs[i]
	}
	for i := range stNames {
		c.names[stNames[i]] = stStrs[i]
	}
	var b strings.Builder
	b.WriteString("-- GENERATED by /verif/extract (T2) from pkg/scheduler/objects/application_state.go — do not edit\nnamespace Yk.Gen\n\n")
	lst := func(xs []string) string {
		q := make([]string, len(xs))
		for i, x := range xs {
			q[i] = leanStr(x)
		}
		return "[" + strings.Join(q, ", ") + "]"
	}
	b.WriteString("def appStates : List String := " + lst(stStrs) + "\n")
	b.WriteString("def appEvents : List String := " + lst(evStrs) + "\n\n")
	// transitions
	ed := firstCompositeLit(findFunc(f, "eventDesc").Body)
	b.WriteString("/-- (event, sources, destination) in source order -/\ndef appTransitions : List (String × List String × String) := [\n")
	for i, el := range ed.Elts {
		cl := el.(*ast.CompositeLit)
		var name, dst string
		var srcs []string
		for _, kv := range cl.Elts {
			k := kv.(*ast.KeyValueExpr)
			switch k.Key.(*ast.Ident).Name {
			case "Name":
				name = c.strOf(k.Value)
			case "Dst":
				dst = c.strOf(k.Value)
			case "Src":
				for _, s := range k.Value.(*ast.CompositeLit).Elts {
					srcs = append(srcs, c.strOf(s))
				}
			}
		}
		sep := ","
		if i == len(ed.Elts)-1 {
			sep = ""
		}
		fmt.Fprintf(&b, "  (%s, %s, %s)%s\n", leanStr(name), lst(srcs), leanStr(dst), sep)
	}
	b.WriteString("]\n\n")
	// callbacks
	cb := firstCompositeLit(findFunc(f, "callbacks").Body)
	type entry struct {
		key   string
		calls [][2]string
	}
	var entries []entry
	for _, el := range cb.Elts {
		kv := el.(*ast.KeyValueExpr)
		fl, ok := kv.Value.(*ast.FuncLit)
		if !ok {
			die("T2: callback value is not a function literal")
		}
		entries = append(entries, entry{c.keyOf(kv.Key), c.callsIn(fl.Body)})
	}
	sort.Slice(entries, func(i, j int) bool { return entries[i].key < entries[j].key })
	b.WriteString("/-- callback key ↦ the tracked calls it makes, each with the guard it is under (\"\" = unconditional); sorted by key -/\n")
	b.WriteString("def appCallbacks : List (String × List (String × String)) := [\n")
	for i, e := range entries {
		var cs []string
		for _, cl := range e.calls {
			cs = append(cs, "("+leanStr(cl[0])+", "+leanStr(cl[1])+")")
		}
		sep := ","
		if i == len(entries)-1 {
			sep = ""
		}
		fmt.Fprintf(&b, "  (%s, [%s])%s\n", leanStr(e.key), strings.Join(cs, ", "), sep)
	}
	b.WriteString("]\n\nend Yk.Gen\n")
	return b.String()
}
