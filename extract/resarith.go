package main

import (
	"fmt"
	"go/ast"
	"go/parser"
	"go/token"
	"path/filepath"
	"strings"
)

// T1: translate the int64 calculators of pkg/common/resources/resources.go to Lean definitions over Int with
// Go's wrapping semantics explicit (wrap64 around +, -, *, unary -, and truncating division).

type t1 struct {
	fset   *token.FileSet
	floats map[string]bool // float-typed identifiers in the current function
	fn     string
}

func (t *t1) fail(n ast.Node, msg string) {
	die("T1 %s: %s at %s", t.fn, msg, t.fset.Position(n.Pos()))
}

func isLogCall(e ast.Expr) bool {
	// log.Log(...).Warn(...) and friends
	for {
		switch x := e.(type) {
		case *ast.CallExpr:
			e = x.Fun
		case *ast.SelectorExpr:
			if id, ok := x.X.(*ast.Ident); ok && id.Name == "log" {
				return true
			}
			e = x.X
		default:
			return false
		}
	}
}

// expression of Quantity (Int) type
func (t *t1) intExpr(e ast.Expr) string {
	switch x := e.(type) {
	case *ast.ParenExpr:
		return "(" + t.intExpr(x.X) + ")"
	case *ast.Ident:
		if t.floats[x.Name] {
			t.fail(e, "float identifier in int context")
		}
		return x.Name
	case *ast.BasicLit:
		if x.Kind != token.INT {
			t.fail(e, "non-int literal")
		}
		return "(" + x.Value + " : Int)"
	case *ast.SelectorExpr:
		if id, ok := x.X.(*ast.Ident); ok && id.Name == "math" {
			switch x.Sel.Name {
			case "MinInt64":
				return "minI"
			case "MaxInt64":
				return "maxI"
			}
		}
		t.fail(e, "unsupported selector")
	case *ast.UnaryExpr:
		if x.Op == token.SUB {
			return "(wrap64 (- " + t.intExpr(x.X) + "))"
		}
		t.fail(e, "unsupported unary op")
	case *ast.BinaryExpr:
		l, r := t.intExpr(x.X), t.intExpr(x.Y)
		switch x.Op {
		case token.ADD:
			return "(wrap64 (" + l + " + " + r + "))"
		case token.SUB:
			return "(wrap64 (" + l + " - " + r + "))"
		case token.MUL:
			return "(wrap64 (" + l + " * " + r + "))"
		case token.QUO:
			return "(wrap64 (Int.tdiv " + l + " " + r + "))"
		}
		t.fail(e, "unsupported binary op "+x.Op.String())
	case *ast.CallExpr:
		if id, ok := x.Fun.(*ast.Ident); ok {
			switch id.Name {
			case "addVal", "subVal", "mulVal":
				if len(x.Args) != 2 {
					t.fail(e, "arity")
				}
				return "(go" + strings.ToUpper(id.Name[:1]) + id.Name[1:] + " " + t.intExpr(x.Args[0]) + " " + t.intExpr(x.Args[1]) + ")"
			case "Quantity":
				if len(x.Args) == 1 {
					if a, ok := x.Args[0].(*ast.Ident); ok && t.floats[a.Name] {
						// float64 -> int64 conversion of the opaque product
						return "(conv64 " + a.Name + ")"
					}
					return t.intExpr(x.Args[0])
				}
			}
		}
		t.fail(e, "unsupported call")
	}
	t.fail(e, fmt.Sprintf("unsupported int expression %T", e))
	return ""
}

// float constant as exact integer: float64(MaxInt64) = 2^63, float64(MinInt64) = -2^63
func (t *t1) floatConst(e ast.Expr) (string, bool) {
	switch x := e.(type) {
	case *ast.SelectorExpr:
		if id, ok := x.X.(*ast.Ident); ok && id.Name == "math" {
			switch x.Sel.Name {
			case "MinInt64":
				return "(-9223372036854775808 : Int)", true
			case "MaxInt64":
				return "(9223372036854775808 : Int)", true // rounds up to 2^63 in float64
			}
		}
	case *ast.BasicLit:
		if x.Kind == token.INT {
			return "(" + x.Value + " : Int)", true
		}
	}
	return "", false
}

func (t *t1) boolExpr(e ast.Expr) string {
	switch x := e.(type) {
	case *ast.ParenExpr:
		return "(" + t.boolExpr(x.X) + ")"
	case *ast.UnaryExpr:
		if x.Op == token.NOT {
			return "(!" + t.boolExpr(x.X) + ")"
		}
	case *ast.BinaryExpr:
		switch x.Op {
		case token.LAND:
			return "(" + t.boolExpr(x.X) + " && " + t.boolExpr(x.Y) + ")"
		case token.LOR:
			return "(" + t.boolExpr(x.X) + " || " + t.boolExpr(x.Y) + ")"
		case token.LSS, token.GTR, token.LEQ, token.GEQ, token.EQL, token.NEQ:
			// comparison of bools?
			if t.isBool(x.X) && t.isBool(x.Y) {
				if x.Op == token.NEQ {
					return "(" + t.boolExpr(x.X) + " != " + t.boolExpr(x.Y) + ")"
				}
				if x.Op == token.EQL {
					return "(" + t.boolExpr(x.X) + " == " + t.boolExpr(x.Y) + ")"
				}
				t.fail(e, "ordering on bools")
			}
			var l, r string
			if id, ok := x.X.(*ast.Ident); ok && t.floats[id.Name] {
				c, ok := t.floatConst(x.Y)
				if !ok {
					t.fail(e, "float compared with non-constant")
				}
				if id.Name == "ratio" {
					if x.Op == token.EQL && c == "(0 : Int)" {
						return "ratioZero"
					}
					t.fail(e, "unsupported ratio comparison")
				}
				l, r = id.Name, c
			} else {
				l, r = t.intExpr(x.X), t.intExpr(x.Y)
			}
			op := map[token.Token]string{token.LSS: "<", token.GTR: ">", token.LEQ: "≤", token.GEQ: "≥", token.EQL: "=", token.NEQ: "≠"}[x.Op]
			return "(decide (" + l + " " + op + " " + r + "))"
		}
	}
	t.fail(e, fmt.Sprintf("unsupported bool expression %T", e))
	return ""
}

func (t *t1) isBool(e ast.Expr) bool {
	switch x := e.(type) {
	case *ast.ParenExpr:
		return t.isBool(x.X)
	case *ast.UnaryExpr:
		return x.Op == token.NOT
	case *ast.BinaryExpr:
		switch x.Op {
		case token.LAND, token.LOR, token.LSS, token.GTR, token.LEQ, token.GEQ, token.EQL, token.NEQ:
			return true
		}
	}
	return false
}

// block translates a statement list which must end in a return on every path.
func (t *t1) block(stmts []ast.Stmt, ind string) string {
	if len(stmts) == 0 {
		die("T1 %s: block falls off the end without return", t.fn)
	}
	s := stmts[0]
	rest := stmts[1:]
	switch x := s.(type) {
	case *ast.ExprStmt:
		if isLogCall(x.X) {
			return t.block(rest, ind)
		}
		t.fail(s, "unsupported expression statement")
	case *ast.AssignStmt:
		if x.Tok != token.DEFINE || len(x.Lhs) != 1 || len(x.Rhs) != 1 {
			t.fail(s, "unsupported assignment")
		}
		name := x.Lhs[0].(*ast.Ident).Name
		// opaque float product: float64(value) * ratio
		if be, ok := x.Rhs[0].(*ast.BinaryExpr); ok && be.Op == token.MUL {
			if ce, ok := be.X.(*ast.CallExpr); ok {
				if id, ok := ce.Fun.(*ast.Ident); ok && id.Name == "float64" {
					if r, ok := be.Y.(*ast.Ident); ok && t.floats[r.Name] {
						t.floats[name] = true
						// the product is supplied as parameter `prod` (its truncation to an integer)
						return ind + "let " + name + " := prod\n" + t.block(rest, ind)
					}
				}
			}
		}
		return ind + "let " + name + " := " + t.intExpr(x.Rhs[0]) + "\n" + t.block(rest, ind)
	case *ast.ReturnStmt:
		if len(x.Results) != 1 {
			t.fail(s, "return arity")
		}
		if len(rest) != 0 {
			t.fail(s, "code after return")
		}
		return ind + t.intExpr(x.Results[0]) + "\n"
	case *ast.IfStmt:
		if x.Init != nil || x.Else != nil {
			t.fail(s, "if with init/else")
		}
		return ind + "if " + t.boolExpr(x.Cond) + " then\n" + t.block(x.Body.List, ind+"  ") + ind + "else\n" + t.block(rest, ind+"  ")
	}
	t.fail(s, fmt.Sprintf("unsupported statement %T", s))
	return ""
}

func genResArith(repo string) string {
	fset := token.NewFileSet()
	path := filepath.Join(repo, "pkg/common/resources/resources.go")
	f, err := parser.ParseFile(fset, path, nil, 0)
	if err != nil {
		die("T1: %v", err)
	}
	want := []string{"addVal", "subVal", "mulVal", "mulValRatio"}
	decls := map[string]*ast.FuncDecl{}
	for _, d := range f.Decls {
		if fd, ok := d.(*ast.FuncDecl); ok && fd.Recv == nil {
			decls[fd.Name.Name] = fd
		}
	}
	var b strings.Builder
	b.WriteString("-- GENERATED by /verif/extract (T1) from pkg/common/resources/resources.go — do not edit\n")
	b.WriteString("import YkModel.Int64\nnamespace Yk\n\n")
	for _, name := range want {
		fd := decls[name]
		if fd == nil {
			die("T1: function %s not found", name)
		}
		t := &t1{fset: fset, floats: map[string]bool{}, fn: name}
		var params []string
		for _, fl := range fd.Type.Params.List {
			ty := ""
			if id, ok := fl.Type.(*ast.Ident); ok {
				ty = id.Name
			}
			for _, n := range fl.Names {
				switch ty {
				case "Quantity":
					params = append(params, "("+n.Name+" : Int)")
				case "float64":
					t.floats[n.Name] = true
					params = append(params, "(ratioZero : Bool) (prod : Int)")
				default:
					die("T1 %s: unsupported parameter type", name)
				}
			}
		}
		lean := "go" + strings.ToUpper(name[:1]) + name[1:]
		b.WriteString("def " + lean + " " + strings.Join(params, " ") + " : Int :=\n")
		b.WriteString(t.block(fd.Body.List, "  "))
		b.WriteString("\n")
	}
	b.WriteString("end Yk\n")
	return b.String()
}
