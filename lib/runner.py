"""Shared machinery of ./check (see /verif/DESIGN.md section 2.6)."""
import fcntl, hashlib, json, os, re, shutil, subprocess, sys, tempfile, time
from concurrent.futures import ThreadPoolExecutor

VERIF = os.path.dirname(os.path.dirname(os.path.abspath(__file__)))
REPO = os.environ.get("VERIF_REPO", "/repo")
LEAN = os.path.join(VERIF, "lean")
GEN = os.path.join(LEAN, "YkModel", "Generated")
YKDRV = os.path.join(LEAN, ".lake", "build", "bin", "ykdrv")
ALLOWED_AXIOMS = {"propext", "Classical.choice", "Quot.sound"}
NCPU = min(16, os.cpu_count() or 4)

GOENV = dict(os.environ, GOFLAGS="-mod=mod", GOPROXY="off")
GOENV.pop("GOTOOLCHAIN", None) if os.environ.get("GOTOOLCHAIN") == "local" else None


def sh(cmd, cwd=None, env=None, timeout=None, stdin=None):
    p = subprocess.run(cmd, cwd=cwd, env=env, timeout=timeout, stdin=stdin,
                       stdout=subprocess.PIPE, stderr=subprocess.STDOUT, text=True)
    return p.returncode, p.stdout


class Broken(Exception):
    """the tie between model and code could not be re-established (translator / build)"""
    def __init__(self, what, log):
        super().__init__(what)
        self.what, self.log = what, log


class Run:
    def __init__(self, pid, tier, seed):
        self.pid, self.tier, self.seed = pid, tier, seed
        self.t0 = time.time()
        self.scratch = tempfile.mkdtemp(prefix="ykverif-")
        self.ykh = os.path.join(self.scratch, "ykh")
        self.notes = []

    def cleanup(self):
        shutil.rmtree(self.scratch, ignore_errors=True)

    # ---------------------------------------------------------------- step 1: regenerate + build
    def prepare(self):
        """regenerate Generated/*.lean from /repo, build harness from /repo, build model + driver.
        Serialised by a file lock: several checks may run at once."""
        lock = open(os.path.join(VERIF, ".lock"), "w")
        fcntl.flock(lock, fcntl.LOCK_EX)
        try:
            ext = os.path.join(self.scratch, "extract")
            rc, out = sh(["go", "build", "-o", ext, "."], cwd=os.path.join(VERIF, "extract"),
                         env=dict(GOENV, GOFLAGS="-mod=mod"))
            if rc != 0:
                raise RuntimeError("extract does not build:\n" + out)
            os.makedirs(GEN, exist_ok=True)
            tmpgen = os.path.join(self.scratch, "gen")
            rc, out = sh([ext, REPO, tmpgen])
            if rc != 0:
                raise Broken("translator aborted: the source left the translated subset", out)
            # replace generated files only when their content changed (keeps lake's cache warm)
            want = set(os.listdir(tmpgen))
            for f in os.listdir(GEN):
                if f.endswith(".lean") and f not in want:
                    os.remove(os.path.join(GEN, f))
            for f in want:
                new = open(os.path.join(tmpgen, f)).read()
                dst = os.path.join(GEN, f)
                if not os.path.exists(dst) or open(dst).read() != new:
                    open(dst, "w").write(new)
            # harness
            hdir = os.path.join(VERIF, "harness")
            shutil.copy(os.path.join(REPO, "go.sum"), os.path.join(hdir, "go.sum"))
            rc, out = sh(["go", "build", "-tags", "verif", "-o", self.ykh, "."], cwd=hdir, env=GOENV)
            if rc != 0:
                raise Broken("harness does not build against /repo (hooks or exported API changed)", out)
            rc, out = sh(["lake", "build", "YkModel", "YkDrv", "ykdrv"], cwd=LEAN)
            if rc != 0:
                raise Broken("model/driver does not build with the regenerated definitions", out)
            self.gen_snapshot = {f: open(os.path.join(GEN, f)).read() for f in sorted(want)}
        finally:
            fcntl.flock(lock, fcntl.LOCK_UN)
            lock.close()

    # ---------------------------------------------------------------- step 2: proofs
    def prove(self, module):
        """returns dict(ok, theorems, failed, log, axioms, hygiene)"""
        lock = open(os.path.join(VERIF, ".lock"), "w")
        fcntl.flock(lock, fcntl.LOCK_EX)
        try:
            res = dict(ok=True, theorems=[], failed=[], log="", axioms={}, hygiene=[])
            src = os.path.join(LEAN, module.replace(".", "/") + ".lean")
            text = open(src).read()
            ns = re.search(r"^namespace\s+(\S+)", text, re.M).group(1)
            names = re.findall(r"^theorem\s+(\S+)", text, re.M)
            res["theorems"] = [ns + "." + n for n in names]
            rc, out = sh(["lake", "build", module], cwd=LEAN)
            res["log"] = out
            if rc != 0:
                res["ok"] = False
                # which declarations failed: error lines carry file:line; map to the enclosing theorem
                res["failed"] = failed_decls(out)
                return res
            # hygiene
            res["hygiene"] = hygiene()
            if res["hygiene"]:
                res["ok"] = False
            # axioms
            audit = os.path.join(self.scratch, "Audit.lean")
            with open(audit, "w") as f:
                f.write("import %s\n" % module)
                for t in res["theorems"]:
                    f.write("#print axioms %s\n" % t)
            rc, out = sh(["lake", "env", "lean", audit], cwd=LEAN)
            if rc != 0:
                res["ok"] = False
                res["log"] += "\naudit failed:\n" + out
                return res
            res["axioms"] = parse_axioms(out)
            for t in res["theorems"]:
                ax = res["axioms"].get(t)
                if ax is None or not set(ax) <= ALLOWED_AXIOMS:
                    res["ok"] = False
                    res["failed"].append("%s (axioms: %s)" % (t, ax))
            return res
        finally:
            fcntl.flock(lock, fcntl.LOCK_UN)
            lock.close()

    def leanchecker(self, modules):
        rc, out = sh(["lake", "env", "leanchecker"] + modules, cwd=LEAN, timeout=3000)
        return rc == 0, out

    # ---------------------------------------------------------------- step 3: correspondence
    def correspond(self, comp, n, extra=None, shards=None, replay=None, nontrivial=None):
        """run the harness on the real code, replay on the model. Returns a Corr object."""
        extra = extra or []
        shards = shards or (1 if n < 2000 else NCPU)
        per = max(1, n // shards)
        jobs = []
        for i in range(shards):
            jobs.append((i, self.seed * 1000 + i, per))
        corr = Corr(comp, nontrivial)

        def one(job):
            i, seed, cnt = job
            tr = os.path.join(self.scratch, "%s-%d.jsonl" % (comp, i))
            st = os.path.join(self.scratch, "%s-%d.stats" % (comp, i))
            cmd = [self.ykh, "-c", comp, "-seed", str(seed), "-n", str(cnt), "-out", tr, "-stats", st, "-tier", self.tier] + extra
            if replay:
                cmd += ["-replay", replay]
            p = subprocess.run(cmd, stdout=subprocess.PIPE, stderr=subprocess.PIPE, text=True, env=dict(os.environ, GOMEMLIMIT="3GiB"))
            if p.returncode != 0:
                return (i, seed, None, "harness exit %d: %s" % (p.returncode, p.stderr[-2000:]), tr)
            with open(tr) as fin:
                q = subprocess.run([YKDRV], stdin=fin, stdout=subprocess.PIPE, stderr=subprocess.PIPE, text=True)
            if q.returncode != 0:
                return (i, seed, None, "ykdrv exit %d: %s" % (q.returncode, q.stderr[-2000:]), tr)
            stats = json.load(open(st)) if os.path.exists(st) else {}
            return (i, seed, q.stdout.split("\n"), stats, tr)

        with ThreadPoolExecutor(max_workers=NCPU) as ex:
            results = list(ex.map(one, jobs))
        for i, seed, verdicts, stats, tr in results:
            if verdicts is None:
                corr.errors.append("shard %d seed %d: %s" % (i, seed, stats))
                continue
            corr.absorb(seed, verdicts, stats, tr)
            try:
                os.remove(tr)
            except OSError:
                pass
        return corr


STATELESS = {"res", "stream", "sort", "conf", "lock"}
# verdict lines may carry several failing clauses separated by " ;; "


class Corr:
    """aggregated result of one correspondence run"""
    def __init__(self, comp, nontrivial=None):
        self.comp = comp
        self.nontrivial_fn = nontrivial or (lambda l: True)
        self.lines = 0
        self.ok = 0
        self.stats = {}
        self.errors = []
        self.fail = []          # (seed, case_lines[list of str], verdict)
        self.samples = []
        self.distinct = set()
        self.nontrivial = 0
        self.ok_unmodelled = 0

    def absorb(self, seed, verdicts, stats, tr):
        for k, v in stats.items():
            self.stats[k] = self.stats.get(k, 0) + v
        case = []
        with open(tr) as f:
            idx = 0
            for line in f:
                line = line.rstrip("\n")
                if not line:
                    continue
                v = verdicts[idx] if idx < len(verdicts) else "missing-verdict"
                idx += 1
                self.lines += 1
                if '"op":"reset"' in line or '"op":"sreset"' in line or self.comp in STATELESS:
                    case = []
                case.append(line)
                h = hashlib.blake2b(line.encode(), digest_size=8).digest()
                if h not in self.distinct:
                    self.distinct.add(h)
                    if self.nontrivial_fn(line):
                        self.nontrivial += 1
                if v == "ok" or v.startswith("ok "):
                    self.ok += 1
                    if v != "ok":
                        self.ok_unmodelled += 1
                    if len(self.samples) < 3 and self.lines % 977 == 1:
                        self.samples.append(json.loads(line))
                else:
                    if len(self.fail) < 200:
                        self.fail.append((seed, list(case), v))
            if idx < len([v for v in verdicts if v]):
                self.errors.append("more verdicts than lines")


def failed_decls(log):
    out = []
    for m in re.finditer(r"^error: (\S+\.lean):(\d+):\d+: (.*)$", log, re.M):
        f, ln, msg = m.group(1), int(m.group(2)), m.group(3)
        path = os.path.join(LEAN, f) if not os.path.isabs(f) else f
        name = "?"
        try:
            lines = open(path).read().split("\n")
            for i in range(min(ln, len(lines)) - 1, -1, -1):
                mm = re.match(r"^(theorem|lemma|def|example)\s*(\S*)", lines[i])
                if mm:
                    name = mm.group(2) or "example@%d" % (i + 1)
                    break
        except OSError:
            pass
        out.append("%s:%s (%s:%d: %s)" % (f.replace("/", ".").replace(".lean", ""), name, f, ln, msg[:120]))
    return sorted(set(out))


def strip_comments(text):
    # remove /- ... -/ (nested not handled beyond one level) and -- ... comments
    text = re.sub(r"/-.*?-/", "", text, flags=re.S)
    text = re.sub(r"--.*", "", text)
    return text


BAD = re.compile(r"\bsorry\b|\badmit\b|^\s*axiom\s|native_decide|bv_decide|implemented_by|\bunsafe\s|maxHeartbeats\s+0|ofReduceBool", re.M)


def hygiene():
    hits = []
    for root, _, files in os.walk(LEAN):
        if ".lake" in root:
            continue
        for f in files:
            if not f.endswith(".lean"):
                continue
            p = os.path.join(root, f)
            body = strip_comments(open(p).read())
            for m in BAD.finditer(body):
                hits.append("%s: %s" % (os.path.relpath(p, LEAN), m.group(0).strip()))
    return hits


def parse_axioms(out):
    res = {}
    for m in re.finditer(r"'([^']+)' depends on axioms: \[([^\]]*)\]", out):
        res[m.group(1)] = [a.strip() for a in m.group(2).replace("\n", " ").split(",") if a.strip()]
    for m in re.finditer(r"'([^']+)' does not depend on any axioms", out):
        res[m.group(1)] = []
    return res


def load_known(pid):
    known, fixed = [], []
    p = os.path.join(VERIF, "KNOWN_FINDINGS.txt")
    if os.path.exists(p):
        for line in open(p):
            line = line.strip()
            m = re.match(r"known:\s+property=(\S+)\s+class=(\S+)\s+(.*)$", line)
            if m and m.group(1) == pid:
                known.append((m.group(2), m.group(3)))
            m = re.match(r"fixed:\s+property=(\S+)\s+(.*)$", line)
            if m and m.group(1) == pid:
                fixed.append(m.group(2))
    return known, fixed


def main(argv):
    import props
    if len(argv) < 2:
        print(__doc__)
        return 2
    pid, tier = argv[0], argv[1]
    replay = None
    if "--replay" in argv:
        replay = argv[argv.index("--replay") + 1]
    seed = int(os.environ.get("VERIF_SEED", "1"))
    if pid not in props.PROPS:
        print("unknown property", pid)
        return 2
    run = Run(pid, tier, seed)
    try:
        return props.decide(run, props.PROPS[pid], replay)
    finally:
        run.cleanup()
