"""Regenerate /verif/MANIFEST.json from lib/props.py (python3 lib/mkmanifest.py)."""
import json, os, sys
sys.path.insert(0, os.path.dirname(os.path.abspath(__file__)))
import props

VERIF = os.path.dirname(os.path.dirname(os.path.abspath(__file__)))
ids = [json.loads(l)["id"] for l in open(os.path.join(VERIF, "properties.jsonl"))]
hooks_commits = [l.strip() for l in open(os.path.join(VERIF, "HOOK_COMMITS.txt")) if l.strip() and not l.startswith("#")]
claimed = [i for i in ids if i in props.PROPS]
m = {
    "version": 1,
    "setup_cmd": "./setup.sh",
    "hooks": {
        "guard": "verif",
        "enable": "go build -tags verif (harness module /verif/harness, replace github.com/apache/yunikorn-core => /repo)",
        "baseline_off_cmd": "cd /repo && go test -vet=off -count=1 -timeout 25m ./...",
        "source_commits": hooks_commits,
        "add_only": True,
    },
    "engines": [
        {"name": "lean", "path": "lean", "serves_properties": claimed,
         "kind_free_text": "Lean 4 model (YkModel, core only, executable), helper lemmas (YkProofs), property theorems (YkProps), compiled replay driver ykdrv (YkDrv, Driver.lean)"},
        {"name": "extract", "path": "extract", "serves_properties": claimed,
         "kind_free_text": "go/ast translators that regenerate parts of the model (YkModel/Generated) from /repo on every run"},
        {"name": "harness", "path": "harness", "serves_properties": claimed,
         "kind_free_text": "Go harness (build tag verif) driving the real code in-process; writes one protocol line per operation for ykdrv"},
    ],
    "checks": [],
    "notes": "Single entry point ./check <id> <quick|thorough> [--replay file]; design, trusted base and findings in DESIGN.md; known findings in KNOWN_FINDINGS.txt",
    "not_applicable": [],
}
for i in ids:
    if i in props.PROPS:
        c = props.PROPS[i]
        m["checks"].append({
            "property_id": i,
            "quick_cmd": "./check %s quick" % i,
            "thorough_cmd": "./check %s thorough" % i,
            "evidence_file": "evidence/%s.json" % i,
            "replay_cmd_template": "./check %s quick --replay {path}" % i,
            "engine": "lean",
            "level_claimed": {"category": "proof", "text": c["level_text"], "design_ref": c.get("design_ref", "DESIGN.md section 4")},
            "level_note": c["level_note"],
            "technique": c["technique"],
        })
    else:
        m["not_applicable"].append({"property_id": i, "reason": props.NOT_YET.get(i, "not claimed: model and check not built yet (see DESIGN.md section 4 for the plan)")})
json.dump(m, open(os.path.join(VERIF, "MANIFEST.json"), "w"), indent=1)
print("claimed:", claimed)
