"""Per-property configuration and the verdict logic of ./check."""
import json, os, re, time
import runner
from runner import VERIF, Broken

REPLAYS = os.path.join(VERIF, "replays")
EVID = os.path.join(VERIF, "evidence")

COMMON_TRUSTED = [
    "Lean 4.33.0 kernel (thorough tier re-checks the compiled proofs with leanchecker)",
    "axioms allowed per theorem: propext, Classical.choice, Quot.sound (audited with #print axioms on every run); no sorry/admit/native_decide/bv_decide/own axioms (grep on every run)",
    "translators in /verif/extract (go/ast; abort outside their subset) for the regenerated parts of the model",
    "hand-written model YkModel/* tied to the code only by the correspondence run (Go harness in-process vs ykdrv), bounded by its generators",
    "Go toolchain; JSON line protocol and its parser/printer (YkDrv/Util.lean, harness encoders)",
]

# ---------------------------------------------------------------------------------------------------
# classification of non-ok verdicts into finding classes (matched against KNOWN_FINDINGS.txt)


def cls_default(verdict, case):
    """class of a non-ok verdict: kind + operation/clause name, arguments stripped"""
    w = verdict.split()
    if len(w) < 2:
        return verdict
    return w[0] + "-" + re.sub(r"\(.*$", "", w[1])


def cls_tagged(prefix):
    """classifier for the full-stack driver: a verdict carries every failing clause, each starting with a tag
    "<Cxx>.<clause-id>" ("inv C03.I4 ... ;; C09.R2 ..." or "diff core.<op> ... ;; C03.I1 ..."). A property's check takes
    the clauses tagged with its own id; class = the tag. A model/implementation difference (diff core.*) is reported by
    the properties in DIFF_OWNERS; a recovered panic or a hang by C13."""
    def f(verdict, case):
        out = []
        body = verdict[4:] if verdict.startswith("inv ") else verdict
        for part in body.split(" ;; "):
            w = part.split()
            if not w:
                continue
            if w[0] == "diff":
                if prefix in DIFF_OWNERS:
                    out.append("diff-" + w[1] + ("-" + w[2] if len(w) > 2 else ""))
            elif w[0] in ("panic", "hang"):
                if prefix in ("C13",):
                    out.append(w[0] + "-" + "-".join(x.strip('"') for x in w[1:3]))
            elif w[0].startswith(prefix + "."):
                out.append(w[0])
        return out
    return f


def cls_both(prefix):
    """object-level components use the default classes, full-stack lines the tagged ones"""
    tagged = cls_tagged(prefix)
    def f(verdict, case):
        if case and '"c":"core"' in case[-1][:40]:
            return tagged(verdict, case)
        return cls_default(verdict, case)
    return f


def cls_c17(verdict, case):
    """placement driver: tagged clauses "C17.<id> ..." and "diff place.<what> ..." joined by " ;; "; a recovered panic
    is prefixed by the dispatcher ("panic place.submit ;; ..."): it is the clause C17.P1 when the driver names it, an
    unexplained panic otherwise"""
    body = verdict[4:] if verdict.startswith("inv ") else verdict
    out, panic = [], False
    for part in body.split(" ;; "):
        w = part.split()
        if not w:
            continue
        if w[0] == "diff":
            out.append("diff-" + w[1])
        elif w[0] == "panic":
            panic = True
        elif w[0].startswith("C17."):
            out.append(w[0])
    if panic and "C17.P1" not in out:
        out.append("panic-unexplained")
    return out or [cls_default(verdict, case)]


# a difference between the stepped Core model and the implementation is reported by the properties whose theorems are
# about that model
DIFF_OWNERS = {"C03"}


def nontrivial_res(line):
    # a resource case is trivial when both vectors are nil/empty
    return not ('"l":null' in line and '"r":null' in line) and not ('"l":[]' in line and '"r":[]' in line)


NOT_YET = {}

PROPS = {
    "C18": dict(
        module="YkProps.C18",
        leancheck=["YkModel.Res", "YkModel.ResSpec", "YkModel.Quantity", "YkProofs.ResArith", "YkProofs.Res", "YkProps.C18"],
        runs=[dict(comp="res", quick=48000, thorough=2400000)],
        classify=cls_default,
        nontrivial=nontrivial_res,
        rule="random operation instances over every exported resources.* operation, the four calculators (hook) and ParseQuantity/ParseVCore; "
             "vectors over <=5 types with values from an int64 corner set, small and full-range random values, nil/empty/aliased arguments; "
             "quantity strings from a grammar generator plus malformed ones. A case is non-trivial unless both vectors are nil or both empty; distinct = distinct protocol lines",
        trusted=["IEEE-754 product inside mulValRatio/MultiplyBy: the model takes its integer truncation as an input (harness computes it with math/big)",
                 "quantity strings restricted to valid UTF-8 (they travel through JSON)"],
        assumptions=["resource vectors handed to the model are Go maps: keys unique", "float64->int64 conversion out of range behaves as on amd64 (MinInt64)"],
        level_text="Lean 4 theorems for all int64 inputs / all vectors / all strings: the four calculators (definitions REGENERATED from resources.go by translator T1 on every run) are exact-or-clamped and closed; "
                   "Add/Sub/Multiply are the pointwise saturating operations on the union of types; the fit predicates equal their documented component-wise meaning; quantity parsing returns exactly number*multiplier or an error. "
                   "Tie: T1/T5 regeneration plus differential correspondence of every exported resources.* operation against the executable model and the executable statement.",
        level_note="trusted: Lean kernel, translator T1/T5, the float64 product inside mulValRatio (modelled by its truncation), amd64 float->int conversion, hand-written vector model tied by correspondence only; strings restricted to valid UTF-8",
        technique="Lean 4 proof over a model regenerated from source (T1) + differential correspondence",
        design_ref="DESIGN.md section 4 C18",
    ),
    "C20": dict(
        module="YkProps.C20",
        leancheck=["YkModel.Ring", "YkModel.Stream", "YkProofs.Ring", "YkProofs.Stream", "YkProps.C20"],
        runs=[dict(comp="ring", quick=2400, thorough=64000), dict(comp="stream", quick=640, thorough=8000)],
        classify=cls_default,
        nontrivial=lambda line: '"op":"reset"' not in line and '"op":"sreset"' not in line,
        rule="ring: random histories (capacity 1..24, <=70 ops: add, bursts that wrap the buffer, resize to 1..2*cap, GetEventsFromID with start in [lowest-2,last+2] and count in {0,1,2,cap-1,cap,cap+1,MaxUint64,..}, GetRecentEvents) on the real eventRingBuffer (hook), "
             "event store histories (store/collect/setSize); stream: random interleavings of the event loop (add;publish) with CreateEventStream (register | yield hook | read history) on the real EventStreaming. "
             "Every line is one operation with the implementation's answer; non-trivial = not a reset line; distinct = distinct protocol lines",
        trusted=["event ids and capacities below 2^63 (the model uses Nat; uint64 wrap of ids is not modelled)",
                 "Go channels / goroutine scheduling of the bridging goroutine: the model covers the interleavings of registration, history read, add and publish; delivery is awaited with a 15 ms quiet period",
                 "REST /ws/v1/events/batch handler and EventSystem glue (not modelled)"],
        assumptions=["capacity > 0 (getRingBufferCapacity never returns 0)", "single event-loop goroutine (add then publish per event)"],
        level_text="Lean 4 refinement proof: for every history of adds and resizes the field-for-field model of eventRingBuffer refines the abstract history (ids consecutive, most recent events up to capacity kept across resizes, "
                   "GetEventsFromID = exactly the requested gap-free range or nothing plus the available range, GetRecentEvents = the last min(count, available) events), event-store batch bound; "
                   "stream set-up: proof for every interleaving that the subscriber gets history then later events once and in order under the stated coverage hypothesis, plus the machine-checked refutation of the unrestricted statement (known finding). "
                   "Tie: correspondence of the hand-written model against the real ring buffer / store / EventStreaming (yield hook).",
        level_note="trusted: Lean kernel; hand-written Ring/Store/Stream models tied by correspondence only; ids < 2^63; channel delivery; REST glue not modelled",
        technique="Lean 4 refinement proof (ring buffer -> abstract history) + differential correspondence on the real code",
        design_ref="DESIGN.md section 4 C20",
    ),
    "C01": dict(
        module="YkProps.C01",
        leancheck=["YkModel.Node", "YkProofs.Node", "YkProps.C01"],
        runs=[dict(comp="node", quick=3200, thorough=100000), dict(comp="core", quick=300, thorough=6000, extra=["-mode", "mixed"])],
        classify=cls_both("C01"),
        nontrivial=lambda line: '"op":"reset"' not in line and '"op":"setSchedulable"' not in line,
        rule="node: random histories (<=50 ops) of every public ledger operation of objects.Node — TryAddAllocation, AddAllocation (forced, foreign and not), RemoveAllocation, UpdateForeignAllocation, "
             "in-place resource update (SetAllocatedResource + UpdateAllocatedResource as partition.UpdateAllocation does), ReplaceAllocation with delta = real - placeholder, SetCapacity, SetOccupiedResource, SetSchedulable — "
             "over sparse 3-type vectors; after every op the complete node state is dumped and (1) compared with the model, (2) the ledger clauses and tryAdd-fits / available-non-negative are evaluated on the dumped state. "
             "non-trivial = not a reset/setSchedulable line; distinct = distinct protocol lines",
        trusted=["exact integer arithmetic in the node model (no quantity saturates; C18 proves the calculators exact inside int64)",
                 "bind guards (registered, schedulable, reservation, required node, predicate) are decided on the full-stack model, not here"],
        assumptions=["callers meet the contract Pre of YkProps/C01.lean (fresh allocation keys on add; replacement delta = real - placeholder) — as partition.go / application.go do"],
        level_text="Lean 4 invariant proof over all histories of node operations: allocated = sum of bound allocations and available = capacity - allocated - occupied (cached field updated as the code updates it) are preserved by each of the ten node operations and hold in every reachable state; "
                   "TryAddAllocation succeeds only if the ask fits in available, a refused add changes nothing, scheduler operations keep available non-negative (forced ones shown to break it by witnesses). "
                   "Tie: correspondence of the hand-written Node model against objects.Node with the same clauses evaluated on the implementation's dumped state (ledger_exec_iff links the executable clauses to the theorem).",
        level_note="trusted: Lean kernel; hand-written Node model tied by correspondence only; exact arithmetic (NoSat); caller contract Pre; the bind-guard clauses are covered by the full-stack check once built",
        technique="Lean 4 invariant proof (induction over node operation histories) + differential correspondence on objects.Node",
        design_ref="DESIGN.md section 4 C01",
    ),
    "C02": dict(
        module="YkProps.C02",
        leancheck=["YkModel.Queue", "YkProofs.Queue", "YkProps.C02"],
        runs=[dict(comp="queue", quick=2400, thorough=64000), dict(comp="core", quick=300, thorough=6000, extra=["-mode", "mixed"])],
        classify=cls_both("C02"),
        nontrivial=lambda line: '"op":"reset"' not in line,
        rule="queue: random queue trees (2..8 queues, chains and fans, sparse max/guaranteed with undefined/0/positive entries per type, maxApplications) built with NewConfiguredQueue; <=48 ops per tree: TryIncAllocatedResource, IncAllocatedResource (forced), DecAllocatedResource, SetResources, SetMaxResource(root), canRunApp / incRunningApps / decRunningApps / setAllocatingAccepted (hooks), SetMaxRunningApps; after every op the whole tree (allocated, raw max, guaranteed, headroom, max headroom, effective max, counters) is dumped, compared with the model and the property clauses are evaluated on the dump. non-trivial = not a reset line; distinct = distinct protocol lines",
        trusted=["exact integer arithmetic in the queue model (no quantity saturates)",
                 "the scheduler adds usage only through TryIncAllocatedResource (application.go tryNode); the full-stack check monitors 'no new over-max usage after a scheduling cycle' on the real core"],
        assumptions=["tree well-formed: parents created before children, resource maps have unique keys"],
        level_text="Lean 4 proofs over all queue trees and allocations: a successful TryIncAllocatedResource leaves no queue of the path above its maximum on any type of the allocation (all types at the root, defined types elsewhere), "
                   "is all-or-nothing, touches only the path and only the allocation's types, never creates new over-max usage; effective maximum and headroom of a queue are never looser than the parent's. "
                   "Tie: correspondence of the hand-written QTree model against objects.Queue trees, with the same clauses evaluated on the dumped implementation state.",
        level_note="trusted: Lean kernel; hand-written queue model tied by correspondence only; exact arithmetic; forced paths (IncAllocatedResource, lowered maxima) are excluded by the property itself",
        technique="Lean 4 proof over a queue-tree model + differential correspondence on objects.Queue",
        design_ref="DESIGN.md section 4 C02",
    ),
    "C11": dict(
        module="YkProps.C11",
        leancheck=["YkModel.Queue", "YkProofs.Queue", "YkProps.C11", "YkProps.C10"],
        runs=[dict(comp="queue", quick=2400, thorough=64000), dict(comp="core", quick=300, thorough=6000, extra=["-mode", "mixed"])],
        classify=cls_both("C11"),
        nontrivial=lambda line: '"op":"reset"' not in line,
        rule="queue: random queue trees (2..8 queues, chains and fans, sparse max/guaranteed with undefined/0/positive entries per type, maxApplications) built with NewConfiguredQueue; <=48 ops per tree: TryIncAllocatedResource, IncAllocatedResource (forced), DecAllocatedResource, SetResources, SetMaxResource(root), canRunApp / incRunningApps / decRunningApps / setAllocatingAccepted (hooks), SetMaxRunningApps; after every op the whole tree (allocated, raw max, guaranteed, headroom, max headroom, effective max, counters) is dumped, compared with the model and the property clauses are evaluated on the dump. non-trivial = not a reset line; distinct = distinct protocol lines",
        trusted=["which FSM callbacks call incRunningApps/decRunningApps is regenerated from application_state.go (T2) and proved in YkProps/C10.callbacks_tie",
                 "counters vs applications of the subtree (running <= #Running, allocating are live, zero when empty) are monitored on the full stack"],
        assumptions=["maxApplications fixed during a history of counter operations (lowering it is a configuration change)"],
        level_text="Lean 4 proofs for all trees and histories of counter operations: canRunApp says yes only if every ancestor with a maximum has room for one more next to running+allocating (or already tracks the application); "
                   "the running count never exceeds the maximum; an application counted as running is no longer allocating. Tie: correspondence against objects.Queue (hooks) + the gate clause evaluated on the dumped state.",
        level_note="trusted: Lean kernel; hand-written queue counters model tied by correspondence only",
        technique="Lean 4 invariant proof over counter-operation histories + differential correspondence on objects.Queue",
        design_ref="DESIGN.md section 4 C11",
    ),
    "C10": dict(
        module="YkProps.C10",
        leancheck=["YkModel.AppFsm", "YkProps.C10"],
        runs=[dict(comp="core", quick=300, thorough=6000, extra=["-mode", "mixed"])],
        classify=cls_both("C10"),
        nontrivial=lambda line: '"op":"reset"' not in line,
        rule="the transition table and callback bodies are regenerated from application_state.go (T2) and the theorems re-checked; application-level histories are exercised by the full-stack check",
        trusted=["looplab/fsm semantics: first matching (event, source) transition; same-state transitions are swallowed by HandleApplicationEvent"],
        assumptions=[],
        level_text="Lean 4 proofs over the transition table REGENERATED from application_state.go: for all states a != b, some event moves a to b iff the documented life cycle has the edge; every event history yields a state log of documented edges; "
                   "terminal states only expire; the callbacks that maintain the running counter / run the terminated callback / arm the completing timer are the expected ones.",
        level_note="trusted: Lean kernel, translator T2, looplab/fsm library semantics; application object behaviour (asks/allocations driving the events) is covered by the full-stack monitors",
        technique="Lean 4 proof by exhaustive case analysis over a table regenerated from source (T2)",
        design_ref="DESIGN.md section 4 C10",
    ),
    "C03": dict(
        module="YkProps.C03",
        leancheck=['YkModel.CoreState', 'YkModel.CoreOps', 'YkProofs.Core', 'YkProps.C03'],
        runs=[dict(comp="core", quick=300, thorough=6000, extra=["-mode", "mixed"])],
        classify=cls_tagged("C03"),
        nontrivial=lambda line: '"op":"reset"' not in line,
        rule='core: random histories (30..120 operations) on a real ClusterContext driven synchronously through hooks: node create/create-drain/update/drain/undrain/decommission, application add (plain and gang, several users, static and dynamic queues, duplicate ids) / remove, asks (plain, placeholder, task groups, required node, priorities), RM-placed allocations, in-place resizes, foreign allocations add/update/remove, releases by key and of whole applications, scheduling cycles (predicate plugin denying some (ask,node) pairs, reservation delay 0, preemption on), placeholder and state timers fired explicitly, shim confirmations (PLACEHOLDER_REPLACED / TIMEOUT / PREEMPTED) delivered immediately, late, twice or never; 60% of the histories end by releasing and removing everything (drain). After every operation the complete state (nodes, queues, applications with asks/allocations, counters, user/group trackers) and the messages sent to the shim are dumped; the driver evaluates every clause on the dump, the per-step clauses against the previous dump, the shim protocol automaton on the messages, and steps the Core model from the previous dump for the modelled operations. non-trivial = not a reset line; distinct = distinct protocol lines',
        trusted=['one partition; the harness calls the handler functions of ClusterContext directly (what RMProxy/Scheduler event loops would call) from a single goroutine', 'the asynchronous terminated-application callback is awaited (settle) before the state is dumped', "scheduler decisions (which ask, which node) are taken from the core's own announcements, not predicted"],
        assumptions=[],
        level_text="Lean 4 proofs about the protocol automaton (YkModel/Shim.lean) that the driver runs on the SI traffic recorded from the real core: in every view reached by an accepted trace bound keys are pairwise distinct and disjoint from the outstanding asks (exactly-once), a new allocation is accepted iff it is for an outstanding ask of an accepted application on a registered node with an unbound key (or the one echo of a shim-reported placement), a release iff the key is bound or outstanding (repeatable while unconfirmed), answers only to pending submissions, a rejection leaves no trace. The core's traffic is judged by `ShimView.step = none`.",
        level_note='trusted: Lean kernel; hand-written models tied by correspondence / monitors on the real core only; exact arithmetic; single partition, single goroutine',
        technique='Lean 4 invariant proof over a stepped ledger model + one-step refinement correspondence and monitors on the real core',
        design_ref='DESIGN.md section 4 C03',
    ),
    "C04": dict(
        module="YkProps.C04",
        leancheck=['YkModel.Shim', 'YkProofs.Shim', 'YkProps.C04'],
        runs=[dict(comp="core", quick=300, thorough=6000, extra=["-mode", "mixed"])],
        classify=cls_tagged("C04"),
        nontrivial=lambda line: '"op":"reset"' not in line,
        rule='core: random histories (30..120 operations) on a real ClusterContext driven synchronously through hooks: node create/create-drain/update/drain/undrain/decommission, application add (plain and gang, several users, static and dynamic queues, duplicate ids) / remove, asks (plain, placeholder, task groups, required node, priorities), RM-placed allocations, in-place resizes, foreign allocations add/update/remove, releases by key and of whole applications, scheduling cycles (predicate plugin denying some (ask,node) pairs, reservation delay 0, preemption on), placeholder and state timers fired explicitly, shim confirmations (PLACEHOLDER_REPLACED / TIMEOUT / PREEMPTED) delivered immediately, late, twice or never; 60% of the histories end by releasing and removing everything (drain). After every operation the complete state (nodes, queues, applications with asks/allocations, counters, user/group trackers) and the messages sent to the shim are dumped; the driver evaluates every clause on the dump, the per-step clauses against the previous dump, the shim protocol automaton on the messages, and steps the Core model from the previous dump for the modelled operations. non-trivial = not a reset line; distinct = distinct protocol lines',
        trusted=['one partition; the harness calls the handler functions of ClusterContext directly (what RMProxy/Scheduler event loops would call) from a single goroutine', 'the asynchronous terminated-application callback is awaited (settle) before the state is dumped', "scheduler decisions (which ask, which node) are taken from the core's own announcements, not predicted"],
        assumptions=[],
        level_text="Lean 4 proofs about the protocol automaton (YkModel/Shim.lean) that the driver runs on the SI traffic recorded from the real core: in every view reached by an accepted trace bound keys are pairwise distinct and disjoint from the outstanding asks (exactly-once), a new allocation is accepted iff it is for an outstanding ask of an accepted application on a registered node with an unbound key (or the one echo of a shim-reported placement), a release iff the key is bound or outstanding (repeatable while unconfirmed), answers only to pending submissions, a rejection leaves no trace. The core's traffic is judged by `ShimView.step = none`.",
        level_note='trusted: Lean kernel; hand-written models tied by correspondence / monitors on the real core only; exact arithmetic; single partition, single goroutine',
        technique='Lean 4 proofs about a monitor automaton + run-time verification of the real SI traffic with it',
        design_ref='DESIGN.md section 4 C04',
    ),
    "C06": dict(
        module="YkProps.C06",
        leancheck=['YkModel.Reserve', 'YkProofs.Reserve', 'YkProps.C06'],
        runs=[dict(comp="core", quick=300, thorough=6000, extra=["-mode", "mixed"])],
        classify=cls_tagged("C06"),
        nontrivial=lambda line: '"op":"reset"' not in line,
        rule='core: random histories (30..120 operations) on a real ClusterContext driven synchronously through hooks: node create/create-drain/update/drain/undrain/decommission, application add (plain and gang, several users, static and dynamic queues, duplicate ids) / remove, asks (plain, placeholder, task groups, required node, priorities), RM-placed allocations, in-place resizes, foreign allocations add/update/remove, releases by key and of whole applications, scheduling cycles (predicate plugin denying some (ask,node) pairs, reservation delay 0, preemption on), placeholder and state timers fired explicitly, shim confirmations (PLACEHOLDER_REPLACED / TIMEOUT / PREEMPTED) delivered immediately, late, twice or never; 60% of the histories end by releasing and removing everything (drain). After every operation the complete state (nodes, queues, applications with asks/allocations, counters, user/group trackers) and the messages sent to the shim are dumped; the driver evaluates every clause on the dump, the per-step clauses against the previous dump, the shim protocol automaton on the messages, and steps the Core model from the previous dump for the modelled operations. non-trivial = not a reset line; distinct = distinct protocol lines',
        trusted=['one partition; the harness calls the handler functions of ClusterContext directly (what RMProxy/Scheduler event loops would call) from a single goroutine', 'the asynchronous terminated-application callback is awaited (settle) before the state is dumped', "scheduler decisions (which ask, which node) are taken from the core's own announcements, not predicted"],
        assumptions=[],
        level_text='Lean 4 proofs: per task group replaced + timed out (+ cancelled + pending + allocated) = count for every history of placeholder events, hence replaced <= count; the replacement guard (placeholder - real has no negative value) holds iff the real ask is no larger on every type. The swap / timeout / usage clauses are monitored on the real core after every operation (gang clauses of CoreState, conservation, node ledger) with gang-biased histories.',
        level_note='trusted: Lean kernel; hand-written models tied by correspondence / monitors on the real core only; exact arithmetic; single partition, single goroutine',
        technique='Lean 4 invariant proof over placeholder event histories + monitors on the real core',
        design_ref='DESIGN.md section 4 C06',
    ),
    "C09": dict(
        module="YkProps.C09",
        leancheck=['YkModel.Reserve', 'YkProofs.Reserve', 'YkProps.C09'],
        runs=[dict(comp="core", quick=300, thorough=6000, extra=["-mode", "mixed"])],
        classify=cls_tagged("C09"),
        nontrivial=lambda line: '"op":"reset"' not in line,
        rule='core: random histories (30..120 operations) on a real ClusterContext driven synchronously through hooks: node create/create-drain/update/drain/undrain/decommission, application add (plain and gang, several users, static and dynamic queues, duplicate ids) / remove, asks (plain, placeholder, task groups, required node, priorities), RM-placed allocations, in-place resizes, foreign allocations add/update/remove, releases by key and of whole applications, scheduling cycles (predicate plugin denying some (ask,node) pairs, reservation delay 0, preemption on), placeholder and state timers fired explicitly, shim confirmations (PLACEHOLDER_REPLACED / TIMEOUT / PREEMPTED) delivered immediately, late, twice or never; 60% of the histories end by releasing and removing everything (drain). After every operation the complete state (nodes, queues, applications with asks/allocations, counters, user/group trackers) and the messages sent to the shim are dumped; the driver evaluates every clause on the dump, the per-step clauses against the previous dump, the shim protocol automaton on the messages, and steps the Core model from the previous dump for the modelled operations. non-trivial = not a reset line; distinct = distinct protocol lines',
        trusted=['one partition; the harness calls the handler functions of ClusterContext directly (what RMProxy/Scheduler event loops would call) from a single goroutine', 'the asynchronous terminated-application callback is awaited (settle) before the state is dumped', "scheduler decisions (which ask, which node) are taken from the core's own announcements, not predicted"],
        assumptions=[],
        level_text='Lean 4 proofs over all histories of reserve/unreserve operations of the four-view machine (application, node, queue, partition counter updated as partition.reserve/unReserve do): the views always describe the same set, the counter is its size, an ask holds at most one reservation, a node at most one unless all are required-node asks, a reserved node refuses other asks, unreserve removes the reservation from every view. The same clauses (R1-R5) are evaluated on every state dumped from the real core (reservation delay 0, required-node asks, node removal, preemption).',
        level_note='trusted: Lean kernel; hand-written models tied by correspondence / monitors on the real core only; exact arithmetic; single partition, single goroutine',
        technique='Lean 4 invariant proof over a four-view reservation machine + monitors on the real core',
        design_ref='DESIGN.md section 4 C09',
    ),
    "C19": dict(
        module="YkProps.C19",
        leancheck=["YkModel.Sort", "YkProofs.Sort", "YkProps.C19"],
        runs=[dict(comp="sort", quick=1600, thorough=40000)],
        classify=lambda v, case: [w for w in [p.split()[0] + ("-" + p.split()[1] if p.split()[0] == "diff" else "") for p in (v[4:] if v.startswith("inv ") else v).split(" ;; ") if p.split()] if w.startswith("C19.") or w.startswith("diff")],
        nontrivial=lambda line: True,
        rule="sort: (queues) candidate sets of 2..6 sibling queues with many ties (priority, fair share against own guaranteed/fair max, pending) presented to the real sortQueue in two random permutations, for fair/fifo x priority on/off; "
             "(apps) 2..6 applications (ask priority, submission time, usage share) sorted twice by the real sortApplications (its input is a Go map); (asks) histories of inserts/removes on the real sortedRequests incl. extreme int32 priorities; "
             "(nodes) histories of <=35 operations on the real NodeCollection (add/remove node, allocate, release, capacity, occupied, foreign allocations, in-place resize, reserve, policy switch) with both iterators read after every operation "
             "and fresh scores computed with the policy in force. Share / score floats are reported as ranks. distinct = distinct protocol lines; every line is non-trivial (>= 2 candidates or a node history step)",
        trusted=["float-valued keys (fair share, usage share, node score) are computed by the implementation and enter the model as ranks; IEEE arithmetic is trusted",
                 "sort.SliceStable is modelled as a stable insertion sort: for a strict weak order every stable sort gives the same result (checked by correspondence)",
                 "google/btree ordered-set contract"],
        assumptions=["node resource types limited to vcore and memory (the default weights; two-term float sums are order independent)"],
        level_text="Lean 4 proofs: a stable sort by an irreflexive transitive comparator yields an inversion-free permutation of the candidates whatever the presentation order (permutation invariance); the queue-priority and the four application comparators are strict weak orders for all keys, "
                   "the two fair queue comparators are as long as the pending tie-break is not reached, and the tie-break itself is machine-checked NOT to be a weak order (known finding); asks stay in (priority desc, creation time asc) order under insert/remove. "
                   "Tie: correspondence of the model against the real sort functions on permuted presentations + the statement evaluated on the implementation's output; node iteration is checked by monitors only (visit once, unreserved view, fresh order).",
        level_note="trusted: Lean kernel; hand-written comparators tied by correspondence; floats enter as ranks; node iteration order is a monitor (no theorem)",
        technique="Lean 4 proof (strict weak orders, stable sort permutation invariance) + differential correspondence over permuted presentations",
        design_ref="DESIGN.md section 4 C19",
    ),
    "C17": dict(
        module="YkProps.C17",
        leancheck=["YkModel.Place", "YkModel.PlaceSpec", "YkProofs.Place", "YkProps.C17"],
        runs=[dict(comp="place", quick=2400, thorough=64000)],
        classify=cls_c17,
        nontrivial=lambda line: '"op":"reset"' not in line,
        rule="place: random configurations (queue tree of depth <=3 with managed leaf/parent queues, submit/admin ACL texts incl. wildcards, group-only, empty and invalid entries, child templates, now and then a configured queue named @recovery@; "
             "0..4 placement rules provided/user/tag/fixed with parent rules up to depth 2, create flags, allow/deny filters (also Deny/DENY) with user/group lists or single-entry regular expressions, fixed values that are existing leaves/parents, "
             "new names, root-prefixed names without dot, recovery queue spellings, values only the rule constructor refuses) loaded through scheduler.NewClusterContext "
             "(configurations the validator rejects are counted and skipped); per configuration 6..19 operations: application submissions through ClusterContext.handleRMUpdateApplicationEvent (users incl. names with dots and '$', 1..3 groups, "
             "requested queue: empty, existing leaf/parent in several capitalisations, unqualified, new below leaf/parent, recovery queue spellings, empty parts, invalid characters, 64/65 character parts; namespace/team tags; force-create tag), "
             "MarkQueueForRemoval of managed queues (draining), configuration reloads with the same queues and a new rule list (UpdateRMSchedulerConfig -> UpdateRules), direct security.NewACL/CheckAccess cases. Every submission line carries the RM answer, the application's queue, the recursive CheckSubmitAccess answer of every queue for the user before the submission, "
             "the regexp oracle and the whole queue tree afterwards; the driver compares all of it with the model and evaluates the property clauses on the implementation's answer. non-trivial = not a reset line; distinct = distinct protocol lines",
        trusted=["regular expressions of filters are opaque: the harness reports regexp.MatchString for every (pattern, user/group name) pair of the case; whether an entry is a regexp (configs.SpecialRegExp) is modelled",
                 "names are ASCII (strings.ToLower / EqualFold are modelled by ASCII case folding); a dotted queue name is modelled by the list of its parts",
                 "ACL texts of managed queues are taken from the generated configuration (the queue DAO does not expose them); the recursive CheckSubmitAccess answer of every real queue is compared with the model for every submitting user",
                 "child templates and the settings they control are compared as canonical text (max applications, properties, guaranteed and max resource of the queue DAO); application tags that set quotas on dynamic queues are not generated"],
        assumptions=["one partition; the user/group resolver is not used (every request carries its groups)", "rule chains are those the rule constructors accept (Rule.wf: fixed values with valid parts, no parent below a qualified fixed rule, tag name set)"],
        level_text="Lean 4 proofs over the executable model of NewACL/CheckAccess, the filters, the five rule types with parent rules, PlaceApplication and AddApplication/createQueue, for ALL queue trees, rule chains, ACLs, oracles and applications: "
                   "an accepted application is in a leaf queue that was an active leaf if it existed; the queue is the one designated by the first rule in configured order whose result passes the checks (every earlier rule yields nothing or a queue that fails them); "
                   "outside forced recovery some existing queue on the path admits the user through its submit or admin ACL; queues are created only for a rule with create enabled (or the recovery rule of a forced application), with valid name parts, below a non-leaf queue, "
                   "a new leaf carrying that queue's child template; no matching rule means rejection with the no-rule reason; only a force-created application ends in the recovery queue; placement never panics on a tree with a root queue (every rule result starts with the part root); "
                   "a filter is evaluated as configured whatever the capitalisation of its type. The one remaining exception — a forced application taken by a draining configured recovery queue — is stated in the theorem and shown by a witness (known finding C17.L3). "
                   "Tie: differential correspondence of the model against the real ClusterContext plus the same clauses evaluated on the implementation's answers.",
        level_note="trusted: Lean kernel; hand-written placement model tied by correspondence only; regexps as an oracle; ASCII names; ACL texts from the generated configuration",
        technique="Lean 4 proof over an executable model of the placement path + differential correspondence on a real ClusterContext",
        design_ref="DESIGN.md section 4 C17",
    ),
}


def strip_case(case):
    """replay files carry the inputs only: the dumped state and the messages are regenerated when replaying"""
    out = []
    for l in case:
        if '"st":' in l or '"msgs":' in l:
            try:
                d = json.loads(l)
                for k in ("st", "msgs"):
                    d.pop(k, None)
                l = json.dumps(d)
            except ValueError:
                pass
        out.append(l)
    return out


def write_replay(pid, tag, seed, lines, header):
    os.makedirs(REPLAYS, exist_ok=True)
    p = os.path.join(REPLAYS, "%s-%s-%d.jsonl" % (pid, re.sub(r"[^A-Za-z0-9_.-]", "_", tag)[:60], seed))
    with open(p, "w") as f:
        f.write("# " + header.replace("\n", " ") + "\n")
        for l in lines:
            f.write(l + "\n")
    return p


def decide(run, cfg, replay):
    pid, tier = run.pid, run.tier
    known, fixed = runner.load_known(pid)
    known_classes = {k for k, _ in known}
    tie_broken = []     # (what, log)
    violations = {}     # class -> (replay_path, verdict)
    known_seen = {}
    proof = dict(ok=False, theorems=[], failed=[], axioms={}, hygiene=[], log="")
    corrs = []
    can_run = True
    try:
        run.prepare()
    except Broken as b:
        tie_broken.append((b.what, b.log))
        can_run = os.path.exists(run.ykh) and os.path.exists(runner.YKDRV)

    if replay:
        # replay a file through the harness and print the verdicts
        for r in cfg["runs"]:
            c = run.correspond(r["comp"], 1, shards=1, replay=os.path.abspath(replay))
            for e in c.errors:
                print("error:", e)
            print("lines=%d ok=%d" % (c.lines, c.ok))
            for seed, case, v in c.fail:
                print("FAIL", v)
                print("   ", case[-1][:400])
            return 1 if (c.fail or c.errors) else 0

    if not tie_broken:
        proof = run.prove(cfg["module"])
        if not proof["ok"]:
            what = "proof obligations of %s no longer check: %s" % (cfg["module"], "; ".join(proof["failed"] or proof["hygiene"] or ["build failed"]))
            tie_broken.append((what, proof["log"][-6000:]))

    # correspondence (+ corpus first); a broken tie escalates to the thorough generators (the search for a failing input)
    search = bool(tie_broken)
    if can_run:
        corpus_dir = os.path.join(VERIF, "corpus", pid)
        if os.path.isdir(corpus_dir):
            for f in sorted(os.listdir(corpus_dir)):
                comp = f.split(".")[0].split("-")[0]
                c = run.correspond(comp, 1, shards=1, replay=os.path.join(corpus_dir, f), nontrivial=cfg["nontrivial"])
                c.corpus = f
                corrs.append(c)
        for r in cfg["runs"]:
            n = r["thorough"] if (tier == "thorough" or search) else r["quick"]
            c = run.correspond(r["comp"], n, extra=r.get("extra"), nontrivial=cfg["nontrivial"])
            c.corpus = None
            corrs.append(c)
    machinery_errors = []
    for c in corrs:
        machinery_errors += c.errors
        for seed, case, v in c.fail:
            if v.startswith("bad-op") or v == "missing-verdict":
                machinery_errors.append("%s: %s on %s" % (c.comp, v, case[-1][:200]))
                continue
            cls = cfg["classify"](v, case)
            if isinstance(cls, str):
                cls = [cls]
            for cl in cls:
                if cl in known_classes:
                    known_seen.setdefault(cl, v)
                    continue
                if cl not in violations:
                    path = write_replay(pid, cl, seed, strip_case(case), "property=%s class=%s verdict: %s" % (pid, cl, v))
                    violations[cl] = (path, v)

    # ------------------------------------------------------------------ output
    rc = 0
    for cl, desc in known:
        if cl in known_seen:
            print("KNOWN-FINDING: property=%s %s %s" % (pid, cl, desc))
        else:
            print("note: known finding %s of %s did not reproduce in this run" % (cl, pid))
    for i, (cl, (path, v)) in enumerate(sorted(violations.items())):
        rc = 1
        if i >= 8:
            print("  ... %d more violation classes (see evidence)" % (len(violations) - 8))
            break
        print("VIOLATION property=%s replay=%s" % (pid, path))
        print("  class=%s %s" % (cl, v[:300]))
    if tie_broken and not violations:
        body = ["tie between model and code broken for %s; no concrete failing input found by the search" % pid]
        for what, log in tie_broken:
            body.append("BROKEN: " + what)
            body += ["  | " + l for l in log.split("\n")[-60:]]
        path = write_replay(pid, "tie-broken", run.seed, body, "property=%s no-failing-input-found" % pid)
        print("VIOLATION property=%s replay=%s no-failing-input-found" % (pid, path))
        rc = 1
    elif tie_broken:
        for what, _ in tie_broken:
            print("  also:", what[:300])
    if machinery_errors:
        # the check itself is broken: say so loudly, never silently pass
        for e in machinery_errors[:10]:
            print("MACHINERY-ERROR:", e)
        rc = rc or 3

    # ------------------------------------------------------------------ evidence
    lines = sum(c.lines for c in corrs)
    distinct = set()
    nontriv = 0
    for c in corrs:
        distinct |= c.distinct
    nontriv = sum(c.nontrivial for c in corrs)
    stats = {}
    for c in corrs:
        for k, v in c.stats.items():
            stats[k] = stats.get(k, 0) + v
    samples = []
    for c in corrs:
        samples += c.samples[:2]
    leanchk = None
    if tier == "thorough" and proof["ok"]:
        ok, out = run.leanchecker(cfg["leancheck"])
        leanchk = ok
        if not ok:
            print("MACHINERY-ERROR: leanchecker rejected the compiled proofs:\n" + out[-2000:])
            rc = rc or 3
    nobl = len(proof["theorems"])
    ndis = nobl - len([t for t in proof["theorems"] if any(t in f for f in proof["failed"])]) if proof["ok"] else 0
    ev = dict(
        property_id=pid, tier=tier, seed=run.seed, level="proof",
        coverage=dict(
            obligations=max(nobl, 1), discharged=ndis if proof["ok"] else 0,
            checker_cmd="cd /verif/lean && lake build %s && lake env lean <Audit: #print axioms of each theorem>%s" % (cfg["module"], " && lake env leanchecker " + " ".join(cfg["leancheck"]) if tier == "thorough" else ""),
            trusted_base=COMMON_TRUSTED + cfg.get("trusted", []),
            theorems=proof["theorems"], axioms=proof["axioms"], failed=proof["failed"], hygiene_hits=proof["hygiene"],
            leanchecker_ok=leanchk,
            regenerated=sorted(getattr(run, "gen_snapshot", {}).keys()),
            evaluations=lines, distinct_nontrivial=nontriv, distinct_lines=len(distinct),
            traces_validated_against_impl=sum(c.ok for c in corrs),
            lines_outside_stepped_model=sum(c.ok_unmodelled for c in corrs),
            rule=cfg["rule"], samples=samples[:6] or [{"note": "no correspondence lines in this run"}],
            generator_distribution=stats,
            corpus_files=[c.corpus for c in corrs if c.corpus],
            known_findings_reproduced=sorted(known_seen), fixed_entries=fixed,
            tie_broken=[w for w, _ in tie_broken],
        ),
        assumptions=cfg.get("assumptions", []),
        wall_s=round(time.time() - run.t0, 1),
        violations=len(violations) + (1 if tie_broken and not violations else 0),
    )
    os.makedirs(EVID, exist_ok=True)
    with open(os.path.join(EVID, pid + ".json"), "w") as f:
        json.dump(ev, f, indent=1)
    print("%s %s: theorems=%d discharged=%d lines=%d ok=%d known=%d violations=%d wall=%.0fs" % (
        pid, tier, nobl, ev["coverage"]["discharged"], lines, ev["coverage"]["traces_validated_against_impl"],
        len(known_seen), ev["violations"], ev["wall_s"]))
    return rc
