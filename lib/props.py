"""Per-property configuration and the verdict logic of ./check."""
import json, os, re, time
import runner
from runner import VERIF, Broken

REPLAYS = os.path.join(VERIF, "replays")
EVID = os.path.join(VERIF, "evidence")

COMMON_TRUSTED = [
    "Lean 4.33.0 kernel (thorough tier re-checks the compiled proofs with leanchecker)",
    "axioms allowed per theorem: propext, Classical.choice, Quot.sound (audited with #print axioms on every run); no sorry/admit/native_decide/bv_decide/own axioms (grep on every run)",
    "translators in /verif/extract (go/ast; abort outside their subset) for the regenerated parts of the model",
    "hand-written model YkModel/* tied to the code only by the correspondence run (Go harness in-process vs ykdrv), bounded by its generators",
    "Go toolchain; JSON line protocol and its parser/printer (YkDrv/Util.lean, harness encoders)",
]

# ---------------------------------------------------------------------------------------------------
# classification of non-ok verdicts into finding classes (matched against KNOWN_FINDINGS.txt)


def cls_default(verdict, case):
    """class of a non-ok verdict: kind + operation/clause name, arguments stripped"""
    w = verdict.split()
    if len(w) < 2:
        return verdict
    return w[0] + "-" + re.sub(r"\(.*$", "", w[1])


def cls_tagged(prefix):
    """classifier for the full-stack driver: a verdict carries every failing clause, each starting with a tag
    "<Cxx>.<clause-id>" ("inv C03.I4 ... ;; C09.R2 ..." or "diff core.<op> ... ;; C03.I1 ..."). A property's check takes
    the clauses tagged with its own id; class = the tag. A model/implementation difference (diff core.*) is reported by
    the properties in DIFF_OWNERS; a recovered panic or a hang by C13."""
    def f(verdict, case):
        out = []
        body = verdict[4:] if verdict.startswith("inv ") else verdict
        for part in body.split(" ;; "):
            w = part.split()
            if not w:
                continue
            if w[0] == "diff":
                if prefix in DIFF_OWNERS:
                    out.append("diff-" + w[1] + ("-" + w[2] if len(w) > 2 else ""))
            elif w[0] in ("panic", "hang"):
                if prefix in ("C13",):
                    out.append(w[0] + "-" + "-".join(x.strip('"') for x in w[1:3]))
            elif w[0].startswith(prefix + "."):
                out.append(w[0])
        return out
    return f


def cls_both(prefix):
    """object-level components use the default classes, full-stack lines the tagged ones"""
    tagged = cls_tagged(prefix)
    def f(verdict, case):
        if case and '"c":"core"' in case[-1][:40]:
            return tagged(verdict, case)
        return cls_default(verdict, case)
    return f


def cls_c17(verdict, case):
    """placement driver: tagged clauses "C17.<id> ..." and "diff place.<what> ..." joined by " ;; "; a recovered panic
    is prefixed by the dispatcher ("panic place.submit ;; ..."): it is the clause C17.P1 when the driver names it, an
    unexplained panic otherwise"""
    body = verdict[4:] if verdict.startswith("inv ") else verdict
    out, panic = [], False
    for part in body.split(" ;; "):
        w = part.split()
        if not w:
            continue
        if w[0] == "diff":
            out.append("diff-" + w[1])
        elif w[0] == "panic":
            panic = True
        elif w[0].startswith("C17."):
            out.append(w[0])
    if panic and "C17.P1" not in out:
        out.append("panic-unexplained")
    return out or [cls_default(verdict, case)]


def cls_ugm(verdict, case):
    """C05: lines of the ugm component carry clause ids C05.<clause> (several joined by " ;; "), a model/implementation
    difference is "diff <op>.<what>", a recovered panic "panic ugm.<op>"; full-stack lines use the tagged classifier"""
    if case and '"c":"core"' in case[-1][:40]:
        return cls_tagged("C05")(verdict, case)
    out = []
    for part in (verdict[4:] if verdict.startswith("inv ") else verdict).split(" ;; "):
        w = part.split()
        if not w:
            continue
        if w[0] in ("diff", "panic"):
            out.append(w[0] + ("-" + re.sub(r"\[.*$", "", w[1]) if len(w) > 1 else ""))
        elif w[0].startswith("C05."):
            out.append(w[0])
        else:
            out.append(w[0])
    return out


def cls_c12(verdict, case):
    """recovery driver: tagged clauses "C12.<id> ..." (acceptance of replayed items, books of the restarted core, totals
    against the snapshot, old core against new core, "C12.after-<Cxx>.<clause>" for the scheduling that follows) and
    "diff recover.<what>" / "diff core.<op>" (model vs implementation), joined by " ;; "; a recovered panic is prefixed
    by the dispatcher"""
    body = verdict[4:] if verdict.startswith("inv ") else verdict
    out = []
    for part in body.split(" ;; "):
        w = part.split()
        if not w:
            continue
        if w[0] == "diff":
            out.append("diff-" + w[1] + ("-" + w[2] if len(w) > 2 and w[1].startswith("core.") else ""))
        elif w[0] in ("panic", "hang"):
            out.append(w[0] + "-" + "-".join(x.strip('"') for x in w[1:2]))
        elif w[0].startswith("C12."):
            out.append(w[0])
    return out or [cls_default(verdict, case)]


def cls_c13(verdict, case):
    """malformed-stream driver: tagged clauses "C13.<id> ..." and "diff mal.si <what> ..." joined by " ;; "; a recovered
    panic is prefixed by the dispatcher ("panic mal.si ;; ..."), a hang is "hang mal.si ..."; corpus files of the core
    component use the full-stack classes"""
    if case and '"c":"core"' in case[-1][:40] or (case and '"c": "core"' in case[-1][:40]):
        return cls_tagged("C13")(verdict, case)
    body = verdict[4:] if verdict.startswith("inv ") else verdict
    out = []
    for part in body.split(" ;; "):
        w = part.split()
        if not w:
            continue
        if w[0] == "diff":
            out.append("diff-" + w[1] + ("-" + w[2] if len(w) > 2 else ""))
        elif w[0] in ("panic", "hang"):
            out.append(w[0] + "-" + (w[1] if len(w) > 1 else ""))
        elif w[0].startswith("C13."):
            out.append(w[0])
    return out or [cls_default(verdict, case)]


def cls_c16(verdict, case):
    """reload driver: tagged clauses "C16.<id> ..." and "diff <step>.<what> ..." joined by " ;; "; a recovered panic is
    prefixed by the dispatcher, a reload that does not return is the clause C16.P1 when the configuration drops a partition"""
    body = verdict[4:] if verdict.startswith("inv ") else verdict
    out, panic = [], False
    for part in body.split(" ;; "):
        w = part.split()
        if not w:
            continue
        if w[0] == "diff":
            out.append("diff-" + (w[1] if len(w) > 1 else ""))
        elif w[0] == "panic":
            panic = True
        elif w[0] == "hang":
            out.append("hang-" + (w[1] if len(w) > 1 else ""))
        elif w[0].startswith("C16."):
            out.append(w[0])
    if panic:
        out.append("panic-unexplained")
    return out or [cls_default(verdict, case)]


def cls_c14(verdict, case):
    """lock driver: clauses "C14.<id> ..." joined by " ;; " (the regenerated table judged against the policy, deadlock
    replays, the thorough tier's stress run). A line of the full-stack driver (the final dump of the stress run) carries
    clauses tagged with OTHER properties: a clause that is a known finding of its own property is not counted again, any
    other one is the class C14.final-state:<tag> (the property's last clause: the invariants hold once the system settles)."""
    body = verdict[4:] if verdict.startswith("inv ") else verdict
    core_line = bool(case) and '"c":"core"' in case[-1][:40]
    out = []
    for part in body.split(" ;; "):
        w = part.split()
        if not w:
            continue
        if w[0].startswith("C14.race[") and w[0].endswith("]"):
            # a race report names the two conflicting functions "A+B"; a known finding names the function that accesses
            # the data without the lock: C14.race[A]
            sides = w[0][len("C14.race["):-1].split("+")
            known_sides = [k for k, _ in runner.load_known("C14")[0] if k.startswith("C14.race[") and k[len("C14.race["):-1] in sides]
            out.append(known_sides[0] if known_sides else w[0])
        elif w[0].startswith("C14."):
            out.append(w[0])
        elif w[0] == "panic":
            out.append("C14.machinery-" + "-".join(x.strip('"') for x in w[1:2]))
        elif core_line and re.match(r"C\d\d\.", w[0]):
            if w[0] not in _all_known_classes():
                out.append("C14.final-state:" + w[0])
        elif w[0] == "diff" and not core_line:
            out.append("diff-" + w[1])
    return out


_ALL_KNOWN = None


def _all_known_classes():
    global _ALL_KNOWN
    if _ALL_KNOWN is None:
        _ALL_KNOWN = set()
        p = os.path.join(VERIF, "KNOWN_FINDINGS.txt")
        if os.path.exists(p):
            for line in open(p):
                m = re.match(r"known:\s+property=(\S+)\s+class=(\S+)", line.strip())
                if m:
                    _ALL_KNOWN.add(m.group(2))
    return _ALL_KNOWN


def c14_pre(run):
    """thorough tier: a second harness binary built with -race for the concurrent full-stack run (evidence only)"""
    if run.tier != "thorough":
        return
    rb = os.path.join(run.scratch, "ykh-race")
    rc, out = runner.sh(["go", "build", "-race", "-tags", "verif", "-o", rb, "."], cwd=os.path.join(VERIF, "harness"), env=runner.GOENV)
    if rc == 0:
        os.environ["VERIF_RACE_BIN"] = rb
    else:
        print("note: race-enabled harness did not build, the stress run uses the plain binary:", out[-300:])
    os.environ.setdefault("VERIF_STRESS_SECONDS", "180")


def c14_report(run):
    """print the exclusion list of the lock-order policy (trusted base) as the driver sees it against the regenerated table"""
    try:
        p = runner.subprocess.run([runner.YKDRV], input='{"c":"lock","op":"policy"}\n', stdout=runner.subprocess.PIPE, stderr=runner.subprocess.PIPE, text=True, timeout=60)
    except Exception as e:  # noqa
        print("note: exclusion list not available:", e)
        return []
    text = p.stdout.strip()
    items = text[len("ok policy "):].split(" ;; ") if text.startswith("ok policy ") else []
    for it in items:
        if it.startswith("EXCLUDED"):
            print("EXCLUSION (trusted): property=C14 " + it[len("EXCLUDED "):])
    return items


# a difference between the stepped Core model and the implementation is reported by the properties whose theorems are
# about that model
# a difference between the stepped Core model and the implementation is reported by the properties whose theorems are
# about that model
DIFF_OWNERS = {"C03"}


def nontrivial_res(line):
    # a resource case is trivial when both vectors are nil/empty
    return not ('"l":null' in line and '"r":null' in line) and not ('"l":[]' in line and '"r":[]' in line)


def cls_preempt(prefix):
    """component `preempt`: every failing clause is tagged "<Cxx>.<clause-id>[+<input class>]"; a property's check takes the
    clauses tagged with its own id; a model/implementation difference (diff <what>) is reported by both properties"""
    def f(verdict, case):
        out = []
        body = verdict[4:] if verdict.startswith("inv ") else verdict
        for part in body.split(" ;; "):
            w = part.split()
            if not w:
                continue
            if w[0] == "diff" and len(w) > 1:
                out.append("diff-" + re.sub(r"\[.*$", "", w[1]))
            elif w[0].startswith(prefix + "."):
                out.append(w[0])
        return out
    return f


PREEMPT_RULE = ("preempt: random worlds — a real queue tree (3..9 queues, depth <= 4, sibling names that are string prefixes of each other, every mix of "
                "preemption.policy default/fence/disabled, priority.policy default/fence, priority.offset -3..3, preemption.delay, sparse guaranteed and max over cpu/mem/gpu), "
                "1..6 real nodes (some unschedulable), 3..16 bound allocations of real applications spread over the leaves and nodes with every flag combination "
                "(released, preempted with its preempting resource booked, required node, placeholder, priority -2..5, allowPreemptSelf, originator, distinct creation times) and one ask "
                "(sparse resources, priority, allowPreemptOther, required node, age, already triggered). For every world, each on a fresh copy built from the real objects: "
                "Queue.FindEligiblePreemptionVictims with the snapshot methods before and after 1..5 Add/RemoveAllocation steps; CheckPreconditions under two (delay, attempt frequency, last check) settings; "
                "CheckPreconditions+TryPreemption without plugin and with a mock preemption predicate plugin (per node allow/deny, index offsets, out-of-range index) that also records the per-node victim lists; "
                "NewRequiredNodePreemptor(...).tryPreemption on a chosen node; a lowered (still valid) maximum applied with ApplyConf/UpdateQueueProperties and a quota.preemption.delay, then TryQuotaPreemption (synchronous hook); "
                "a history of 3..9 steps on one queue: configuration updates (maximum above the usage / below it / lowered again / raised again / incomparable / removed, quota.preemption.delay removed or 10m..2h, larger / smaller / equal), clock advances (hook) and attempts, with the scheduled start time read after every step. "
                "Property values are spelled in mixed case now and then (Disabled, FENCE, defaulT) and set on the root, on parents and on leaves; the four settings the preemption code reads (preemption.policy, priority.policy, priority.offset, preemption.delay) are COMPUTED by the model from the configured texts (mergeProperties / filterParentProperty / UpdateQueueProperties, shared with C16) and compared with what the real queues report. "
                "Recorded: victims marked, release messages, triggered flag, preempting per queue, chosen node, snapshots with remaining-guaranteed/preemptable. "
                "non-trivial = not a reset line; distinct = distinct protocol lines")
PREEMPT_TRUSTED = ["exact integer arithmetic in the preemption model (no quantity saturates; C18 owns saturation)",
                   "GetMaxResource() of every queue (fence by max) is read from the implementation (C02 owns it)",
                   "quota timing runs on a virtual clock: a hook moves a scheduled start time closer instead of waiting (the code only compares the start time with time.Now()); delays are multiples of minutes, compared at 1 s resolution",
                   "float-valued parts of the quota preemptor (share split in getChildQueuesPreemptableResource, the sort key of SortAllocationsBasedOnAsk): the per-leaf plan is taken from the implementation, "
                   "the selection theorem is proved for every candidate order",
                   "nodes carry no reservations in the generated worlds (the reservation-cancelling branch of initWorkingState is exercised by the full-stack component only)",
                   "with a plugin, which of several equally scored nodes wins depends on goroutine scheduling: the model accepts any of them",
                   "time: delays are crossed by choosing creation times / 1ms quota delay; CheckPreconditions is evaluated with margins of seconds"]

def cls_conf(verdict, case):
    """component conf (C15): every failing clause carries an id "C15.<clause>[.<cause>]"; a model/implementation difference is
    "diff conf.<what>"; a recovered panic is reported by the generic "panic conf.validate" part unless the driver attributed it
    to a cause (C15.PL.panic-*, C15.LD.panic, C15.RL.panic)"""
    body = verdict[4:] if verdict.startswith("inv ") else verdict
    parts = [p.split() for p in body.split(" ;; ") if p.split()]
    attributed = any(w[0].startswith("C15.PL.panic") or w[0] in ("C15.LD.panic", "C15.RL.panic") for w in parts)
    out = []
    for w in parts:
        if w[0] == "diff" and len(w) > 1:
            out.append("diff-" + w[1])
        elif w[0] == "panic":
            if not attributed:
                out.append("panic-" + (w[1] if len(w) > 1 else "?"))
        else:
            out.append(w[0])
    return sorted(set(out))


NOT_YET = {}

PROPS = {
    "C18": dict(
        module="YkProps.C18",
        leancheck=["YkModel.Res", "YkModel.ResSpec", "YkModel.Quantity", "YkProofs.ResArith", "YkProofs.Res", "YkProps.C18"],
        runs=[dict(comp="res", quick=48000, thorough=2400000)],
        classify=cls_default,
        nontrivial=nontrivial_res,
        rule="random operation instances over every exported resources.* operation, the four calculators (hook) and ParseQuantity/ParseVCore; "
             "vectors over <=5 types with values from an int64 corner set, small and full-range random values, nil/empty/aliased arguments; "
             "quantity strings from a grammar generator plus malformed ones. A case is non-trivial unless both vectors are nil or both empty; distinct = distinct protocol lines",
        trusted=["IEEE-754 product inside mulValRatio/MultiplyBy: the model takes its integer truncation as an input (harness computes it with math/big)",
                 "quantity strings restricted to valid UTF-8 (they travel through JSON)"],
        assumptions=["resource vectors handed to the model are Go maps: keys unique", "float64->int64 conversion out of range behaves as on amd64 (MinInt64)"],
        level_text="Lean 4 theorems for all int64 inputs / all vectors / all strings: the four calculators (definitions REGENERATED from resources.go by translator T1 on every run) are exact-or-clamped and closed; "
                   "Add/Sub/Multiply are the pointwise saturating operations on the union of types; the fit predicates equal their documented component-wise meaning; quantity parsing returns exactly number*multiplier or an error. "
                   "Tie: T1/T5 regeneration plus differential correspondence of every exported resources.* operation against the executable model and the executable statement.",
        level_note="trusted: Lean kernel, translator T1/T5, the float64 product inside mulValRatio (modelled by its truncation), amd64 float->int conversion, hand-written vector model tied by correspondence only; strings restricted to valid UTF-8",
        technique="Lean 4 proof over a model regenerated from source (T1) + differential correspondence",
        design_ref="DESIGN.md section 4 C18",
    ),
    "C20": dict(
        module="YkProps.C20",
        leancheck=["YkModel.Ring", "YkModel.Stream", "YkProofs.Ring", "YkProofs.Stream", "YkProps.C20"],
        runs=[dict(comp="ring", quick=2400, thorough=64000), dict(comp="stream", quick=640, thorough=8000)],
        classify=cls_default,
        nontrivial=lambda line: '"op":"reset"' not in line and '"op":"sreset"' not in line,
        rule="ring: random histories (capacity 1..24, <=70 ops: add, bursts that wrap the buffer, resize to 1..2*cap, GetEventsFromID with start in [lowest-2,last+2] and count in {0,1,2,cap-1,cap,cap+1,MaxUint64,..}, GetRecentEvents) on the real eventRingBuffer (hook), "
             "event store histories (store/collect/setSize); stream: random interleavings of the event loop (add;publish) with CreateEventStream (register | yield hook | read history) on the real EventStreaming. "
             "Every line is one operation with the implementation's answer; non-trivial = not a reset line; distinct = distinct protocol lines",
        trusted=["event ids and capacities below 2^63 (the model uses Nat; uint64 wrap of ids is not modelled)",
                 "Go channels / goroutine scheduling of the bridging goroutine: the model covers the interleavings of registration, history read, add and publish; delivery is awaited with a 15 ms quiet period",
                 "REST /ws/v1/events/batch handler and EventSystem glue (not modelled)"],
        assumptions=["capacity > 0 (getRingBufferCapacity never returns 0)", "single event-loop goroutine (add then publish per event)"],
        level_text="Lean 4 refinement proof: for every history of adds and resizes the field-for-field model of eventRingBuffer refines the abstract history (ids consecutive, most recent events up to capacity kept across resizes, "
                   "GetEventsFromID = exactly the requested gap-free range or nothing plus the available range, GetRecentEvents = the last min(count, available) events), event-store batch bound; "
                   "stream set-up: proof for every interleaving that the subscriber gets history then later events once and in order under the stated coverage hypothesis, plus the machine-checked refutation of the unrestricted statement (known finding). "
                   "Tie: correspondence of the hand-written model against the real ring buffer / store / EventStreaming (yield hook).",
        level_note="trusted: Lean kernel; hand-written Ring/Store/Stream models tied by correspondence only; ids < 2^63; channel delivery; REST glue not modelled",
        technique="Lean 4 refinement proof (ring buffer -> abstract history) + differential correspondence on the real code",
        design_ref="DESIGN.md section 4 C20",
    ),
    "C01": dict(
        module="YkProps.C01",
        leancheck=["YkModel.Node", "YkProofs.Node", "YkProps.C01"],
        runs=[dict(comp="node", quick=3200, thorough=100000), dict(comp="core", quick=720, thorough=9000, extra=["-mode", "mixed"])],
        classify=cls_both("C01"),
        nontrivial=lambda line: '"op":"reset"' not in line and '"op":"setSchedulable"' not in line,
        rule="node: random histories (<=50 ops) of every public ledger operation of objects.Node — TryAddAllocation, AddAllocation (forced, foreign and not), RemoveAllocation, UpdateForeignAllocation, "
             "in-place resource update (SetAllocatedResource + UpdateAllocatedResource as partition.UpdateAllocation does), ReplaceAllocation with delta = real - placeholder, SetCapacity, SetOccupiedResource, SetSchedulable — "
             "over sparse 3-type vectors; after every op the complete node state is dumped and (1) compared with the model, (2) the ledger clauses and tryAdd-fits / available-non-negative are evaluated on the dumped state. "
             "non-trivial = not a reset/setSchedulable line; distinct = distinct protocol lines",
        trusted=["exact integer arithmetic in the node model (no quantity saturates; C18 proves the calculators exact inside int64)",
                 "bind guards (registered, schedulable, reservation, required node, predicate) are decided on the full-stack model, not here"],
        assumptions=["callers meet the contract Pre of YkProps/C01.lean (fresh allocation keys on add; replacement delta = real - placeholder) — as partition.go / application.go do"],
        level_text="Lean 4 invariant proof over all histories of node operations: allocated = sum of bound allocations and available = capacity - allocated - occupied (cached field updated as the code updates it) are preserved by each of the ten node operations and hold in every reachable state; "
                   "TryAddAllocation succeeds only if the ask fits in available, a refused add changes nothing, scheduler operations keep available non-negative (forced ones shown to break it by witnesses). "
                   "Tie: correspondence of the hand-written Node model against objects.Node with the same clauses evaluated on the implementation's dumped state (ledger_exec_iff links the executable clauses to the theorem).",
        level_note="trusted: Lean kernel; hand-written Node model tied by correspondence only; exact arithmetic (NoSat); caller contract Pre; the bind-guard clauses (fits, registered, schedulable, not reserved for another ask, required node) are evaluated on every scheduling cycle of the full-stack run against the state before the cycle",
        technique="Lean 4 invariant proof (induction over node operation histories) + differential correspondence on objects.Node",
        design_ref="DESIGN.md section 4 C01",
    ),
    "C02": dict(
        module="YkProps.C02",
        leancheck=["YkModel.Queue", "YkProofs.Queue", "YkProps.C02"],
        runs=[dict(comp="queue", quick=2400, thorough=64000), dict(comp="core", quick=720, thorough=9000, extra=["-mode", "mixed"])],
        classify=cls_both("C02"),
        nontrivial=lambda line: '"op":"reset"' not in line,
        rule="queue: random queue trees (2..8 queues, chains and fans, sparse max/guaranteed with undefined/0/positive entries per type, maxApplications) built with NewConfiguredQueue; <=48 ops per tree: TryIncAllocatedResource, IncAllocatedResource (forced), DecAllocatedResource, SetResources, SetMaxResource(root), canRunApp / incRunningApps / decRunningApps / setAllocatingAccepted (hooks), SetMaxRunningApps; after every op the whole tree (allocated, raw max, guaranteed, headroom, max headroom, effective max, counters) is dumped, compared with the model and the property clauses are evaluated on the dump. non-trivial = not a reset line; distinct = distinct protocol lines",
        trusted=["exact integer arithmetic in the queue model (no quantity saturates)",
                 "the scheduler adds usage only through TryIncAllocatedResource (application.go tryNode); the full-stack check monitors 'no new over-max usage after a scheduling cycle' on the real core"],
        assumptions=["tree well-formed: parents created before children, resource maps have unique keys"],
        level_text="Lean 4 proofs over all queue trees and allocations: a successful TryIncAllocatedResource leaves no queue of the path above its maximum on any type of the allocation (all types at the root, defined types elsewhere), "
                   "is all-or-nothing, touches only the path and only the allocation's types, never creates new over-max usage; effective maximum and headroom of a queue are never looser than the parent's. "
                   "Tie: correspondence of the hand-written QTree model against objects.Queue trees, with the same clauses evaluated on the dumped implementation state.",
        level_note="trusted: Lean kernel; hand-written queue model tied by correspondence only; exact arithmetic; forced paths (IncAllocatedResource, lowered maxima) are excluded by the property itself",
        technique="Lean 4 proof over a queue-tree model + differential correspondence on objects.Queue",
        design_ref="DESIGN.md section 4 C02",
    ),
    "C11": dict(
        module="YkProps.C11",
        leancheck=["YkModel.Queue", "YkProofs.Queue", "YkProofs.QueueBudget", "YkProps.C11", "YkProps.C10"],
        runs=[dict(comp="queue", quick=2400, thorough=64000), dict(comp="core", quick=720, thorough=9000, extra=["-mode", "mixed"])],
        classify=cls_both("C11"),
        nontrivial=lambda line: '"op":"reset"' not in line,
        rule="queue: random queue trees (2..8 queues, chains and fans, sparse max/guaranteed with undefined/0/positive entries per type, maxApplications) built with NewConfiguredQueue; <=48 ops per tree: TryIncAllocatedResource, IncAllocatedResource (forced), DecAllocatedResource, SetResources, SetMaxResource(root), canRunApp / incRunningApps / decRunningApps / setAllocatingAccepted (hooks), SetMaxRunningApps; after every op the whole tree (allocated, raw max, guaranteed, headroom, max headroom, effective max, counters) is dumped, compared with the model and the property clauses are evaluated on the dump. non-trivial = not a reset line; distinct = distinct protocol lines",
        trusted=["which FSM callbacks call incRunningApps/decRunningApps is regenerated from application_state.go (T2) and proved in YkProps/C10.callbacks_tie",
                 "counters vs applications of the subtree (running <= #Running, allocating are live, zero when empty) are monitored on the full stack"],
        assumptions=["maxApplications fixed during a history of counter operations (lowering it is a configuration change)"],
        level_text="Lean 4 proofs for all trees and histories of counter operations: canRunApp says yes only if every ancestor with a maximum has room for one more next to running+allocating (or already tracks the application); "
                   "the running count never exceeds the maximum; an application counted as running is no longer allocating; over every history whose admissions all went through the gate, running + allocating never exceeds the maximum of any queue (budget), and one ungated admission breaks that (budget_needs_gate). Tie: correspondence against objects.Queue (hooks) + the gate clause evaluated on the dumped state.",
        level_note="trusted: Lean kernel; hand-written queue counters model tied by correspondence only",
        technique="Lean 4 invariant proof over counter-operation histories + differential correspondence on objects.Queue",
        design_ref="DESIGN.md section 4 C11",
    ),
    "C10": dict(
        module="YkProps.C10",
        leancheck=["YkModel.AppFsm", "YkModel.CoreOps2", "YkModel.CoreRun", "YkProofs.Core2Life", "YkProofs.Core2LifeA", "YkProofs.Core2LifeB", "YkProofs.Core2LifeC", "YkProofs.Core2LifeD", "YkProofs.Core2LifeE", "YkProofs.Core2LifeRun", "YkProofs.Core2LifeEx", "YkProps.C10"],
        runs=[dict(comp="core", quick=720, thorough=9000, extra=["-mode", "mixed"])],
        classify=cls_both("C10"),
        nontrivial=lambda line: '"op":"reset"' not in line,
        rule="the transition table and callback bodies are regenerated from application_state.go (T2) and the theorems re-checked; application-level histories are exercised by the full-stack check",
        trusted=["looplab/fsm semantics: first matching (event, source) transition; same-state transitions are swallowed by HandleApplicationEvent"],
        assumptions=[],
        level_text="Lean 4 proofs over the transition table REGENERATED from application_state.go: for all states a != b, some event moves a to b iff the documented life cycle has the edge; every event history yields a state log of documented edges; "
                   "terminal states only expire; the callbacks that maintain the running counter / run the terminated callback / arm the completing timer are the expected ones. "
                   "Over the 21-operation stepped model of the partition (asks, scheduling, swaps, every release type, node and application removal, timers), by induction over every history: terminated applications leave and a Completed one holds nothing, "
                   "a Completing application holds no real allocation, and (outstanding_ask_not_completed, full statement since the repair 20ee082 of the roll-back path: DeallocateAsk runs the application again) an application with an outstanding ask is neither Completing nor Completed; "
                   "the stepped model is tied to the code line by line by the full-stack check (every line of a history is stepped from the implementation's previous dump and compared).",
        level_note="trusted: Lean kernel, translator T2, looplab/fsm library semantics; the application object's behaviour is the stepped model's, tied to the code by the one-step correspondence of the full-stack check",
        technique="Lean 4 proof: exhaustive case analysis over a table regenerated from source (T2) + invariants by induction over the histories of the stepped partition model, tied to the code by a one-step correspondence check",
        design_ref="DESIGN.md section 4 C10",
    ),
    "C03": dict(
        module="YkProps.C03",
        leancheck=['YkModel.CoreState', 'YkModel.CoreOps', 'YkModel.CoreOps2', 'YkModel.CoreRun', 'YkProofs.Core', 'YkProofs.Core2App', 'YkProofs.Core2Base', 'YkProofs.Core2Check', 'YkProofs.Core2Check2', 'YkProofs.Core2Example', 'YkProofs.Core2Example2', 'YkProofs.Core2Link', 'YkProofs.Core2LinkA', 'YkProofs.Core2LinkB', 'YkProofs.Core2LinkC', 'YkProofs.Core2LinkD', 'YkProofs.Core2Node', 'YkProofs.Core2NodeRm', 'YkProofs.Core2Old', 'YkProofs.Core2Rel', 'YkProofs.Core2Repl', 'YkProofs.Core2Resv', 'YkProofs.Core2ResvB', 'YkProofs.Core2Run', 'YkProofs.Core2RunL', 'YkProofs.Core2Swap', 'YkProofs.Core2Timer', 'YkProps.C03'],
        runs=[dict(comp="core", quick=720, thorough=9000, extra=["-mode", "mixed"])],
        classify=cls_tagged("C03"),
        nontrivial=lambda line: '"op":"reset"' not in line,
        rule='core: random histories (30..120 operations) on a real ClusterContext driven synchronously through hooks: node create/create-drain/update/drain/undrain/decommission, application add (plain and gang, several users, static and dynamic queues, duplicate ids) / remove, asks (plain, placeholder, task groups, required node, priorities), RM-placed allocations, in-place resizes, foreign allocations add/update/remove, releases by key and of whole applications, scheduling cycles (predicate plugin denying some (ask,node) pairs, reservation delay 0, preemption on), placeholder and state timers fired explicitly, shim confirmations (PLACEHOLDER_REPLACED / TIMEOUT / PREEMPTED) delivered immediately, late, twice or never; 60% of the histories end by releasing and removing everything (drain). After every operation the complete state (nodes, queues, applications with asks/allocations, counters, user/group trackers) and the messages sent to the shim are dumped; the driver evaluates every clause on the dump, the per-step clauses against the previous dump, the shim protocol automaton on the messages, and steps the Core model from the previous dump for the modelled operations. non-trivial = not a reset line; distinct = distinct protocol lines',
        trusted=['one partition; the harness calls the handler functions of ClusterContext directly (what RMProxy/Scheduler event loops would call) from a single goroutine', 'the asynchronous terminated-application callback is awaited (settle) before the state is dumped', "scheduler decisions (which ask, which node) are taken from the core's own announcements, not predicted"],
        assumptions=[],
        level_text="Lean 4 proofs over the stepped ledger model of the core (YkModel/CoreOps.lean: ask, scheduler bind, release by key incl. the terminated-application path, node create/update/drain, foreign add/remove): each operation preserves the books (application totals = sums over its allocations and unallocated asks, every queue = sum over the applications at or below it, node allocated = sum of its allocations, available = capacity - allocated - occupied) for ALL states; with no live application and no allocation left every total is exactly zero; the executable clauses the driver evaluates on the dumped state imply the books (conserved_exec_sound). Tie: one-step refinement (the model stepped from the implementation's previous dumped state must reproduce every ledger of its next state) + all conservation clauses I1..I11 evaluated on every dumped state of the real ClusterContext; operations outside the stepped model (placeholder swap, application/node removal, timers, preemption) are covered by the clauses only (counted in the evidence)",
        level_note='trusted: Lean kernel; hand-written models tied by correspondence / monitors on the real core only; exact arithmetic; single partition, single goroutine',
        technique='Lean 4 invariant proof over a stepped ledger model + one-step refinement correspondence and monitors on the real core',
        design_ref='DESIGN.md section 4 C03',
    ),
    "C04": dict(
        module="YkProps.C04",
        leancheck=['YkModel.Shim', 'YkProofs.Shim', 'YkProofs.ShimReg', 'YkProps.C04'],
        runs=[dict(comp="core", quick=720, thorough=9000, extra=["-mode", "mixed"])],
        classify=cls_tagged("C04"),
        nontrivial=lambda line: '"op":"reset"' not in line,
        rule='core: random histories (30..120 operations) on a real ClusterContext driven synchronously through hooks: node create/create-drain/update/drain/undrain/decommission, application add (plain and gang, several users, static and dynamic queues, duplicate ids) / remove, asks (plain, placeholder, task groups, required node, priorities), RM-placed allocations, in-place resizes, foreign allocations add/update/remove, releases by key and of whole applications, scheduling cycles (predicate plugin denying some (ask,node) pairs, reservation delay 0, preemption on), placeholder and state timers fired explicitly, shim confirmations (PLACEHOLDER_REPLACED / TIMEOUT / PREEMPTED) delivered immediately, late, twice or never; 60% of the histories end by releasing and removing everything (drain). After every operation the complete state (nodes, queues, applications with asks/allocations, counters, user/group trackers) and the messages sent to the shim are dumped; the driver evaluates every clause on the dump, the per-step clauses against the previous dump, the shim protocol automaton on the messages, and steps the Core model from the previous dump for the modelled operations. non-trivial = not a reset line; distinct = distinct protocol lines',
        trusted=['one partition; the harness calls the handler functions of ClusterContext directly (what RMProxy/Scheduler event loops would call) from a single goroutine', 'the asynchronous terminated-application callback is awaited (settle) before the state is dumped', "scheduler decisions (which ask, which node) are taken from the core's own announcements, not predicted"],
        assumptions=[],
        level_text="Lean 4 proofs about the protocol automaton (YkModel/Shim.lean) that the driver runs on the SI traffic recorded from the real core: in every view reached by an accepted trace bound keys are pairwise distinct and disjoint from the outstanding asks (exactly-once), a new allocation is accepted iff it is for an outstanding ask of an accepted application on a registered node with an unbound key (or the one echo of a shim-reported placement), a release iff the key is bound or outstanding (repeatable while unconfirmed), answers only to pending submissions, a rejection leaves no trace. The core's traffic is judged by `ShimView.step = none`.",
        level_note='trusted: Lean kernel; hand-written models tied by correspondence / monitors on the real core only; exact arithmetic; single partition, single goroutine',
        technique='Lean 4 proofs about a monitor automaton + run-time verification of the real SI traffic with it',
        design_ref='DESIGN.md section 4 C04',
    ),
    "C06": dict(
        module="YkProps.C06",
        leancheck=['YkModel.Reserve', 'YkProofs.Reserve', 'YkModel.CoreOps2', 'YkProofs.Core2Swap', 'YkProofs.Core2Repl', 'YkProofs.Core2Life', 'YkProofs.Core2LifeA', 'YkProofs.Core2LifeB', 'YkProofs.Core2LifeC', 'YkProofs.Core2LifeD', 'YkProofs.Core2LifeE', 'YkProofs.Core2LifeRun', 'YkProofs.Core2LifeEx', 'YkProps.C06'],
        runs=[dict(comp="core", quick=720, thorough=9000, extra=["-mode", "mixed"])],
        classify=cls_tagged("C06"),
        nontrivial=lambda line: '"op":"reset"' not in line,
        rule='core: random histories (30..120 operations) on a real ClusterContext driven synchronously through hooks: node create/create-drain/update/drain/undrain/decommission, application add (plain and gang, several users, static and dynamic queues, duplicate ids) / remove, asks (plain, placeholder, task groups, required node, priorities), RM-placed allocations, in-place resizes, foreign allocations add/update/remove, releases by key and of whole applications, scheduling cycles (predicate plugin denying some (ask,node) pairs, reservation delay 0, preemption on), placeholder and state timers fired explicitly, shim confirmations (PLACEHOLDER_REPLACED / TIMEOUT / PREEMPTED) delivered immediately, late, twice or never; 60% of the histories end by releasing and removing everything (drain). After every operation the complete state (nodes, queues, applications with asks/allocations, counters, user/group trackers) and the messages sent to the shim are dumped; the driver evaluates every clause on the dump, the per-step clauses against the previous dump, the shim protocol automaton on the messages, and steps the Core model from the previous dump for the modelled operations. non-trivial = not a reset line; distinct = distinct protocol lines',
        trusted=['one partition; the harness calls the handler functions of ClusterContext directly (what RMProxy/Scheduler event loops would call) from a single goroutine', 'the asynchronous terminated-application callback is awaited (settle) before the state is dumped', "scheduler decisions (which ask, which node) are taken from the core's own announcements, not predicted"],
        assumptions=[],
        level_text='Lean 4 proofs: per task group replaced + timed out (+ cancelled + pending + allocated) = count for every history of placeholder events, hence replaced <= count; the replacement guard (placeholder - real has no negative value) holds iff the real ask is no larger on every type. The swap / timeout / usage clauses are monitored on the real core after every operation (gang clauses of CoreState, conservation, node ledger) with gang-biased histories.',
        level_note='trusted: Lean kernel; hand-written models tied by correspondence / monitors on the real core only; exact arithmetic; single partition, single goroutine',
        technique='Lean 4 invariant proof over placeholder event histories + monitors on the real core',
        design_ref='DESIGN.md section 4 C06',
    ),
    "C09": dict(
        module="YkProps.C09",
        leancheck=['YkModel.Reserve', 'YkProofs.Reserve', 'YkProps.C09', 'YkModel.CoreOps2', 'YkModel.CoreRun', 'YkProofs.Core2Res', 'YkProofs.Core2ResA', 'YkProofs.Core2ResB', 'YkProofs.Core2ResC', 'YkProofs.Core2ResD', 'YkProofs.Core2ResE', 'YkProofs.Core2ResRun'],
        runs=[dict(comp="core", quick=720, thorough=9000, extra=["-mode", "mixed"])],
        classify=cls_tagged("C09"),
        nontrivial=lambda line: '"op":"reset"' not in line,
        rule='core: random histories (30..120 operations) on a real ClusterContext driven synchronously through hooks: node create/create-drain/update/drain/undrain/decommission, application add (plain and gang, several users, static and dynamic queues, duplicate ids) / remove, asks (plain, placeholder, task groups, required node, priorities), RM-placed allocations, in-place resizes, foreign allocations add/update/remove, releases by key and of whole applications, scheduling cycles (predicate plugin denying some (ask,node) pairs, reservation delay 0, preemption on), placeholder and state timers fired explicitly, shim confirmations (PLACEHOLDER_REPLACED / TIMEOUT / PREEMPTED) delivered immediately, late, twice or never; 60% of the histories end by releasing and removing everything (drain). After every operation the complete state (nodes, queues, applications with asks/allocations, counters, user/group trackers) and the messages sent to the shim are dumped; the driver evaluates every clause on the dump, the per-step clauses against the previous dump, the shim protocol automaton on the messages, and steps the Core model from the previous dump for the modelled operations. non-trivial = not a reset line; distinct = distinct protocol lines',
        trusted=['one partition; the harness calls the handler functions of ClusterContext directly (what RMProxy/Scheduler event loops would call) from a single goroutine', 'the asynchronous terminated-application callback is awaited (settle) before the state is dumped', "scheduler decisions (which ask, which node) are taken from the core's own announcements, not predicted"],
        assumptions=[],
        level_text='Lean 4 proofs over all histories of reserve/unreserve operations of the four-view machine (application, node, queue, partition counter updated as partition.reserve/unReserve do): the views always describe the same set, the counter is its size, an ask holds at most one reservation, a node at most one unless all are required-node asks, a reserved node refuses other asks, unreserve removes the reservation from every view. The same clauses (R1-R5) are evaluated on every state dumped from the real core (reservation delay 0, required-node asks, node removal, preemption).',
        level_note='trusted: Lean kernel; hand-written models tied by correspondence / monitors on the real core only; exact arithmetic; single partition, single goroutine',
        technique='Lean 4 invariant proof over a four-view reservation machine + monitors on the real core',
        design_ref='DESIGN.md section 4 C09',
    ),
    "C19": dict(
        module="YkProps.C19",
        leancheck=["YkModel.Sort", "YkProofs.Sort", "YkProofs.SortChildren", "YkProofs.SortNodes", "YkProps.C19"],
        runs=[dict(comp="sort", quick=1600, thorough=40000),
              # "iteration reflects current utilisation" under CONCURRENT notifications: the C14 final-state scenario on the real node collection
              dict(comp="lock", quick=1, thorough=1, extra=["-mode", "only:node-collection-concurrent-updates"])],
        classify=lambda v, case: [w for w in [p.split()[0] + ("-" + p.split()[1] if p.split()[0] == "diff" else "") for p in (v[4:] if v.startswith("inv ") else v).split(" ;; ") if p.split()] if w.startswith("C19.") or w.startswith("diff") or w.startswith("C14.final-state[node-collection")],
        nontrivial=lambda line: True,
        rule="sort: (queues) candidate sets of 2..6 sibling queues with many ties (priority, fair share against own guaranteed/fair max, pending) presented to the real sortQueue in two random permutations, for fair/fifo x priority on/off; "
             "(apps) 2..6 applications (ask priority, submission time, usage share; 30% with a recovered allocation of a higher priority, which must not change the key) sorted twice by the real sortApplications (its input is a Go map); (asks) histories of inserts/removes on the real sortedRequests incl. extreme int32 priorities; "
             "(nodes) histories of <=35 operations on the real NodeCollection (add/remove node incl. nodes with a gpu capacity, allocate, allocations that EXHAUST one resource type exactly — native and foreign —, release, capacity, occupied, foreign allocations, in-place resize, reserve, "
             "policy switch fair/binpacking with default or integral resource weights incl. a zero weight and a gpu weight) with both iterators read after every operation; every line carries per node capacity, allocated, occupied and available, the policy and its weights: "
             "the MODEL computes the available resource and the score (exact fraction, a missing available entry = fully used) and the driver compares the available resource, the order of the implementation's fresh scores (ranks) with the model's scores (diff nodes-score) and the iterator order with the model's scores; "
             "(children) a REAL parent queue below a root with/without max and 0..1 intermediate queues (own max sparse/absent), 2..6 real children (own max sparse incl. explicit zeros, guaranteed, allocated, pending incl. nil/empty/zero/negative, priority with offset, "
             "state Active/Draining/Stopped; priority through the real path: priority.policy default/fence and priority.offset from the edges of int32 incl. unparsable texts, leaf children with 0..3 real applications with 0..3 real asks each (ask priorities from the edges of int32, some asks removed again; in about a third of the cases applications also receive recovered / pre-placed allocations — arriving already bound to a node through RecoverAllocationAsk + AddAllocation as partition.UpdateAllocation does, before the asks or after the removals, "
             "with a priority above, equal to or below the pending asks: allocated entries are not outstanding and must not count), "
             "or children that are parent queues of 1..2 such leaf queues; the MODEL computes GetCurrentPriority from policy, offset and the ask priorities, diff children-priority) built three times (children created in two different orders, and a subset of the siblings); Queue.sortQueues() is called through VerifSortedChildren twice per tree as configured (fair, priority from "
             "application.sort.priority) and for fair/fifo x priority on/off; the line carries the real own max of every queue on the chain, per child the real keys, its GetFairMaxResource and the rank of its share; the driver compares fair max and share rank with the model "
             "(fairMaxOf, exact fractions), the offered SET always and the ORDER for every pair the own-key comparator distinguishes (pairs inside a non-weak-order tie group go to the known class). "
             "Share / score floats are reported as ranks. distinct = distinct protocol lines; every line is non-trivial (>= 2 candidates or a node history step)",
        trusted=["float-valued keys (fair share, usage share, node score) are computed by the implementation and enter the model as ranks; IEEE arithmetic is trusted "
                 "(children: the model computes the fair share itself as an exact fraction and the driver compares its ranks with the implementation's float ranks; exact for the generated quantities < 2^26; "
                 "nodes: the model computes the score as an exact fraction, the implementation's float score is compared by rank; two fractions that are equal may differ in the floats, such pairs are ordered by the implementation's rank)",
                 "sort.SliceStable is modelled as a stable insertion sort: for a strict weak order every stable sort gives the same result (checked by correspondence)",
                 "google/btree ordered-set contract"],
        assumptions=["at most two resource types of a node carry a weight other than zero (two-term float sums are order independent); node capacities and weights are positive integers (else the line is reported as unmodelled)",
                     "queue priority: one level of leaf queues below a sorted child (PrioQueue); ask priorities and offsets are int32"],
        level_text="Lean 4 proofs: a stable sort by an irreflexive transitive comparator yields an inversion-free permutation of the candidates whatever the presentation order (permutation invariance); the queue-priority and the four application comparators are strict weak orders for all keys, "
                   "the two fair queue comparators are as long as the pending tie-break is not reached, and the tie-break itself is machine-checked NOT to be a weak order (known finding); asks stay in (priority desc, creation time asc) order under insert/remove; "
                   "Queue.sortQueues (model offeredSorted: filter, parallel fair-max slice, lookup by queue, stable sort): the fair max the comparator reads for a child is fairMaxOf(ancestors' maxima, own max) whatever the siblings and positions (sharing impossible; the shared-object variant is refuted), "
                   "the result is a permutation of the not-stopped children with pending > 0, and for every sibling set every pair the own-key comparator distinguishes stands in that order (fair policies: given the pending tie-break is an order inside each equal-priority-and-share group), invariant under presentation; the priority key (priorityValue / PrioQueue.value: policy, offset, largest pending ask priority below) saturates at the int32 bounds, is monotone in offset + priority and stays in range; "
                   "the node score: a missing available entry is a fully used type, pruning is not observable, the usage is the weighted mean of the usage shares (stated over Rat), and the node order is a permutation ascending in the score with ties by node id (binpacking: descending usage). "
                   "Tie: correspondence of the model against the real sort functions on permuted presentations + the statement evaluated on the implementation's output; node iteration: visit once / unreserved view are monitors, the order is compared with the model's score.",
        level_note="trusted: Lean kernel; hand-written comparators tied by correspondence; floats enter as ranks only for cross-checks (queues/apps ops: as keys); node tree (btree) contract trusted",
        technique="Lean 4 proof (strict weak orders, stable sort permutation invariance) + differential correspondence over permuted presentations",
        design_ref="DESIGN.md section 4 C19",
    ),
    "C17": dict(
        module="YkProps.C17",
        leancheck=["YkModel.Place", "YkModel.PlaceSpec", "YkProofs.Place", "YkProps.C17"],
        runs=[dict(comp="place", quick=2400, thorough=64000)],
        classify=cls_c17,
        nontrivial=lambda line: '"op":"reset"' not in line,
        rule="place: random configurations (queue tree of depth <=3 with managed leaf/parent queues, submit/admin ACL texts incl. wildcards, group-only, empty and invalid entries, child templates (max applications, resources and 1..4 behaviour properties: application.sort.policy / sort.priority, priority.policy / offset, preemption.policy / delay, quota.preemption.delay, unschedasks backoff / delay, with valid, capitalised and bogus values), now and then a configured queue named @recovery@; "
             "0..4 placement rules provided/user/tag/fixed with parent rules up to depth 2, create flags, allow/deny filters (also Deny/DENY) with single names, single-entry regular expressions and user/group lists of 2..4 entries of which none / some / all are usable names (invalid characters, regexp-looking entries, empty strings, leading digits), fixed values that are existing leaves/parents, "
             "new names, root-prefixed names without dot, recovery queue spellings, values only the rule constructor refuses) loaded through scheduler.NewClusterContext "
             "(configurations the validator rejects are counted and skipped); per configuration 6..19 operations: application submissions through ClusterContext.handleRMUpdateApplicationEvent (users incl. names with dots and '$', 1..3 groups, "
             "requested queue: empty, existing leaf/parent in several capitalisations, unqualified, new below leaf/parent, recovery queue spellings, empty parts, invalid characters, 64/65 character parts; namespace/team tags; force-create tag), "
             "MarkQueueForRemoval of managed queues (draining), configuration reloads with the same queues and a new rule list (UpdateRMSchedulerConfig -> UpdateRules), direct security.NewACL/CheckAccess cases. Every submission line carries the RM answer, the application's queue, the recursive CheckSubmitAccess answer of every queue for the user before the submission, "
             "the regexp oracle and the whole queue tree afterwards (per queue: leaf, managed, draining, template text and template properties, applied template-controlled settings, and the EFFECTIVE settings UpdateQueueProperties derived: sorting policy, priority sort / fence / offset, preemption policy / delay, quota preemption delay, ask backoff / delay); the driver compares all of it with the model and evaluates the property clauses on the implementation's answer. non-trivial = not a reset line; distinct = distinct protocol lines",
        trusted=["regular expressions of filters are opaque: the harness reports regexp.MatchString for every (pattern, user/group name) pair of the case; whether an entry is a regexp (configs.SpecialRegExp) is modelled",
                 "names are ASCII (strings.ToLower / EqualFold are modelled by ASCII case folding); a dotted queue name is modelled by the list of its parts",
                 "ACL texts of managed queues are taken from the generated configuration (the queue DAO does not expose them); the recursive CheckSubmitAccess answer of every real queue is compared with the model for every submitting user",
                 "child templates and the settings they copy are compared as canonical text (max applications, properties, guaranteed and max resource of the queue DAO), the derived effective settings field by field against Yk.Reload.deriveSettings (the derivation of the C16 model; durations without fractions); application tags that set quotas on dynamic queues are not generated"],
        assumptions=["one partition; the user/group resolver is not used (every request carries its groups)", "rule chains are those the rule constructors accept (Rule.wf: fixed values with valid parts, no parent below a qualified fixed rule, tag name set)"],
        level_text="Lean 4 proofs over the executable model of NewACL/CheckAccess, the filters, the five rule types with parent rules, PlaceApplication and AddApplication/createQueue, for ALL queue trees, rule chains, ACLs, oracles and applications: "
                   "an accepted application is in a leaf queue that was an active leaf if it existed; the queue is the one designated by the first rule in configured order whose result passes the checks (every earlier rule yields nothing or a queue that fails them); "
                   "outside forced recovery some existing queue on the path admits the user through its submit or admin ACL; queues are created only for a rule with create enabled (or the recovery rule of a forced application), with valid name parts, below a non-leaf queue, "
                   "a new leaf carrying that queue's child template, in its copied settings and in the effective settings derived from the template's properties (created_queue_settings; clause C17.C2); no matching rule means rejection with the no-rule reason; only a force-created application ends in the recovery queue and no call creates a queue at or below the recovery queue path other than that leaf (recovery_path_protected); placement never panics on a tree with a root queue (every rule result starts with the part root); "
                   "a filter is evaluated as configured whatever the capitalisation of its type. The one remaining exception — a forced application taken by a draining configured recovery queue — is stated in the theorem and shown by a witness (known finding C17.L3). "
                   "Tie: differential correspondence of the model against the real ClusterContext plus the same clauses evaluated on the implementation's answers.",
        level_note="trusted: Lean kernel; hand-written placement model tied by correspondence only; regexps as an oracle; ASCII names; ACL texts from the generated configuration",
        technique="Lean 4 proof over an executable model of the placement path + differential correspondence on a real ClusterContext",
        design_ref="DESIGN.md section 4 C17",
    ),
    "C07": dict(
        module="YkProps.C07",
        leancheck=["YkModel.Preempt", "YkProofs.Preempt", "YkProps.C07"],
        runs=[dict(comp="preempt", quick=2000, thorough=24000)],
        classify=cls_preempt("C07"),
        nontrivial=lambda line: '"op":"reset"' not in line,
        rule=PREEMPT_RULE + ". Every TryPreemption case that passes the preconditions is first run undisturbed without being recorded; then (always when it marked victims - twice when it marked several - otherwise with 30%; 15-20% of all try lines) "
             "it is repeated with 1..2 allocations released (SetReleased(true)) AFTER the victim snapshots were taken (hook VerifInitQueueSnapshots) and BEFORE TryPreemption marks its final victims - keys drawn from the final victims of the undisturbed run in any position, "
             "now and then a potential victim that was not chosen or any allocation - and the flags of every allocation (preempted, released), the ask's allocation log and triggered flag and every queue's preempting resource after the attempt are compared with the modelled marking loop (rollback: abandoned, nothing left marked, 'victims released' logged)",
        trusted=PREEMPT_TRUSTED,
        assumptions=["queue tree well-formed (parents before children); allocation keys unique; victim resources non-negative"],
        level_text="Lean 4 proofs for all worlds: every potential victim found by the model of findEligiblePreemptionVictims is a bound allocation, not released, not preempted, without required node, in a different leaf inside the asker's fence whose policy is not disabled, shares a type with the ask and does not outrank the ask along the tree path unless a priority fence applies; CheckPreconditions, required-node and quota filters; TryPreemption commits a duplicate-free sub-list of the potential victims. "
                   "Tie: correspondence of the model against the real functions on generated worlds + the clauses C07.* evaluated on what the implementation did.",
        level_note="trusted: Lean kernel; hand-written model tied by correspondence only; exact arithmetic; effective max / queue properties and float-valued quota shares read from the implementation; no reservations on nodes",
        technique="Lean 4 proofs over a model of the preemption code + differential correspondence on the real objects",
        design_ref="DESIGN.md section 4 C07",
    ),
    "C08": dict(
        module="YkProps.C08",
        leancheck=["YkModel.Preempt", "YkProofs.Preempt", "YkProps.C08"],
        runs=[dict(comp="preempt", quick=2000, thorough=24000)],
        classify=cls_preempt("C08"),
        nontrivial=lambda line: '"op":"reset"' not in line,
        rule=PREEMPT_RULE + ". Every quota operation is also run step by step without being recorded (hook VerifTryQuotaPreemptionSyncStepped: filterAllocations, sortAllocations, then preemptVictims per leaf queue); when it marked victims it is repeated (twice when it marked several, otherwise with 30% on the candidates) "
             "with 1..2 of ITS victims - now and then also a candidate that was not selected - released (SetReleased(true)) AFTER the filtering of their leaf queue listed them and BEFORE the victims are marked; the filtered, sorted candidates per leaf are recorded, "
             "the model computes selection, marking (released victims skipped) and the preempting resource of every queue, and the flags of every allocation, the announcements and every queue's preempting resource are compared (clause C08.Q3-preempting-equals-marked)",
        trusted=PREEMPT_TRUSTED,
        assumptions=["queue tree well-formed (parents before children); allocation keys unique; victim resources non-negative"],
        level_text="Lean 4 proofs for all worlds: a negative remaining-guaranteed entry is witnessed by a queue of the path that is above its guaranteed share; a leaf within its guarantee offers no victims and — full strength, every well-formed world — a leaf offers victims only if a queue of its path is above its guaranteed share whenever its private path sets a guarantee (a private guarantee is never ignored); every victim is taken in a what-if state where that holds for a type the ask needs; no guarantee on the ask path means no attempt; "
                   "quota preemption plans no more than the excess over the lowered maximum, gives a child no share of a type on which it is at or below its guarantee, and never claims more than planned for any candidate order; "
                   "the statement 'a commit covers the ask' is kept in full, REFUTED by a machine-checked witness (known finding) and proved for single-type asks. "
                   "Tie: correspondence of the model against the real functions + the clauses C08.* evaluated on what the implementation did.",
        level_note="trusted: Lean kernel; hand-written model tied by correspondence only; exact arithmetic; float-valued quota shares read from the implementation; no reservations on nodes",
        technique="Lean 4 proofs over a model of the preemption code + refutation witness + differential correspondence on the real objects",
        design_ref="DESIGN.md section 4 C08",
    ),
    "C05": dict(
        module="YkProps.C05",
        leancheck=["YkModel.Ugm", "YkProofs.Ugm", "YkProofs.UgmAcct", "YkProofs.UgmCfg", "YkProofs.UgmLoad", "YkProofs.UgmMgr", "YkProofs.UgmMAcct", "YkProofs.UgmGAcct", "YkProofs.UgmGLoad", "YkProofs.UgmReload", "YkProofs.UgmReload2", "YkProofs.UgmReload3", "YkProofs.UgmReload4", "YkProofs.UgmReload5", "YkProps.C05"],
        runs=[dict(comp="ugm", quick=1600, thorough=48000), dict(comp="core", quick=720, thorough=9000, extra=["-mode", "mixed"])],
        classify=cls_ugm,
        nontrivial=lambda line: '"op":"reset"' not in line,
        rule="ugm: random cases on the real ugm.Manager singleton (reset with ClearUserTrackers/ClearGroupTrackers/ClearConfigLimits): queue universe root, root.a, root.a.b, root.c; "
             "users u1..u3 (+ '*'), groups g1..g3 (+ '*'), each user with a fixed ordered group list; 3..6 applications; limit layouts (named users/groups split over 1-2 entries, wildcard user / wildcard group entries, "
             "max resources over {cpu,mem} and/or max applications, values shrinking with the depth) generated until configs.Validate accepts them; per case up to 5 Manager.UpdateConfig calls with freshly drawn layouts "
             "plus up to 4 TARGETED reloads whose only change is in the NAMED user (30%: group) limits of one queue that also carries a wildcard user (group) limit - a name dropped (fall back to the wildcard), a name added (leaves the wildcard) or the values of a named entry changed, "
             "preferring principals that hold allocations there - while the wildcard entry and everything else stay byte-identical (stats reload:named-{drop,add,change}[:busy]-beside-same-wildcard:{user,group}, several hundred of each per quick run); in half of the cases the first configuration is forced to give "
             "the queue of one application a named limit for its user (and one of its groups) beside a wildcard limit and the application gets an allocation at once, so that its trackers exist when the named limit goes; all interleaved with 10..35 of: "
             "sched (CanRunApp for an application that holds nothing, Headroom, FitInMaxUndef, IncreaseTrackedResource - what Queue.TryAllocate/Application.tryAllocate do), Headroom, CanRunApp, forced IncreaseTrackedResource, "
             "DecreaseTrackedResource of a live allocation (removeApp with the last one), a few off-contract releases. After every operation the complete manager state (every queue tracker of every user and group tracker incl. useWildCard, "
             "application->group links, the limit maps of the active configuration; cross-checked against GetResourceUsageDAOInfo) is dumped; the driver steps the model from the previous dumped state (all orders of the map iterations of "
             "clearEarlierSetLimits), compares answer and state, and evaluates the clauses enforce-res/enforce-apps, usage-ne-sum/apps-ne-live (against a ledger of live allocations), group-changed, limits.* (limit in force vs limit configured "
             "for every user/group x queue; a difference is attributed to a known class only when a reload of the case met the documented precondition of that class - F17 stale-wildcard: a queue lost its wildcard limit beside users named before and after, and the latest configuration sets no wildcard there; "
             "F18 named-lost / group-lost: a limit dropped above a kept one - otherwise it is reported as named-not-in-force / wildcard-differs / wildcard-kept / wildcard-not-applied / group-not-in-force). Every case is re-executed twice to detect dependence on Go's map order. non-trivial = not a reset line; distinct = distinct protocol lines",
        trusted=["exact integer arithmetic in the tracker model (no quantity saturates; C18 owns saturation)",
                 "queue paths start with the root queue; resource vectors are Go maps (unique keys)",
                 "Go map iteration: the model iterates in list order; for the one order-sensitive loop (clearEarlierSetGroupLimits/UserLimits) the driver accepts the outcome of any order and reports the dependence",
                 "locks of Manager/UserTracker/GroupTracker (single goroutine in the harness); ugm events are not modelled",
                 "the caller side (Application.incUserResourceUsage/decUserResourceUsage, Queue.TryAllocate) is covered by the full-stack check (clauses I12/C05.usage-ne-sum of the core component)"],
        assumptions=["callers meet the contract histOk of YkModel/Ugm.lean: a release is for a live allocation, removeApp comes with the last allocation of the application (as application.go does)",
                     "configurations passed to UpdateConfig passed configs.Validate"],
        level_text="Lean 4 proofs over the model of pkg/scheduler/ugm (queue-tracker tree, user/group trackers, manager, UpdateConfig with its five phases as written): "
                   "(enforcement) for every manager state: if an ask fits (FitInMaxUndef) in what Manager.Headroom answered, then after IncreaseTrackedResource every queue tracker on the path of the USER's tree and of the resolved GROUP's tree is within its maximum on every type of the ask the maximum defines, provided it was before (tree-level lemma for any answer not larger than the headroom of the walk); "
                   "Manager.CanRunApp = true admits at most max-applications on every tracker of both trees; "
                   "(accounting) for EVERY history of manager operations under the callers' contract - Headroom, CanRunApp, Increase, Decrease (incl. removeApp and the removal of emptied trackers) and configuration reloads (limit changes, unlinks, tracker removal) - the usage a user tracker holds = sum of the user's live allocations per queue and type; the same invariant for any single tracker tree; a release after the increase restores; "
                   "the application->group link of a running application survives Headroom/CanRunApp/Increase/Decrease; "
                   "group accounting at the manager: for every history WITHOUT reloads after the first load of a validated configuration (Headroom, CanRunApp, Increase, Decrease incl. removeApp; links as ensureGroupInternal resolves them; application ids unique) a group tracker's usage = sum of the live allocations of the applications linked to it, every link has a tracker, configured group trackers are never removed (refuted across reloads: known finding); "
                   "(limits follow configuration) proved for every first configuration loaded into an empty manager (users: named, else wildcard, else none; groups), and for EVERY reload of a manager whose trackers are in step with its configuration (Synced; preserved by the reload, so the statement chains) under decidable hypotheses on (active maps, new configuration): no queue loses its wildcard limit while users are named on it in both configurations (F17), nobody loses the limit of a queue and keeps one in its subtree (F18 / group-lost), at most one dropped queue per user/group, validated configuration - each F-hypothesis shown necessary by a witness that violates only it; the driver checks on the real manager that no limit is off while every reload of a case met the hypotheses (clause C05.reload-partial-violated); "
                   "the unrestricted statement is machine-refuted by witnesses (stale wildcard limit, lost named limit, lost group limit), as are group accounting across reloads and the determinism of a reload (Go map order) - known findings, replayed on the real manager from corpus/C05; a small-scope search of the model (tools/ugm_search.lean: <=3 paths, principals {a,b,*}, <=3 reloads, ~3.6 million histories) finds no further class and no violation outside the two confirmed mechanisms. "
                   "Tie: differential correspondence of the model against the real ugm.Manager (answers + complete state after every operation) and the property clauses evaluated on the implementation's state.",
        level_note="trusted: Lean kernel; hand-written Ugm model tied by correspondence only; exact arithmetic; queue paths start at the root; group accounting is proved per tracker tree only for histories without resetGroupEarlierUsage (refuted across reloads: known finding)",
        technique="Lean 4 proofs (fold invariants over the tracker tree and over UpdateConfig) + machine-checked refutations + differential correspondence on ugm.Manager",
        design_ref="DESIGN.md section 4 C05",
    ),
    "C15": dict(
        module="YkProps.C15",
        leancheck=["YkModel.Conf", "YkModel.ConfSpec", "YkProofs.Conf", "YkProofs.ConfLimits", "YkProofs.ConfMain", "YkProofs.ConfOrder", "YkProofs.ConfRules", "YkProofs.ConfPerm", "YkProps.C15"],
        runs=[dict(comp="conf", quick=4000, thorough=80000)],
        classify=cls_conf,
        nontrivial=lambda line: '"decodeErr"' not in line,
        rule="conf: YAML documents generated as trees (1-2 partitions; a root or several top level queues, depth <= 4, <= 3 children per queue; sparse max/guaranteed maps over 4 resource types "
             "written with unit suffixes, white space, bad and overflowing quantities; maxapplications; 1-3 limit entries per queue with named and wildcard users and groups, mostly consistent with what "
             "was inherited, in a quarter of the documents consistent only with what the validator compares; child templates; properties; ACL strings incl. leading/trailing/double spaces and tabs; "
             "0-3 placement rules with chains of depth <= 3 over fixed/user/tag/provided/test/recovery/unknown/upper-case names, existing, missing, qualified, mis-cased and malformed values, filters; "
             "node sort policy and weights); about 15% of the documents (generator_distribution focus:ladder, ladder:*) are limit ladders: a chain of 3 or 4 queue levels with side leaves and entries for the "
             "same named user / named group / user wildcard / group wildcard / named user or group below wildcard entries on most levels, the levels naming different, partly overlapping sets of resource "
             "types (memory only / vcore only / both / gpu / pods), values drawn below, equal to and above what ALL the levels above hand down (union of the types, smallest value), so that a third of them "
             "is rejected by a comparison across a level that does not name the type. Each document is decoded (strict) and dumped for the model, validated by the real configs.LoadSchedulerConfigFromByteArray, re-validated under 4 (quick) / 8 "
             "(thorough) re-orderings of every YAML mapping, and, if accepted, loaded with scheduler.NewClusterContext, two applications are placed with PartitionContext.AddApplication, and the document "
             "is loaded into a running context with ClusterContext.UpdateRMSchedulerConfig. non-trivial = the document decodes; distinct = distinct protocol lines",
        trusted=["YAML decoding (yaml.v3 with KnownFields) is glue: the model starts from the decoded SchedulerConfig, dumped with nil and empty kept apart",
                 "regexp.Compile on a single-entry placement filter list enters the model as a boolean (RE2 syntax is not modelled); the five validation regular expressions are hand-written recognisers "
                 "whose literals are tied to the source by the translator (T5, Generated/ConfConsts.lean)",
                 "strings.ToLower on ASCII only (identifiers with upper-case non-ASCII letters are outside the generator)",
                 "resource weights enter the model by their sign",
                 "load model: only the failure points of NewConfiguredQueue/applyConf/NewACL/template.FromConf/newRule/ugm.UpdateConfig, tied by correspondence; queue objects, properties and user/group "
                 "trackers built by a load are not modelled (C16/C05)"],
        assumptions=["resource maps of the configuration have unique keys (they are Go maps)"],
        level_text="Lean 4 proofs by structural induction over the configuration tree (all trees, all sparse resource maps with units, all limit lists, all rule lists): whatever the model validator (a statement-by-statement mirror of "
                   "configvalidator.go) accepts has a single root without resources, valid sibling-unique queue names, every maximum within the maximum of EVERY ancestor on the types both define, guaranteed within "
                   "the own and every ancestor's maximum, children's guaranteed sums within the parent's guaranteed and within every maximum above (exact below MaxInt64; the saturating sum is modelled), max-applications set and "
                   "non-increasing below a queue that sets it, limits within the queue maximum / application count and within every entry of the same name on every ancestor (wildcard entries when no ancestor names the user or group); "
                   "every resource map validation parsed parses again at load time, so a load can only fail for the root name, an ACL, a child template or a placement rule, and succeeds under the hypotheses excluding these; "
                   "a single canonical-spelling fixed rule that was accepted resolves at run time; validate gives the same verdict and the same error class for any two configurations that differ only in the order of the entries of their map-typed fields (resource maps of queues, limits and templates, properties, weights; unique keys), for every family of permutations — only the message of a rejected resource map follows the walk order when two entries offend (machine-checked witness; same on the real validator). "
                   "The unrestricted loadability statement, 'placement rules resolvable' and the stricter readings of the limit rules are refuted by machine-checked accepted configurations (known findings). "
                   "Tie: correspondence of model and real validator (verdict, error class, rewritten tree, under re-ordered mappings), of the load predicates with NewClusterContext / UpdateRMSchedulerConfig, of the static-rule "
                   "clause with PartitionContext.AddApplication, and every proved clause evaluated on every accepted tree; the five regular expression literals and the rule / policy names are re-extracted from the source on every run (T5).",
        level_note="trusted: Lean kernel; hand-written validator model tied by correspondence and by T5 for the literals; YAML decoding; regexp compilation as an input bit; load side modelled at its failure points only",
        technique="Lean 4 proof (structural induction over configuration trees) + differential correspondence on the real validator and loader",
        design_ref="DESIGN.md section 4 C15",
    ),
    "C12": dict(
        module="YkProps.C12",
        leancheck=["YkModel.CoreState", "YkModel.CoreOps", "YkModel.Recover", "YkProofs.Core", "YkProofs.Recover", "YkProps.C12"],
        runs=[dict(comp="recover", quick=500, thorough=10000)],
        classify=cls_c12,
        nontrivial=lambda line: '"op":"reset"' in line and '"kind":"alloc"' in line,
        rule="recover: a generated full-stack history (general / gang / preemption generators of the core component, 4..113 operations or to its end; most histories also stop with some probability "
             "right after the core announced a release that needs the shim's confirmation: placeholder replacement in flight, placeholder timeout, preemption) runs on a real ClusterContext A. A recorder keeps what the SHIM knows, built only from "
             "the requests it sent and the messages the core sent: registered nodes with latest capacity and drain state, accepted and not removed applications with their submission, allocations announced by the core or placed by the shim and not released, "
             "foreign allocations, outstanding asks, releases announced but not confirmed. A is stopped; the book is replayed on a FRESH ClusterContext B in one of four orders (k8shim: nodes, applications, allocations, foreign, asks; "
             "per application; random order respecting node/application before allocation; 6%: any order), in 40% of the histories half of the bound pods are first replayed as outstanding asks and reported as bound later in the replay "
             "(the 'ask -> allocation' transition branch of UpdateAllocation), 45% of these asks with ANOTHER size than the bind that follows (larger, smaller, other types: resource change of a pending ask and transition in one update), force-create on all applications or only on those with a bound allocation, nodes registered directly or draining and enabled afterwards, "
             "pods under deletion replayed or already gone, with B's configuration = A's (35%), tighter quotas on every queue plus a wildcard user limit, quota preemption enabled with a quota.preemption.delay on the first-level queues (inherited) or on the leaves and maxima of {1,1} "
             "(the first replayed allocation arms the timer inside the unchecked Queue.IncAllocatedResource) or {3..10} (a later allocation, an RM placement or a resize arms it), a queue subtree removed with and without queue creation by the rules, fair-sorted leaves. "
             "One line carries the dump of A, B's queue tree before the replay, every replayed item with B's answer and the application's placement, and the dump of B; 8..21 operations on B follow: scheduling cycles, new asks, "
             "RM placement of outstanding asks (the shim reports the ask as bound on a node of its choice, 40% with a size different from the ask the core holds), in-place resizes up and down of bound allocations (and of asks), releases, node decommission, drain/undrain, confirmations. "
             "The driver replays the items on the model and compares answers and all ledgers with B, evaluates acceptance, B's books, B's totals against the accepted items and A against B object by object, and after every following operation the capacity/quota/accounting clauses of the full-stack driver (C01 node ledger and bind guards, C02, C03 I1-I11 incl. every queue level, C05). "
             "non-trivial = a recovery line that replays at least one bound allocation; distinct = distinct protocol lines",
        trusted=["one partition, one goroutine; the harness calls the handler functions of ClusterContext directly; core A is stopped (ClusterContext.Stop) before core B is created in the same process (the user/group manager is a process-wide singleton and is cleared, as a restart does)",
                 "the shim is the simulated shim of the full-stack harness: it does not react to application state updates (a real shim deletes placeholder pods of a Resuming application); its book is the source of the replay",
                 "placement and queue creation of the restarted core are taken from the implementation (the queue each application landed in; C17 owns placement): the model starts from B's queue tree",
                 "exact integer arithmetic (no quantity saturates)"],
        assumptions=["allocation keys are unique across applications and foreign pods (pod UIDs); node and application ids are unique",
                     "replay order: a node before the allocations / foreign pods on it, an application before its allocations and asks (what the k8shim guarantees: nodes are registered and accepted first, a task is only sent once its application was accepted); other orders are run too and must be refused consistently by model and implementation",
                     "A against B is compared where the shim held exactly what A held (no pod already gone, nothing rejected because the order was illegal or the application was not forced) and A's own books are balanced"],
        level_text="Lean 4 proofs over the replay model (nodes, applications after placement, the 'new allocation already assigned' branch of UpdateAllocation, foreign allocations, asks — built from the CoreOps operations) for ALL queue trees, snapshots and replay orders: "
                   "the rebuilt state has balanced books (application = sum of its items, queue = sum of the applications at or below it, node ledger); every per-application and per-node total of the rebuilt state is the total recomputed from the accepted items and does not depend on the order; "
                   "a replay whose item list satisfies the order condition alone (every id / key used once, a node before the allocations and foreign pods on it, an application before its allocations and asks, positive resources, applications placed in a leaf, force-created or without task-group request) is accepted completely whatever the queue maxima, node capacities or user limits are (no such quantity occurs in the hypotheses); "
                   "and therefore an old core with balanced books (C03) and the restarted core agree on every per-application, per-queue and (given the node view I7/I8 of C03) per-node allocated and pending total, up to placeholder replacements in flight, which are stated exactly (old pending + in flight = new pending; old node allocated = new + in flight). A key replayed as an ask and reported as bound later, also with another size (resource change of the pending ask: application and queue pending move by the delta, nothing on a node; then the transition with the new size), keeps the books of every well-formed state: the node books the new size once. A force-created application with a new id whose queue exists as a leaf is accepted whatever its task-group request, the queue maxima and the sort policy are (full strength since fix 70f7a44; the former refutation witnesses are regression examples and corpus inputs). "
                   "Tie: two-execution differential correspondence of the replay model against a real restarted ClusterContext plus the same clauses evaluated on the implementation's dumps.",
        level_note="trusted: Lean kernel; hand-written replay model tied by correspondence only; placement taken from the implementation; simulated shim; exact arithmetic; single partition, single goroutine; user trackers are checked by monitors (usage = sum of the user's applications), not stepped by the model",
        technique="Lean 4 invariant proof over a replay model (induction over the replayed items, order independence) + two-execution differential correspondence on real ClusterContexts",
        design_ref="DESIGN.md section 4 C12",
    ),
    "C13": dict(
        module="YkProps.C13",
        leancheck=["YkModel.SiReq", "YkProofs.SiReq", "YkProps.C13"],
        runs=[dict(comp="mal", quick=2000, thorough=16000)],
        classify=cls_c13,
        nontrivial=lambda line: '"op":"si"' in line,
        rule="3 % of the injected requests are configuration updates that carry the configuration in force under the registered, an empty or an unknown policy group (guarded hook VerifConfigUpdateFor: the event the RM proxy hands on): no panic, no hang, nothing changes; mal: raw si.AllocationRequest / si.ApplicationRequest / si.NodeRequest messages injected after ~30% of the operations of the mostly-valid full-stack histories (general, gang and preemption generators of the core component), "
             "sent through rmproxy.RMProxy.UpdateAllocation/UpdateApplication/UpdateNode into the real ClusterContext handlers: allocations (new / pending / bound / placeholder / swapping placeholder / in-flight real / released / foreign / empty keys; "
             "live, unknown, empty, terminated and removed applications; known, unknown, removed and empty node ids; ResourcePerAlloc unset, empty, zero, negative, mixed sign, zero-and-positive, int64 extremes, odd type names; tags unset / empty / invalid creation time / "
             "foreign tag with every value / required node; placeholder with and without task group; PreemptionPolicy unset; int32 extreme priorities), releases (every TerminationType incl. out-of-range numbers on every kind of key, release-all, foreign, unknown), "
             "applications (new / duplicate / empty / terminated / removed ids, odd queue names, Ugi unset / empty user / no groups / invalid names, tags unset / force-create / quota and max-apps tags with garbage, negative and huge timeouts, placeholder ask of every shape, any style), "
             "removals of live / unknown / empty / terminated ids, nodes (every action number incl. unknown ones on known / unknown / empty / removed / new ids, attributes unset / empty / without partition, capacity of every shape), "
             "every partition spelling (empty, short, normalised, other partition, other RM, garbage) and unknown RM ids; 1-3 items per request (80% single), never a nil list element or nil map value. Items of the known gap classes and quantities near the int64 range are confined to 35% of the histories. "
             "Around each request: recover(), 10 s hang timeout with goroutine dump, answers with rejection reasons, full ledger dump. non-trivial = an injected request line; distinct = distinct protocol lines",
        trusted=["one partition, one registered RM; the RM proxy is called directly (no gRPC layer) and its scheduler-side handler calls the ClusterContext handlers synchronously on the calling goroutine (what the scheduler event loop does)",
                 "placement (rules, ACLs, queue creation, queue checks) is an oracle of the model: the driver takes the implementation's own placement answer (property C17 models it); the user name regular expression is re-implemented in the driver",
                 "accepted items are followed by the stepped model only on the paths CoreOps covers (new ask, foreign add/remove, simple release, node create/update/drain); other accepted paths are judged by the answers and the state clauses only",
                 "exact integer arithmetic: after a quantity near the int64 range entered a history the exact-arithmetic clauses are muted for that history (saturation is property C18)",
                 "nil list elements and nil map values are excluded by the property and never generated"],
        assumptions=["requests reach the core through RMProxy (partition names normalised, node attribute map present)"],
        level_text="Lean 4 proofs over an executable model of the validation / decision layer (RM proxy checks, NewAllocationFromSI, UpdateAllocation, handleForeignAllocation, removeAllocation, ConvertUGI(force), AddApplication up to placement, removeApplication, addNode, updateNode) written path by path with sub-messages as Option and unchecked dereferences as Except Panic, "
                   "for ALL states and ALL items: no item panics; every item is accepted, rejected with the protocol's message or silently ignored; an item the property calls invalid (specification written from the property text) is refused with the ledgers unchanged and with the rejection message where the protocol has one — proved outside the listed gap classes, "
                   "and machine-checked to FAIL with a concrete witness inside each gap class (known findings); a valid item is never refused. Tie: differential correspondence of the classification (answers with reasons, state unchanged / stepped state) against the real core behind the real RM proxy, plus the property's statement and every ledger clause evaluated on what the implementation did.",
        level_note="trusted: Lean kernel; hand-written model tied by correspondence only; placement is an oracle; accepted paths outside the stepped model are monitored, not predicted; panics on paths the model abstracts (logging, metrics, events) are seen only by the correspondence",
        technique="Lean 4 proof over an executable model of the request validation layer + differential correspondence and monitors on the real core behind the real RM proxy",
        design_ref="DESIGN.md section 4 C13",
    ),
    "C16": dict(
        module="YkProps.C16",
        leancheck=["YkModel.Reload", "YkModel.ReloadPlace", "YkProofs.Reload", "YkProofs.ReloadMark", "YkProofs.ReloadParts", "YkProofs.ReloadPlace", "YkProofs.ReloadFlip", "YkProps.C16"],
        runs=[dict(comp="reload", quick=6400, thorough=160000)],
        classify=cls_c16,
        nontrivial=lambda line: '"op":"reset"' not in line,
        rule="reload: histories (n/20 of them) on a real ClusterContext driven synchronously through hooks: a generated configuration (root -> a, b{b1,b2}, c, d, default (55%: the queue the placement manager falls back to), e{e1{e11}} with sparse max / guaranteed / maxapplications, "
             "properties from the nine interpreted keys with valid and invalid values, child templates, user/group limits, node sort policy (type and resource weights), preemption and quota preemption flags, sometimes a second partition) is loaded, then 25..70 operations: "
             "nodes, applications in configured and dynamic queues (also submitted to draining queues, parents, missing queues), asks, scheduling cycles (reservation delay 0), releases, removals, the partition manager's queue cleaner (hook), "
             "a drain scenario (4% of the operations): a configured leaf below root that holds an application (one is submitted first if needed; root.default preferred) is dropped by an update whose rule list is one of seven in which the deciding rule comes last "
             "(none = implicit provided; provided; user+provided; provided+fixed(<the dropped leaf>, create); provided(create); tag(namespace)+provided; tag(namespace)), then 2..4 submissions that end up at the draining leaf: naming it qualified / unqualified, through the tag, "
             "naming a missing queue / no queue / a parent so that NO rule places them and the fall-back to root.default inside the iteration of the last (recovery) rule decides; every app-add line records the answer (accepted into which queue / rejected with which text) and every dump the state of every queue and the rule list in force (read back from the rule DAOs), "
             "a liveness probe after 40% of the updates (a node with room for everything is registered, every live application gets one small ask, scheduling cycles run to quiescence, the line records which probe asks were allocated and, for the others, whether run gates / back-off / queue headroom / user headroom / node room stand in the way; asks and node are removed again), "
             "a flip scenario (4% of the operations): a configured parent with one or two configured leaf children (an update adds root.team{batch[,adhoc]} first when there is none) gets applications into each child with probability 1/2 and is then turned into a LEAF by an update (no queues below it, parent flag not set; five rule lists: none, provided, provided(create), tag(namespace)+provided, user+provided(create)), "
             "followed by 2..4 submissions that name an old child (qualified, through the tag), a new queue below an old child, or the new leaf: the old children must be Draining (model: the recursion of updateQueues into the queue with the empty child list marks them — diff reload.state / reload.walk, clause C16.M1) and refuse (diff reload.place, C16.D2; clause C16.D3 = the recorded answer put the application into a managed queue that is not Draining and that the configuration in force does not name). "
             "The known classes C16.F1/F2 are only the two clauses about the flip itself (applications left in a queue that became a parent; child queues left below a queue that became a leaf, incl. the starved probe asks of exactly those applications): every other clause and every diff on the same or a later line is judged on its own, "
             "and configuration updates (25%) through the RM event path (checksum short-cut) or UpdateRMSchedulerConfig: 1..3 mutations of the configuration in force (add leaf / parent, drop a subtree, re-add a dropped subtree, leaf->parent, parent->leaf, "
             "resources, maxapplications, properties, child template, limits, partition settings and placement rules, add a partition), the identical text, a comment-only change, configurations the validator refuses (6 kinds), "
             "configurations the validator accepts and the loader refuses (template quantity, ACL text, top queue name, unknown rule) in the first or in the second partition, and (9% of the updates) updates rejected LATE: a rule list that passes the validator (rule names are only checked to be identifiers; "
             "the dry run swallows the placement manager's error) and is refused by AppPlacementManager.UpdateRules (providedd, foo after provided, unknown parent rule fixedd, tag / fixed without value, Provided_1, … — each candidate is kept only if the real validator accepts and the real UpdateRules refuses it) "
             "while the SAME configuration always changes the node sorting policy (type flip and/or new resource weights) and at random the preemption / quota preemption flags, the limits of root and 0..2 queue mutations. Every line carries the complete dump of the core (user/group trackers with their limits included) plus per partition the "
             "queue tree with all configuration-derived fields and the partition settings as fields (node sorting policy type, resource weights, preemption flags, placement rule names and rule DAOs); update lines also the annotated configuration and the fresh load the real code builds for it (its dry-run partition). The driver steps the model from the implementation's previous state, "
             "compares answer and state (settings field by field: a rejected update must leave the node sorting policy, flags and rules as they were — diff reload.state / clause C16.A0), compares the model's fresh load with the real one, replays every submission on the placement model of C17 (YkModel/Place.lean: whole rule chain incl. recovery rule and root.default fall-back) "
             "over the dumped tree with the rule list in force (ACLs as every generated configuration has them: root open with submitacl *, none elsewhere; rules with filters are not generated and would be skipped; diff reload.place; clause C16.D2 = the recorded answer put the application into a queue that was Draining, next to C16.D1 = a draining queue's application list grew), and evaluates the property clauses on the dumps. non-trivial = not a reset line; distinct = distinct protocol lines",
        trusted=["resource quantities, ACL texts and template texts enter the model as the real parsers read them (flags: which step of applyConf refuses the entry); the validator's verdict is an input (C15 owns the validator)",
                 "ACLs are not part of the modelled queue state (C17 owns them); user/group limits are an opaque text handed to the user manager (C05 owns the trackers): only the usage booked for users and groups is compared across a reload",
                 "durations in property values: integer groups <digits><unit> only (no fractions are generated)",
                 "queue names are ASCII; one RM; a reload that drops a partition is not modelled (it does not return: clause C16.P1, corpus witness)",
                 "quota preemption start times, metrics and events are not observed"],
        assumptions=["configuration lists are well-formed (confWF: distinct paths, parent entries of parent type first) — what flattening a validated configuration tree in pre-order gives; the driver checks it on every line",
                     "tree well-formedness used by the marking theorems (parents first and present, distinct non-empty paths, W0 = nothing managed below an unmanaged queue, parents named by path): proved invariant for every modelled operation (w0_reachable) and checked on every dumped tree (clauses C16.W0/W1/W2)"],
        level_text="Lean 4 proofs over the executable model of processRMConfigUpdateEvent / updateSchedulerConfig / updatePartitionDetails / updateQueues / applyConf / NewConfiguredQueue / cleanQueues for ALL queue trees and ALL configuration lists: "
                   "the dry run is a sufficient guard (a fresh load that goes through means the update walk goes through on every tree: no error exit after the first change), so a single-partition update answered with an error changed nothing "
                   "(the unrestricted clause is machine-checked to FAIL for two partitions: known finding A1); validator refusals and the identical text are no-ops; whatever the walk does, every queue keeps its allocated / pending / preempting totals, "
                   "applications, reservations and counters and new queues start empty; after an accepted update every configured queue is present, managed, active (reactivated) and of the configured type, every other managed queue is no longer active, "
                   "dynamic queues are untouched; REFINEMENT: every configured queue carries the configuration-derived fields (limits, effective properties incl. inherited ones and what is derived from them, child template) of a FRESH load of the same configuration, "
                   "inherited child templates and the maxapplications of the top queue included, proved at full strength for every configuration without a queue NAMED root below the top queue, under an explicit hypothesis otherwise and machine-checked to FAIL without it (resources of a queue named root: known finding L2); the fresh load carries exactly what each entry says, inheritance key by key (own value, else the filtered parent value); "
                   "the queue cleaner only removes, and only queues without applications that are draining or dynamic and have no child left; a draining queue (or a queue to be created below one) takes no application; the MarkQueueForRemoval walk as the code performs it equals the characterisation the other theorems use, well-formedness (incl. W0) is an invariant of every modelled operation, a dropped hierarchy of any depth is Draining at every managed level; several partitions: every partition the loop gets through is updated exactly as it would be alone, a refused update leaves exactly the result of the partitions before the refused one (the refused one and all later ones untouched), partitions not named are untouched; marking queues for removal does not change what any parent offers to the scheduling cycle (the sortQueues filter: not stopped, pending > 0), a draining child with pending resources is offered. "
                   "Monitor (no theorem): clause K1 — a starved probe ask in a draining leaf or below a draining queue while the control group in active leaves is served. "
                   "Tie: one-step differential correspondence of the model against a real ClusterContext (answer and complete queue tree after every update / cleaner run / submission), the model's fresh load against the real dry-run partition, "
                   "and the same clauses evaluated on the implementation's dumps.",
        level_note="trusted: Lean kernel; hand-written reload model tied by correspondence only; parsers and validator as oracles; ACLs and user/group limits outside the modelled state; the recursive MarkQueueForRemoval walk is modelled as such (markRec), proved equal to its characterisation on every well-formed tree and run against the implementation on every accepted update",
        technique="Lean 4 proof over an executable model of the reload path (refinement against the fresh load) + one-step differential correspondence on a real ClusterContext",
        design_ref="DESIGN.md section 4 C16",
    ),
    "C14": dict(
        module="YkProps.C14",
        leancheck=["YkModel.Lock", "YkModel.Generated.LockOrder", "YkModel.LockPolicy", "YkProofs.Lock", "YkProps.C14"],
        runs=[dict(comp="lock", quick=1, thorough=1)],
        classify=cls_c14,
        pre=c14_pre,
        report=c14_report,
        nontrivial=lambda line: True,
        rule="lock: (1) the lock-order table REGENERATED by translator T4 (extract/lockorder.go: go/packages + go/ssa + VTA call graph over every non-test package under pkg/; per function a flow-sensitive may-hold analysis of Lock/RLock..Unlock/RUnlock incl. defer; transitive acquisitions of callees with one witness chain; "
             "calls into code outside the repository call back only what is handed over; same-class edges refined by access paths into same/up/down/unknown) is judged by the driver against the rank and the pattern lists of YkModel/LockPolicy.lean: every edge outside the exclusion list must be ranked; "
             "(2) replays on the real code, each in a child process with go-deadlock enabled, a timeout and a goroutine dump: 150 rounds of a required-node ask cancelling another application's reservation under concurrent RM traffic and readers (excluded edge: must not block); "
             "3000 rounds of add application / add ask / remove application against the scheduling loop (known finding: orphan allocations); and the regression scenarios of repaired defects that must run clean: a configuration reload that drops a partition (must return, partition gone), rejections against readers of the rejected applications, removal of a user's last application against the scheduling loop, node add / resize / remove events against readers of the root queue maximum and the partition total (3 s; a runtime fault is a violation) plus a deterministic ownership check at quiescence (a resource handed to Queue.SetMaxResource and changed afterwards by the caller must not show in the root maximum; getters hand out copies; root maximum = partition total after every kind of node event); "
             "(2b) concurrent FINAL-STATE scenarios (harness/lockfinal.go), each in a child process, a few seconds: 2-3 goroutines (scheduling-loop style, RM-handler style, node handler) released at the same instant by a spin barrier for thousands of rounds drive the real objects from a clean state, then the settled state is compared with the sum of what they did: "
             "first touch of fresh users / groups / queue paths through ugm.Manager (Headroom, CanRunApp, IncreaseTrackedResource; after the matching decreases the trackers are gone), release of a user's last application against the first allocation of the next, queue allocated over root.parent.leaf (TryInc / forced Inc / Dec), node allocations (TryAdd / add / remove / foreign / capacity), "
             "get-or-create of a dynamic queue and of the recovery queue by concurrent submissions (one object per path, every application in it), the node collection under the fair and binpacking policies while 3 goroutines change the same node at the same instant and a reader walks the iterators (at every quiet point both iterators visit every node once, in the order of the scores recomputed from the current node state), and asks / allocations / releases / node updates on a partition against the scheduling loop (partition counters = node allocations = application allocations = queue = tracked user usage; all zero after removing the applications); "
             "(3) thorough only, EVIDENCE ONLY: the concurrent full stack with the threading of Scheduler.StartService (scheduling loop, ONE application+allocation handler, node handler, configuration reloads, real placeholder/state timers, expired-application cleaner, 4 DAO readers) for VERIF_STRESS_SECONDS under -race with go-deadlock enabled; data race reports (one class per pair of conflicting functions), go-deadlock reports, runtime faults, goroutines of the core still blocked on a lock at quiescence, and the full-stack monitors on the final dump. "
             "Every line is non-trivial; distinct = distinct protocol lines",
        trusted=["translator T4 (extract/lockorder.go): SSA construction and the VTA call graph of golang.org/x/tools v0.29.0 (sound up to reflection / unsafe); function values kept by objects of types outside the repository are followed only when handed to a constructor of that type (fsm.NewFSM, btree.New..) and keyed by the struct field that keeps the object; "
                 "code outside the repository calls back only functions / methods of values handed over at that call (errors made outside the repository are taken not to reference the arguments of the failed call); a closure reached from its creating function is the one created by that activation; locks are released in the function that takes them (checked: Gen.LockOrder.leaks = [])",
                 "the exclusion list of YkModel/LockPolicy.lean (printed by every run as EXCLUSION lines): unrankable edges judged infeasible, each with its reason",
                 "locks of the standard library and of dependencies (sync.Once, zap, prometheus, fsm internals) are leaf locks outside the model; blocking on channels, WaitGroups and timers is not modelled",
                 "`up` edges: the acquired queue is reached through .parent from the held one, taken to mean strictly smaller depth in the queue tree (acyclic parent pointers)",
                 "test doubles (pkg/mock, pkg/examples, *_mock.go) and the shim's callback plugins are outside the analysed program",
                 "the translator's result is cached by the content hash of the sources and of the translator in .cache/lockorder/ of the framework (git-ignored); a missing cache only costs time"],
        assumptions=["a thread's acquisitions are exactly the (held, acquired) pairs the translator can see: every pair occurring at run time is an instance of an edge of the table (soundness of the static analysis, see trusted base)",
                     "queue trees have bounded depth D (the theorem holds for every D)"],
        level_text="Lean 4 proofs. Generic: in the abstract lock machine (threads holding multisets of (instance, mode), sync.RWMutex blocking incl. writer preference, non re-entrant) any discipline that acquires in strictly increasing rank has no wait-for cycle, no deadlocked set and is never stuck, for any number of threads and locks (induction over reachable states); recursive RLock and re-locking are shown to BE deadlocks of the machine. "
                   "Specific: a rank of the lock classes (Queue: child before parent) orders every edge of the lock-order table REGENERATED from the current source outside the documented exclusion list (decide over the table; no known lock-order finding is left since d47df11 removed the ClusterContext self edge), hence threads following the table never deadlock. "
                   "Data races, goroutine leaks and the final-state clause are NOT proved: replays and thorough-tier stress evidence only.",
        level_note="partial: proof for the lock-order / deadlock clause only, relative to the static analysis and the exclusion list; races, goroutine leaks and the settled-state clause are evidence only (replays, thorough tier)",
        technique="Lean 4 proof (generic rank theorem by induction + decide over a lock-order table regenerated from source by an SSA/call-graph translator) + replays on the real code; race detector / go-deadlock stress as evidence",
        design_ref="DESIGN.md section 4 C14",
    ),
}


def strip_case(case):
    """replay files carry the inputs only: the dumped state and the messages are regenerated when replaying"""
    out = []
    for l in case:
        if '"st":' in l or '"msgs":' in l:
            try:
                d = json.loads(l)
                for k in ("st", "msgs"):
                    d.pop(k, None)
                l = json.dumps(d)
            except ValueError:
                pass
        out.append(l)
    return out


def write_replay(pid, tag, seed, lines, header):
    os.makedirs(REPLAYS, exist_ok=True)
    p = os.path.join(REPLAYS, "%s-%s-%d.jsonl" % (pid, re.sub(r"[^A-Za-z0-9_.-]", "_", tag)[:60], seed))
    with open(p, "w") as f:
        f.write("# " + header.replace("\n", " ") + "\n")
        for l in lines:
            f.write(l + "\n")
    return p


def decide(run, cfg, replay):
    pid, tier = run.pid, run.tier
    known, fixed = runner.load_known(pid)
    known_classes = {k for k, _ in known}
    tie_broken = []     # (what, log)
    violations = {}     # class -> (replay_path, verdict)
    known_seen = {}
    proof = dict(ok=False, theorems=[], failed=[], axioms={}, hygiene=[], log="")
    corrs = []
    can_run = True
    try:
        run.prepare()
    except Broken as b:
        tie_broken.append((b.what, b.log))
        can_run = os.path.exists(run.ykh) and os.path.exists(runner.YKDRV)

    if cfg.get("pre") and can_run:
        cfg["pre"](run)

    if replay:
        # replay a file through the harness and print the verdicts
        for r in cfg["runs"]:
            c = run.correspond(r["comp"], 1, shards=1, replay=os.path.abspath(replay))
            for e in c.errors:
                print("error:", e)
            print("lines=%d ok=%d" % (c.lines, c.ok))
            for seed, case, v in c.fail:
                print("FAIL", v)
                print("   ", case[-1][:400])
            return 1 if (c.fail or c.errors) else 0

    if not tie_broken:
        proof = run.prove(cfg["module"])
        if not proof["ok"]:
            what = "proof obligations of %s no longer check: %s" % (cfg["module"], "; ".join(proof["failed"] or proof["hygiene"] or ["build failed"]))
            tie_broken.append((what, proof["log"][-6000:]))

    # correspondence (+ corpus first); a broken tie escalates to the thorough generators (the search for a failing input)
    search = bool(tie_broken)
    if can_run:
        corpus_dir = os.path.join(VERIF, "corpus", pid)
        if os.path.isdir(corpus_dir):
            for f in sorted(os.listdir(corpus_dir)):
                comp = f.split(".")[0].split("-")[0]
                c = run.correspond(comp, 1, shards=1, replay=os.path.join(corpus_dir, f), nontrivial=cfg["nontrivial"])
                c.corpus = f
                corrs.append(c)
        for r in cfg["runs"]:
            n = r["thorough"] if (tier == "thorough" or search) else r["quick"]
            c = run.correspond(r["comp"], n, extra=r.get("extra"), nontrivial=cfg["nontrivial"])
            c.corpus = None
            corrs.append(c)
    machinery_errors = []
    for c in corrs:
        machinery_errors += c.errors
        for seed, case, v in c.fail:
            if v.startswith("bad-op") or v == "missing-verdict":
                machinery_errors.append("%s: %s on %s" % (c.comp, v, case[-1][:200]))
                continue
            cls = cfg["classify"](v, case)
            if isinstance(cls, str):
                cls = [cls]
            for cl in cls:
                if cl in known_classes:
                    known_seen.setdefault(cl, v)
                    continue
                if cl not in violations:
                    path = write_replay(pid, cl, seed, strip_case(case), "property=%s class=%s verdict: %s" % (pid, cl, v))
                    violations[cl] = (path, v)

    # ------------------------------------------------------------------ output
    rc = 0
    for cl, desc in known:
        if cl in known_seen:
            print("KNOWN-FINDING: property=%s %s %s" % (pid, cl, desc))
        else:
            print("note: known finding %s of %s did not reproduce in this run" % (cl, pid))
    if cfg.get("report"):
        cfg["report"](run)
    for i, (cl, (path, v)) in enumerate(sorted(violations.items())):
        rc = 1
        if i >= 8:
            print("  ... %d more violation classes (see evidence)" % (len(violations) - 8))
            break
        print("VIOLATION property=%s replay=%s" % (pid, path))
        print("  class=%s %s" % (cl, v[:300]))
    if tie_broken and not violations:
        body = ["tie between model and code broken for %s; no concrete failing input found by the search" % pid]
        for what, log in tie_broken:
            body.append("BROKEN: " + what)
            body += ["  | " + l for l in log.split("\n")[-60:]]
        path = write_replay(pid, "tie-broken", run.seed, body, "property=%s no-failing-input-found" % pid)
        print("VIOLATION property=%s replay=%s no-failing-input-found" % (pid, path))
        rc = 1
    elif tie_broken:
        for what, _ in tie_broken:
            print("  also:", what[:300])
    if machinery_errors:
        # the check itself is broken: say so loudly, never silently pass
        for e in machinery_errors[:10]:
            print("MACHINERY-ERROR:", e)
        rc = rc or 3

    # ------------------------------------------------------------------ evidence
    lines = sum(c.lines for c in corrs)
    distinct = set()
    nontriv = 0
    for c in corrs:
        distinct |= c.distinct
    nontriv = sum(c.nontrivial for c in corrs)
    stats = {}
    for c in corrs:
        for k, v in c.stats.items():
            stats[k] = stats.get(k, 0) + v
    samples = []
    for c in corrs:
        samples += c.samples[:2]
    leanchk = None
    if tier == "thorough" and proof["ok"]:
        ok, out = run.leanchecker(cfg["leancheck"])
        leanchk = ok
        if not ok:
            print("MACHINERY-ERROR: leanchecker rejected the compiled proofs:\n" + out[-2000:])
            rc = rc or 3
    nobl = len(proof["theorems"])
    ndis = nobl - len([t for t in proof["theorems"] if any(t in f for f in proof["failed"])]) if proof["ok"] else 0
    ev = dict(
        property_id=pid, tier=tier, seed=run.seed, level="proof",
        coverage=dict(
            obligations=max(nobl, 1), discharged=ndis if proof["ok"] else 0,
            checker_cmd="cd /verif/lean && lake build %s && lake env lean <Audit: #print axioms of each theorem>%s" % (cfg["module"], " && lake env leanchecker " + " ".join(cfg["leancheck"]) if tier == "thorough" else ""),
            trusted_base=COMMON_TRUSTED + cfg.get("trusted", []),
            theorems=proof["theorems"], axioms=proof["axioms"], failed=proof["failed"], hygiene_hits=proof["hygiene"],
            leanchecker_ok=leanchk,
            regenerated=sorted(getattr(run, "gen_snapshot", {}).keys()),
            evaluations=lines, distinct_nontrivial=nontriv, distinct_lines=len(distinct),
            traces_validated_against_impl=sum(c.ok for c in corrs),
            lines_outside_stepped_model=sum(c.ok_unmodelled for c in corrs),
            rule=cfg["rule"], samples=samples[:6] or [{"note": "no correspondence lines in this run"}],
            generator_distribution=stats,
            corpus_files=[c.corpus for c in corrs if c.corpus],
            known_findings_reproduced=sorted(known_seen), fixed_entries=fixed,
            tie_broken=[w for w, _ in tie_broken],
        ),
        assumptions=cfg.get("assumptions", []),
        wall_s=round(time.time() - run.t0, 1),
        violations=len(violations) + (1 if tie_broken and not violations else 0),
    )
    os.makedirs(EVID, exist_ok=True)
    with open(os.path.join(EVID, pid + ".json"), "w") as f:
        json.dump(ev, f, indent=1)
    print("%s %s: theorems=%d discharged=%d lines=%d ok=%d known=%d violations=%d wall=%.0fs" % (
        pid, tier, nobl, ev["coverage"]["discharged"], lines, ev["coverage"]["traces_validated_against_impl"],
        len(known_seen), ev["violations"], ev["wall_s"]))
    return rc
