/- JSON helpers for the line protocol (driver side). -/
import Lean.Data.Json
import YkModel.Res
open Lean

namespace YkDrv

def jInt (j : Json) : Except String Int :=
  match j with
  | .num n => if n.exponent == 0 then .ok n.mantissa else .error s!"not an integer: {j.compress}"
  | _ => .error s!"not a number: {j.compress}"

def jNat (j : Json) : Except String Nat := do
  let i ← jInt j
  if i < 0 then .error "negative" else pure i.toNat

def jBool (j : Json) : Except String Bool :=
  match j with | .bool b => .ok b | _ => .error s!"not a bool: {j.compress}"

def jStr (j : Json) : Except String String :=
  match j with | .str s => .ok s | _ => .error s!"not a string: {j.compress}"

def jArr (j : Json) : Except String (Array Json) :=
  match j with | .arr a => .ok a | _ => .error s!"not an array: {j.compress}"

def fld (j : Json) (k : String) : Except String Json :=
  match j.getObjVal? k with | .ok v => .ok v | .error _ => .error s!"missing field {k}"

def fldD (j : Json) (k : String) (d : Json) : Json :=
  match j.getObjVal? k with | .ok v => v | .error _ => d

/-- resource: null | [[k,v],...] -/
def jORes (j : Json) : Except String Yk.ORes :=
  match j with
  | .null => .ok none
  | .arr a => do
    let l ← a.toList.mapM (fun e => do
      let p ← jArr e
      if p.size != 2 then throw "bad pair"
      let k ← jStr p[0]!
      let v ← jInt p[1]!
      pure (k, v))
    pure (some l)
  | _ => .error s!"bad resource {j.compress}"

def jRes (j : Json) : Except String Yk.Res := do
  let o ← jORes j
  pure (o.getD [])

def insertSorted (p : String × Int) : List (String × Int) → List (String × Int)
  | [] => [p]
  | q :: t => if p.1 < q.1 then p :: q :: t else q :: insertSorted p t

def sortRes (r : Yk.Res) : Yk.Res := r.foldl (fun acc p => insertSorted p acc) []

def showRes (r : Yk.Res) : String :=
  "{" ++ ",".intercalate ((sortRes r).map (fun p => s!"{p.1}={p.2}")) ++ "}"

def showORes (r : Yk.ORes) : String := match r with | none => "nil" | some r => showRes r

def resEq (a b : Yk.Res) : Bool := sortRes a == sortRes b
def oresEq (a b : Yk.ORes) : Bool :=
  match a, b with
  | none, none => true
  | some a, some b => resEq a b
  | _, _ => false

end YkDrv
