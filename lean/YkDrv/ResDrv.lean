/- driver: C18 resources / quantities.  One JSON object per line, one verdict per line. -/
import YkDrv.Util
import YkModel.ResSpec
import YkModel.Quantity
open Lean Yk

namespace YkDrv

private def verdictRes (op : String) (model impl : ORes) (spec : Bool) : String :=
  if !oresEq model impl then s!"diff {op} model={showORes model} impl={showORes impl}"
  else if !spec then s!"spec {op} impl={showORes impl}"
  else "ok"

private def verdictBool (op : String) (model impl spec : Bool) : String :=
  if model != impl then s!"diff {op} model={model} impl={impl}"
  else if spec != impl then s!"spec {op} spec={spec} impl={impl}"
  else "ok"

def resStep (j : Json) : Except String String := do
  let op ← (fld j "op") >>= jStr
  let l ← jORes (fldD j "l" .null)
  let r ← jORes (fldD j "r" .null)
  let same := (jBool (fldD j "same" (.bool false))).toOption.getD false
  let out := fldD j "out" .null
  match op with
  | "addVal" | "subVal" | "mulVal" =>
    let a ← (fld j "a") >>= jInt
    let b ← (fld j "b") >>= jInt
    let o ← jInt out
    let (m, s) := match op with
      | "addVal" => (goAddVal a b, clamp (a + b))
      | "subVal" => (goSubVal a b, clamp (a - b))
      | _ => (goMulVal a b, clamp (a * b))
    if m != o then pure s!"diff {op} a={a} b={b} model={m} impl={o}"
    else if s != o then pure s!"spec {op} a={a} b={b} spec={s} impl={o}"
    else pure "ok"
  | "mulValRatio" =>
    let a ← (fld j "a") >>= jInt
    let rz ← (fld j "rz") >>= jBool
    let p ← (fld j "prod") >>= jInt
    let o ← jInt out
    let m := goMulValRatio a rz p
    let s := if a == 0 || rz then 0 else clamp p
    if m != o then pure s!"diff {op} a={a} prod={p} model={m} impl={o}"
    else if s != o then pure s!"spec {op} a={a} prod={p} spec={s} impl={o}"
    else pure "ok"
  | "Add" => let o ← jRes out; pure (verdictRes op (some (add l r)) (some o) (specAdd l r o))
  | "Sub" => let o ← jRes out; pure (verdictRes op (some (sub l r)) (some o) (specSub l r o))
  | "AddTo" => let o ← jORes out; pure (verdictRes op (addTo l r) o (match o with | none => l.isNone | some o => specAdd l r o))
  | "SubFrom" => let o ← jORes out; pure (verdictRes op (subFrom l r) o (match o with | none => l.isNone | some o => specSub l r o))
  | "SubOnlyExisting" => let o ← jORes out; pure (verdictRes op (subOnlyExisting l r) o (specSubOnlyExisting l r o))
  | "AddOnlyExisting" => let o ← jORes out; pure (verdictRes op (addOnlyExisting l r) o (specAddOnlyExisting l r o))
  | "SubEliminateNegative" => let o ← jRes out; pure (verdictRes op (some (subEliminateNegative l r)) (some o) (specSubElimNeg l r o))
  | "SubErrorNegative" =>
    let o ← jRes out
    let e ← (fld j "err") >>= jBool
    let m := subNonNegative l r
    if (!m.2.isEmpty) != e then pure s!"diff {op} model-err={!m.2.isEmpty} impl-err={e}"
    else pure (verdictRes op (some m.1) (some o) (specSubElimNeg l r o))
  | "Multiply" =>
    let o ← jRes out
    let k ← (fld j "ratio") >>= jInt
    pure (verdictRes op (some (multiply l k)) (some o) (specMultiply l k o))
  | "FitIn" => let o ← jBool out; pure (verdictBool op (fitInStd l r) o (specFitIn l r false false))
  | "FitInMaxUndef" => let o ← jBool out; pure (verdictBool op (fitInMaxUndef l r) o (specFitIn l r true false))
  | "FitInActual" => let o ← jBool out; pure (verdictBool op (fitInActual l r) o (specFitIn l r true true))
  | "Equals" => let o ← jBool out; pure (verdictBool op (equals l r same) o (specEquals l r same))
  | "DeepEquals" => let o ← jBool out; pure (verdictBool op (deepEquals l r same) o (specDeepEquals l r same))
  | "MatchAny" => let o ← jBool out; pure (verdictBool op (matchAny l r same) o (matchAny l r same))
  | "EqualsOrEmpty" => let o ← jBool out; pure (verdictBool op (equalsOrEmpty l r same) o (equalsOrEmpty l r same))
  | "IsZero" => let o ← jBool out; pure (verdictBool op (isZero l) o (specIsZero l))
  | "IsEmpty" => let o ← jBool out; pure (verdictBool op (isEmpty l) o (isEmpty l))
  | "HasNegativeValue" => let o ← jBool out; pure (verdictBool op (hasNegativeValue l) o (specHasNeg l))
  | "StrictlyGreaterThanZero" => let o ← jBool out; pure (verdictBool op (strictlyGreaterThanZero l) o (specSGTZ l))
  | "StrictlyGreaterThan" => let o ← jBool out; pure (verdictBool op (strictlyGreaterThan l r) o (specSGT l r))
  | "StrictlyGreaterThanOrEquals" => let o ← jBool out; pure (verdictBool op (strictlyGreaterThanOrEquals l r) o (specSGTE l r))
  | "StrictlyGreaterThanOnlyExisting" => let o ← jBool out; pure (verdictBool op (strictlyOnlyExisting l r false) o (strictlyOnlyExisting l r false))
  | "StrictlyGreaterThanOrEqualsOnlyExisting" => let o ← jBool out; pure (verdictBool op (strictlyOnlyExisting l r true) o (strictlyOnlyExisting l r true))
  | "ComponentWiseMin" => let o ← jORes out; pure (verdictRes op (componentWiseMin l r) o (specCMin l r o))
  | "ComponentWiseMinOnlyExisting" => let o ← jORes out; pure (verdictRes op (componentWiseMinOnlyExisting l r) o true)
  | "MergeIfNotPresent" => let o ← jORes out; pure (verdictRes op (mergeIfNotPresent l r) o true)
  | "ComponentWiseMax" => let o ← jRes out; pure (verdictRes op (some (componentWiseMax l r)) (some o) (specCMax l r o))
  | "Prune" => let o ← jORes out; pure (verdictRes op (l.map prune) o true)
  | "Clone" => let o ← jORes out; pure (verdictRes op l o true)
  | "parse" =>
    let s ← (fld j "s") >>= jStr
    let milli ← (fld j "milli") >>= jBool
    let m := parseQ s milli
    let implErr := (jStr (fldD j "err" (.str ""))).toOption.getD ""
    match m with
    | .ok v =>
      if implErr != "" then pure s!"diff parse s={repr s} milli={milli} model=ok({v}) impl=err({implErr})"
      else
        let o ← jInt out
        if o != v then pure s!"diff parse s={repr s} milli={milli} model={v} impl={o}" else pure "ok"
    | .error e =>
      let me := match e with | .invalid => "invalid quantity" | .overflow => "invalid quantity: overflow" | .suffix => "invalid suffix"
      if implErr != me then pure s!"diff parse s={repr s} milli={milli} model=err({me}) impl={if implErr == "" then out.compress else "err(" ++ implErr ++ ")"}"
      else pure "ok"
  | _ => pure "bad-op"

end YkDrv
