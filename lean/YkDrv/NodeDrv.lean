/- driver: C01 node ledger.  The model is stepped with the same op; the implementation's dumped node state is
   compared field by field, and the ledger clauses are evaluated on the dumped state. -/
import YkDrv.Util
import YkModel.Node
import YkModel.ResSpec
open Lean Yk

namespace YkDrv

structure NodeSt where
  node : Node := Node.new []

def jNAlloc (j : Json) : Except String NAlloc := do
  let k ← (fld j "key") >>= jStr
  let r ← (fld j "res") >>= jRes
  let f ← (fld j "foreign") >>= jBool
  pure { key := k, res := r, foreign := f }

def insertAlloc (a : NAlloc) : List NAlloc → List NAlloc
  | [] => [a]
  | b :: t => if a.key < b.key then a :: b :: t else b :: insertAlloc a t
def sortAllocs (l : List NAlloc) : List NAlloc := l.foldl (fun acc a => insertAlloc a acc) []

def jNodeDump (j : Json) : Except String Node := do
  let total ← (fld j "total") >>= jRes
  let occ ← (fld j "occupied") >>= jRes
  let alloc ← (fld j "allocated") >>= jRes
  let avail ← (fld j "available") >>= jRes
  let sched ← (fld j "schedulable") >>= jBool
  let as ← (fld j "allocs") >>= jArr
  let allocs ← as.toList.mapM jNAlloc
  pure { total := total, occupied := occ, allocated := alloc, available := avail, allocs := allocs, schedulable := sched }

def showNode (n : Node) : String :=
  s!"total={showRes n.total} occ={showRes n.occupied} alloc={showRes n.allocated} avail={showRes n.available} sched={n.schedulable} allocs={(sortAllocs n.allocs).map (fun a => a.key ++ (if a.foreign then "(f)" else "") ++ showRes a.res)}"

def nodeDiff (m i : Node) : Option String :=
  if !resEq m.total i.total then some "total"
  else if !resEq m.occupied i.occupied then some "occupied"
  else if !resEq m.allocated i.allocated then some "allocated"
  else if !resEq m.available i.available then some "available"
  else if m.schedulable != i.schedulable then some "schedulable"
  else if (sortAllocs m.allocs).map (fun a => (a.key, sortRes a.res, a.foreign)) != (sortAllocs i.allocs).map (fun a => (a.key, sortRes a.res, a.foreign)) then some "allocs"
  else none

def nodeStep (st : NodeSt) (j : Json) : Except String (NodeSt × String) := do
  let op ← (fld j "op") >>= jStr
  if op == "reset" then
    let t ← (fld j "total") >>= jRes
    let n := Node.new t
    let impl ← (fld j "st") >>= jNodeDump
    match nodeDiff n impl with
    | some f => return ({ node := n }, s!"diff new.{f} model=[{showNode n}] impl=[{showNode impl}]")
    | none => return ({ node := n }, "ok")
  let nop : NodeOp ← match op with
    | "setCapacity" => do pure (NodeOp.setCapacity (← (fld j "res") >>= jRes))
    | "setOccupied" => do pure (NodeOp.setOccupied (← (fld j "res") >>= jRes))
    | "updateAllocated" => do pure (NodeOp.updateAllocated (← (fld j "key") >>= jStr) (← (fld j "res") >>= jRes))
    | "tryAdd" => do pure (NodeOp.tryAdd (← (fld j "alloc") >>= jNAlloc))
    | "forceAdd" => do pure (NodeOp.forceAdd (← (fld j "alloc") >>= jNAlloc))
    | "remove" => do pure (NodeOp.remove (← (fld j "key") >>= jStr))
    | "updateForeign" => do pure (NodeOp.updateForeign (← (fld j "alloc") >>= jNAlloc))
    | "replace" => do pure (NodeOp.replace (← (fld j "key") >>= jStr) (← (fld j "alloc") >>= jNAlloc) (← (fld j "res") >>= jRes))
    | "setSchedulable" => do pure (NodeOp.setSchedulable (← (fld j "b") >>= jBool))
    | _ => throw s!"unknown node op {op}"
  let pre := st.node
  let (m, mres) := pre.step nop
  let impl ← (fld j "st") >>= jNodeDump
  let ires ← (fld j "out") >>= jBool
  let st' : NodeSt := { node := m }
  -- (1) agreement
  if mres != ires then return (st', s!"diff {op}.result model={mres} impl={ires}")
  match nodeDiff m impl with
  | some f => return (st', s!"diff {op}.{f} model=[{showNode m}] impl=[{showNode impl}]")
  | none => pure ()
  -- (2) the property's statement on the implementation's state
  if !impl.ledgerAllocated then return (st', s!"inv ledger-allocated {op} impl=[{showNode impl}]")
  if !impl.ledgerAvailable then return (st', s!"inv ledger-available {op} impl=[{showNode impl}]")
  -- a scheduler-path add is accepted only if it fitted in what was available before
  match nop with
  | .tryAdd a =>
    if ires && !(specFitIn (some pre.available) (some a.res) false false) then
      return (st', s!"inv tryAdd-fits alloc={showRes a.res} available-before={showRes pre.available}")
    -- scheduler ops never drive available negative
    if ires && pre.availNonNeg && !impl.availNonNeg then return (st', s!"inv avail-nonneg {op} impl=[{showNode impl}]")
  | .remove _ =>
    if pre.availNonNeg && !impl.availNonNeg then return (st', s!"inv avail-nonneg {op} impl=[{showNode impl}]")
  | _ => pure ()
  return (st', "ok")

end YkDrv
