/-
  Driver for component "conf" (C15): one line = one configuration document with what the real code did with it.
  The tree decoded from the document is validated by the model (`Yk.Conf.validate`) and compared with the implementation
  (accept / error class / rewritten tree); the hierarchy clauses of YkModel/ConfSpec.lean are evaluated on the tree the
  implementation returned; the load outcomes (new context, running context, rules active, first placements) are compared with
  the model's load predicates.  Accepted-but-not-loadable documents are reported with a clause id per cause.
-/
import YkDrv.Util
import YkModel.ConfSpec
open Lean Yk Yk.Conf

namespace YkDrv

def jOptArr (j : Json) : Except String (Option (Array Json)) :=
  match j with
  | .null => .ok none
  | .arr a => .ok (some a)
  | _ => .error s!"not an array or null: {j.compress}"

def jSMap (j : Json) : Except String (Option SMap) := do
  match ← jOptArr j with
  | none => pure none
  | some a =>
    let l ← a.toList.mapM (fun e => do
      let p ← jArr e
      if p.size != 2 then throw "bad pair"
      pure ((← jStr p[0]!), (← jStr p[1]!)))
    pure (some l)

def jStrs (j : Json) : Except String (Option (List String)) := do
  match ← jOptArr j with
  | none => pure none
  | some a => pure (some (← a.toList.mapM jStr))

def jLimit (j : Json) : Except String Limit := do
  pure { label := ← (fld j "limit") >>= jStr, users := ← (fld j "users") >>= jStrs, groups := ← (fld j "groups") >>= jStrs,
         maxRes := ← (fld j "maxres") >>= jSMap, maxApps := ← (fld j "maxapps") >>= jNat }

def jLimits (j : Json) : Except String (List Limit) := do
  match ← jOptArr j with
  | none => pure []
  | some a => a.toList.mapM jLimit

def jTmpl (j : Json) : Except String Tmpl := do
  pure { maxApps := ← (fld j "maxapps") >>= jNat, props := ← (fld j "props") >>= jSMap, g := ← (fld j "g") >>= jSMap, m := ← (fld j "m") >>= jSMap }

partial def jQueue (j : Json) : Except String QC := do
  let d : QD := { name := ← (fld j "name") >>= jStr, parent := ← (fld j "parent") >>= jBool, g := ← (fld j "g") >>= jSMap,
                  m := ← (fld j "m") >>= jSMap, maxApps := ← (fld j "maxapps") >>= jNat, props := ← (fld j "props") >>= jSMap,
                  adminACL := ← (fld j "aacl") >>= jStr, submitACL := ← (fld j "sacl") >>= jStr, tmpl := ← (fld j "tmpl") >>= jTmpl,
                  limits := ← (fld j "limits") >>= jLimits }
  let qs ← match ← (fld j "queues") >>= jOptArr with
    | none => pure []
    | some a => a.toList.mapM jQueue
  pure (.mk d qs)

def jRuleD (j : Json) : Except String RuleD := do
  pure { name := ← (fld j "name") >>= jStr, create := ← (fld j "create") >>= jBool, value := ← (fld j "value") >>= jStr,
         ftype := ← (fld j "ftype") >>= jStr, fusers := (← (fld j "fusers") >>= jStrs).getD [], fgroups := (← (fld j "fgroups") >>= jStrs).getD [],
         ure := ← (fld j "ure") >>= jBool, gre := ← (fld j "gre") >>= jBool }

def jPart (j : Json) : Except String Part := do
  let queues ← match ← (fld j "queues") >>= jOptArr with
    | none => pure none
    | some a => pure (some (← a.toList.mapM jQueue))
  let rules ← (← (fld j "rules") >>= jArr).toList.mapM (fun r => do (← jArr r).toList.mapM jRuleD)
  let weights ← (← (fld j "weights") >>= jArr).toList.mapM (fun e => do
    let p ← jArr e
    if p.size != 2 then throw "bad weight"
    pure ((← jStr p[0]!), (← jBool p[1]!)))
  pure { name := ← (fld j "name") >>= jStr, queues := queues, rules := rules, limits := ← (fld j "limits") >>= jLimits,
         nsp := ← (fld j "nsp") >>= jStr, weights := weights }

def jParts (j : Json) : Except String (List Part) := do
  (← (fld j "parts") >>= jArr).toList.mapM jPart

mutual
def qcEq : QC → QC → Bool
  | .mk d1 q1, .mk d2 q2 => decide (d1 = d2) && qcEqL q1 q2
def qcEqL : List QC → List QC → Bool
  | [], [] => true
  | a :: t, b :: u => qcEq a b && qcEqL t u
  | _, _ => false
end

def partEq (a b : Part) : Bool :=
  a.name == b.name && (match a.queues, b.queues with
    | none, none => true
    | some x, some y => qcEqL x y
    | _, _ => false) &&
  decide (a.rules = b.rules) && decide (a.limits = b.limits) && a.nsp == b.nsp && decide (a.weights = b.weights)

def partsEq : List Part → List Part → Bool
  | [], [] => true
  | a :: t, b :: u => partEq a b && partsEq t u
  | _, _ => false

def ctorName {α : Type} [Repr α] (e : α) : String :=
  ((toString (repr e)).splitOn ".").getLast!

def lerrClass : LErr → String
  | .rootName => "root-name" | .acl => "acl" | .tmplParse => "parse" | .queueParse => "parse" | .limitParse => "parse"
  | .ruleUnknown => "rule-unknown"
  | .ruleRecovery => "rule-recovery" | .fixedEmpty => "fixed-empty" | .fixedQueueName => "fixed-queue-name"
  | .fixedQualifiedParent => "fixed-qualified-parent" | .tagEmpty => "tag-empty"

/-- the clause id suffix of a load failure: the model's cause where the message of the implementation is ambiguous -/
def lerrId (r : Except LErr Unit) (implCls : String) : String :=
  match r with
  | .error .tmplParse => "template-resources"
  | .error .queueParse => "queue-resources"
  | .error .limitParse => "limit-resources"
  | _ => implCls

def showLoad (r : Except LErr Unit) : String := match r with | .ok _ => "ok" | .error e => "err:" ++ lerrClass e

/-- res / cls of a call result object of the harness -/
def callRes (j : Json) : Except String String := do
  let r ← (fld j "res") >>= jStr
  if r == "err" then pure ("err:" ++ (← (fld j "cls") >>= jStr)) else pure r

def noFilter (r : Rule) : Bool := r.all (fun d => d.ftype == "" && d.fusers.isEmpty && d.fgroups.isEmpty)

/-- why PlaceApplication can walk out of the hierarchy with this rule set: a top level `test` rule returns an unqualified
    name (known finding); a fixed rule value that only starts with "root" did so before fixedRule.initialise was fixed
    (reported under its own id, not a known finding any more) -/
def panicCause (rules : List Rule) : String :=
  if rules.any (fun r => match r.head? with | some d => toLower d.name == "test" | none => false) then "C15.PL.panic-test-rule"
  else if rules.any (fun r => match r.head? with
      | some d =>
        let v := toLower d.value
        toLower d.name == "fixed" && d.create && hasPrefix v "root" && !qualifiedRT v
      | none => false) then "C15.PL.panic-fixed-root-prefix"
  else "C15.PL.panic-other"

def confStep (j : Json) : Except String String := do
  match j.getObjVal? "decodeErr" with
  | .ok _ => return "ok unmodelled: the document does not decode"
  | .error _ => pure ()
  let cfg ← (fld j "cfg") >>= jParts
  let impl ← fld j "impl"
  let iAcc ← (fld impl "accept") >>= jBool
  let iCls ← (fld impl "cls") >>= jStr
  let mut diffs : List String := []
  let mut invs : List String := []
  let m := validate cfg
  -- accept / reject / error class
  let mut norm : List Part := []
  if iAcc then norm ← (fld impl "norm") >>= jParts
  match m with
  | .error e =>
    if iAcc then diffs := diffs ++ [s!"diff conf.validate model=reject:{ctorName e} impl=accept"]
    else if ctorName e != iCls then diffs := diffs ++ [s!"diff conf.validate.class model={ctorName e} impl={iCls}"]
  | .ok ps =>
    if !iAcc then diffs := diffs ++ [s!"diff conf.validate model=accept impl=reject:{iCls}"]
    else
      if !partsEq ps norm then diffs := diffs ++ ["diff conf.validate.norm the rewritten tree differs"]
  -- map order
  let orders ← fld impl "orders"
  if !(← (fld orders "agree") >>= jBool) then
    invs := invs ++ [s!"C15.D1 result depends on the order of the mappings: {← (fld orders "detail") >>= jStr}"]
  if iAcc then
    -- "at least 1 partition must be defined"
    if norm.isEmpty then invs := invs ++ ["C15.S0 a configuration without partitions is accepted"]
    -- the hierarchy rules on what the implementation accepted
    for p in norm do
      invs := invs ++ violations p
    -- load into a new context
    match impl.getObjVal? "load" with
    | .error _ => pure ()
    | .ok load =>
      let ir ← callRes load
      let ml := loadNewAll norm
      let mr := showLoad ml
      if ir == "panic" then invs := invs ++ ["C15.LD.panic NewClusterContext panics"]
      else if ir == "hang" then invs := invs ++ ["C15.LD.hang NewClusterContext does not return"]
      else
        if ir != mr then diffs := diffs ++ [s!"diff conf.load model={mr} impl={ir}"]
        if ir != "ok" then invs := invs ++ [s!"C15.LD.{lerrId ml (ir.drop 4).toString} accepted by validation, NewClusterContext fails"]
      if ir == "ok" then
        match norm.find? (fun p => p.name == "default"), load.getObjVal? "rules" with
        | some p, .ok nr =>
          let n ← jNat nr
          let active := rulesActive p
          if active != (n != 0) then diffs := diffs ++ [s!"diff conf.rules model-active={active} impl-rules={n}"]
          if n == 0 then invs := invs ++ [s!"C15.LD.rules-dropped.{match loadRules p.rules with | .ok _ => "unexpected" | .error e => lerrClass e} the new partition runs without placement rules"]
          -- first placements
          match impl.getObjVal? "place", rootOf p with
          | .ok pl, some root =>
            for a in (← jArr pl).toList do
              let r ← callRes a
              if r == "panic" then invs := invs ++ [panicCause p.rules ++ " AddApplication panics"]
              else if r == "hang" then invs := invs ++ ["C15.PL.hang AddApplication does not return"]
              -- a single fully static rule without filters under an open root: the outcome is what the rule resolves to
              match p.rules with
              | [rule] =>
                if active && allFixed rule && noFilter rule && String.ofList (trimSpace root.d.submitACL.toList) == "*" then
                  let expect := match fixedName root rule.reverse none with
                    | none => "not-placed"
                    | some n => if resolves root n then "placed:" ++ n else "not-placed"
                  let placedAt := ((a.getObjValD "placed").getStr?.toOption).getD ""
                  let got := if r == "ok" then "placed:" ++ placedAt else "not-placed"
                  if expect != got then diffs := diffs ++ [s!"diff conf.place model={expect} impl={got} ({r})"]
              | _ => pure ()
          | _, _ => pure ()
        | _, _ => pure ()
    -- load into a running context
    match impl.getObjVal? "reload" with
    | .error _ => pure ()
    | .ok rl =>
      let ir ← callRes rl
      let ml := loadRunningAll ["default"] norm
      let mr := showLoad ml
      if ir == "skipped" then pure ()
      else if ir == "panic" then invs := invs ++ ["C15.RL.panic UpdateRMSchedulerConfig panics"]
      else if ir == "hang" then invs := invs ++ ["C15.RL.hang UpdateRMSchedulerConfig does not return"]
      else
        if ir != mr then diffs := diffs ++ [s!"diff conf.reload model={mr} impl={ir}"]
        if ir != "ok" then invs := invs ++ [s!"C15.RL.{lerrId ml (ir.drop 4).toString} accepted by validation, UpdateRMSchedulerConfig fails"]
  if !diffs.isEmpty then return " ;; ".intercalate (diffs ++ invs)
  if !invs.isEmpty then return "inv " ++ " ;; ".intercalate invs
  return "ok"

end YkDrv
