/- driver: C20 ring buffer / event store.  Stateful: `reset` starts a new history. -/
import YkDrv.Util
import YkModel.Ring
open Lean Yk

namespace YkDrv

structure RingSt where
  ring : Ring := Ring.new 1
  hist : Hist := Hist.new 1
  store : Store := Store.new 0
  budget : Nat := 0     -- spec for the store: capacity in force for the current batch
  stored : List Ev := []

def jEvs (j : Json) : Except String (List (Option Ev)) := do
  let a ← jArr j
  a.toList.mapM (fun e => do
    let i ← jInt e
    pure (if i < 0 then none else some i.toNat))

def showEvs (l : List (Option Ev)) : String :=
  "[" ++ ",".intercalate (l.map (fun o => match o with | none => "nil" | some e => toString e)) ++ "]"

private def fieldsOf (r : Ring) : List Nat := [r.capacity, r.head, if r.full then 1 else 0, r.id, r.lowestId, r.resizeOffset]

private def checkFields (st : RingSt) (j : Json) : Except String String := do
  let f ← (fld j "st") >>= jArr
  let impl ← f.toList.mapM jNat
  let m := fieldsOf st.ring
  if impl != m then pure s!"diff fields model={m} impl={impl}"
  -- spec: ids consecutive, history holds the most recent events up to capacity
  else if st.ring.id != st.hist.all.length || st.ring.lowestId != st.hist.lowest then
    pure s!"spec ids impl-id={st.ring.id} impl-lowest={st.ring.lowestId} spec-len={st.hist.all.length} spec-lowest={st.hist.lowest}"
  else pure "ok"

def ringStep (st : RingSt) (j : Json) : Except String (RingSt × String) := do
  let op ← (fld j "op") >>= jStr
  match op with
  | "reset" =>
    let cap ← (fld j "cap") >>= jNat
    pure ({ st with ring := Ring.new cap, hist := Hist.new cap }, "ok")
  | "add" =>
    let ev ← (fld j "ev") >>= jNat
    let st := { st with ring := st.ring.add ev, hist := st.hist.add ev }
    pure (st, ← checkFields st j)
  | "resize" =>
    let n ← (fld j "n") >>= jNat
    let st := { st with ring := st.ring.resize n, hist := st.hist.resize n }
    pure (st, ← checkFields st j)
  | "get" =>
    let s ← (fld j "start") >>= jNat
    let c ← (fld j "count") >>= jNat
    let out ← (fld j "out") >>= jEvs
    let lo ← (fld j "lo") >>= jNat
    let hi ← (fld j "hi") >>= jNat
    let m := st.ring.getEventsFromID s c
    let sp := st.hist.get s c
    if (out, lo, hi) != m then pure (st, s!"diff get({s},{c}) model={showEvs m.1},{m.2.1},{m.2.2} impl={showEvs out},{lo},{hi}")
    else if out != sp.1.map some || lo != sp.2.1 || (hi != sp.2.2) then
      pure (st, s!"spec get({s},{c}) spec={showEvs (sp.1.map some)},{sp.2.1},{sp.2.2} impl={showEvs out},{lo},{hi}")
    else pure (st, "ok")
  | "recent" =>
    let c ← (fld j "count") >>= jNat
    let out ← (fld j "out") >>= jEvs
    let m := st.ring.getRecentEvents c
    -- spec: the last min(count, available) events
    let avail := st.hist.all.drop st.hist.lowest
    let sp := (avail.drop (avail.length - min c avail.length)).map some
    if out != m then pure (st, s!"diff recent({c}) model={showEvs m} impl={showEvs out}")
    else if out != sp then pure (st, s!"spec recent({c}) spec={showEvs sp} impl={showEvs out}")
    else pure (st, "ok")
  | "sreset" =>
    let n ← (fld j "size") >>= jNat
    pure ({ st with store := Store.new n, budget := n, stored := [] }, "ok")
  | "sstore" =>
    let ev ← (fld j "ev") >>= jNat
    let cnt ← (fld j "cnt") >>= jNat
    let s' := st.store.store ev
    let stored := if st.stored.length < st.budget then st.stored ++ [ev] else st.stored
    let st := { st with store := s', stored := stored }
    if cnt != s'.idx then pure (st, s!"diff sstore model-count={s'.idx} impl-count={cnt}")
    else if cnt != stored.length then pure (st, s!"spec sstore spec-count={stored.length} impl-count={cnt}")
    else pure (st, "ok")
  | "ssetsize" =>
    let n ← (fld j "size") >>= jNat
    pure ({ st with store := st.store.setSize n }, "ok")
  | "scollect" =>
    let out ← (fld j "out") >>= jEvs
    let (m, s') := st.store.collect
    let sp := st.stored.map some
    let budget := st.budget
    let st := { st with store := s', budget := s'.size, stored := [] }
    if out != m then pure (st, s!"diff scollect model={showEvs m} impl={showEvs out}")
    else if out != sp || out.length > budget then pure (st, s!"spec scollect spec={showEvs sp} budget={budget} impl={showEvs out}")
    else if out.length > s'.size then pure (st, s!"spec scollect-exceeds-configured-size configured={s'.size} impl={showEvs out}")
    else pure (st, "ok")
  | _ => pure (st, "bad-op")

end YkDrv
