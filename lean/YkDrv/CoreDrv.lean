/- driver: full stack.  Parses the state dumped from the real ClusterContext after every operation, evaluates the
   executable statements (CoreState.lean) on it, checks the per-operation clauses (bind guards, no new over-max, no
   new over-quota, rejected items leave no trace) against the previous dump, and runs the shim-side protocol monitor
   (C04) over the messages the core sent. -/
import YkDrv.Util
import YkDrv.QueueDrv
import YkModel.CoreState
import YkModel.CoreOps
import YkModel.Shim
import YkModel.ResSpec
import YkDrv.CoreStep
open Lean Yk Yk.Core

namespace YkDrv

def jOptStr (j : Json) : Option String := match j with | .str s => some s | _ => none

def jItem (j : Json) : Except String CItem := do
  pure { key := ← (fld j "key") >>= jStr, res := ← (fld j "res") >>= jRes, ph := ← (fld j "ph") >>= jBool,
         tg := ← (fld j "tg") >>= jStr, allocated := ← (fld j "allocated") >>= jBool, node := ← (fld j "node") >>= jStr,
         bound := ← (fld j "bound") >>= jBool, inReq := ← (fld j "inReq") >>= jBool, released := ← (fld j "released") >>= jBool,
         preempted := ← (fld j "preempted") >>= jBool, release := jOptStr (fldD j "release" .null),
         reqNode := ← (fld j "reqNode") >>= jStr }

def jPairSS (j : Json) : Except String (String × String) := do
  let a ← jArr j
  pure (← jStr a[0]!, ← jStr a[1]!)

def jPairSN (j : Json) : Except String (String × Nat) := do
  let a ← jArr j
  pure (← jStr a[0]!, ← jNat a[1]!)

def jListOf {α} (f : Json → Except String α) (j : Json) : Except String (List α) := do
  let a ← jArr j
  a.toList.mapM f

def jPhData (j : Json) : Except String (String × Nat × Nat × Nat) := do
  pure (← (fld j "tg") >>= jStr, ← (fld j "count") >>= jNat, ← (fld j "replaced") >>= jNat, ← (fld j "timedout") >>= jNat)

def jCApp (j : Json) : Except String CApp := do
  pure { id := ← (fld j "id") >>= jStr, live := (← (fld j "where") >>= jStr) == "live", queue := ← (fld j "queue") >>= jStr,
         state := ← (fld j "state") >>= jStr, user := ← (fld j "user") >>= jStr, pending := ← (fld j "pending") >>= jRes,
         allocated := ← (fld j "allocated") >>= jRes, allocatedPh := ← (fld j "allocatedPh") >>= jRes,
         phAsk := ← jRes (fldD j "phAsk" (.arr #[])),
         items := ← (fld j "items") >>= jListOf jItem, reservations := ← (fld j "reservations") >>= jListOf jPairSS,
         phData := ← (fld j "phData") >>= jListOf jPhData, log := ← (fld j "log") >>= jStrList,
         stateTimer := (jBool (fldD j "stateTimer" (.bool false))).toOption.getD false }

def jCQueue (j : Json) : Except String CQueue := do
  pure { path := ← (fld j "path") >>= jStr, parent := jOptStr (fldD j "parent" .null), leaf := ← (fld j "leaf") >>= jBool,
         managed := ← (fld j "managed") >>= jBool, max := ← jORes (fldD j "max" .null), guaranteed := ← jORes (fldD j "guaranteed" .null),
         allocated := ← (fld j "allocated") >>= jRes, pending := ← (fld j "pending") >>= jRes, preempting := ← (fld j "preempting") >>= jRes,
         maxApps := ← (fld j "maxApps") >>= jNat, running := ← (fld j "running") >>= jNat, allocating := ← (fld j "allocating") >>= jStrList,
         apps := ← (fld j "apps") >>= jStrList, reserved := ← (fld j "reserved") >>= jListOf jPairSN }

def jCNodeAlloc (j : Json) : Except String CNodeAlloc := do
  pure { key := ← (fld j "key") >>= jStr, app := ← (fld j "app") >>= jStr, res := ← (fld j "res") >>= jRes,
         foreign := ← (fld j "foreign") >>= jBool, ph := ← (fld j "ph") >>= jBool }

def jCNode (j : Json) : Except String CNode := do
  pure { id := ← (fld j "id") >>= jStr, total := ← (fld j "total") >>= jRes, occupied := ← (fld j "occupied") >>= jRes,
         allocated := ← (fld j "allocated") >>= jRes, available := ← (fld j "available") >>= jRes,
         schedulable := ← (fld j "schedulable") >>= jBool, allocs := ← (fld j "allocs") >>= jListOf jCNodeAlloc,
         reservations := ← (fld j "reservations") >>= jStrList }

def jUsageEntry (j : Json) : Except String UsageEntry := do
  pure { path := ← (fld j "path") >>= jStr, usage := ← (fld j "usage") >>= jRes, apps := ← (fld j "apps") >>= jStrList,
         max := ← jORes (fldD j "max" .null), maxApps := ← (fld j "maxApps") >>= jNat }

def jTracker (j : Json) : Except String (String × List UsageEntry) := do
  pure (← (fld j "name") >>= jStr, ← (fld j "queues") >>= jListOf jUsageEntry)

def jCore (j : Json) : Except String Core := do
  let cnt ← (fld j "counters") >>= jListOf jNat
  pure { nodes := ← (fld j "nodes") >>= jListOf jCNode, queues := ← (fld j "queues") >>= jListOf jCQueue,
         apps := ← (fld j "apps") >>= jListOf jCApp, total := ← (fld j "total") >>= jRes,
         allocations := cnt.getD 0 0, phAllocations := cnt.getD 1 0, reservations := cnt.getD 2 0,
         foreign := ← (fld j "foreign") >>= jStrList,
         users := ← (fld j "users") >>= jListOf jTracker, groups := ← (fld j "groups") >>= jListOf jTracker }

/-! ### shim-side protocol monitor (C04): the automaton of YkModel/Shim.lean run on the recorded SI traffic -/

/-- the request of the shim as protocol messages -/
def shimSendMsgs (op : String) (j : Json) : List ShimMsg :=
  let s (k : String) := (jStr (fldD j k (.str ""))).toOption.getD ""
  match op with
  | "node" =>
    (match s "action" with
     | "create" | "create-drain" => [.nodeCreate (s "id")]
     | "decommission" => [.nodeRemove (s "id")]
     | _ => [])
  | "app-add" => [.appAdd (s "id")]
  | "app-remove" => [.appRemove (s "id")]
  | "alloc" =>
    if (jBool (fldD j "foreign" (.bool false))).toOption.getD false then []
    else if s "node" == "" then [.ask (s "key") (s "app")] else [.place (s "key") (s "app") (s "node")]
  | "release" => if s "app" == "" then [] else if s "key" == "" then [.releaseApp (s "app")] else [.releaseKey (s "key")]
  | _ => []

def shimRecvMsg (m : Json) : Option ShimMsg :=
  let s (k : String) := (jStr (fldD m k (.str ""))).toOption.getD ""
  match s "t" with
  | "alloc" => some (.newAlloc (s "key") (s "app") (s "node"))
  | "release" => some (.release (s "key") (s "type" == "PLACEHOLDER_REPLACED" || s "type" == "TIMEOUT" || s "type" == "PREEMPTED_BY_SCHEDULER"))
  | "app-accepted" => some (.appAccepted (s "app"))
  | "app-rejected" => some (.appRejected (s "app"))
  | "node-accepted" => some (.nodeAccepted (s "node"))
  | "node-rejected" => some (.nodeRejected (s "node"))
  | _ => none

/-- which clause a refused message violates (diagnostics only; the verdict is `ShimView.step = none`) -/
def shimWhy (v : ShimView) : ShimMsg → String
  | .newAlloc key app node =>
    if !(v.asks.any (fun a => a.1 == key && a.2 == app)) then
      (if v.bound.any (fun b => b.1 == key && b.2.1 == app && b.2.2 == node) then s!"alloc-announced-twice {key}" else s!"alloc-ask-not-outstanding {key}")
    else if !(v.apps.contains app) then s!"alloc-app-not-accepted {key}/{app}"
    else if !(v.nodes.contains node) then s!"alloc-node-not-registered {key}@{node}"
    else s!"alloc-key-bound-twice {key}"
  | .release key _ => s!"release-unknown-allocation {key}"
  | .appAccepted a | .appRejected a => s!"answer-unsubmitted-app {a}"
  | .nodeAccepted n | .nodeRejected n => s!"answer-unsubmitted-node {n}"
  | _ => "refused"

structure CoreSt where
  prev : Option Core := none
  shim : ShimView := {}
  rmPlaced : List String := []   -- keys the RM itself reported as bound (external placement / recovery)
  lostInflight : List String := []   -- real halves of cross-node replacements whose ask was released while in flight (known class I7r)
  lostTimeout : List String := []    -- … whose ask was dropped by the placeholder timeout of a not yet running application (known class I7o)
  everBound : List String := []      -- keys the core announced as allocated or the RM reported as bound, at any time
  phGoneByRM : List String := []     -- real halves whose placeholder the RM released while the swap was in flight (known class C06 …+placeholder-released-by-rm)
  swapRolledBack : List String := [] -- applications whose in-flight swap was rolled back by the removal of a node (no longer a known class: repaired in 20ee082; kept as an observation)

def firstSome (l : List (Unit → Option String)) : Option String := l.findSome? (fun f => f ())

/-- clauses that relate the state before and after one operation -/
def stepClauses (op : String) (_j : Json) (pre post : Core) (msgs : List Json) : List String :=
  let s (m : Json) (k : String) := (jStr (fldD m k (.str ""))).toOption.getD ""
  let newAllocs := msgs.filter (fun m => s m "t" == "alloc")
  List.filterMap (fun (f : Unit → Option String) => f ()) [
    -- C01 bind guards: every allocation the scheduler itself decides in a scheduling cycle: the ones it announces
    -- (normal, reserved, placeholder) and the real halves of placeholder replacements it puts on ANOTHER node (these are
    -- announced only when the shim confirms the swap, but the node is chosen and charged now). A replacement on the
    -- placeholder's own node is not a new bind: the property does not list it.
    fun _ => if op != "schedule" then none else
      -- (an allocation the RM itself places inside the decision/confirmation window — scripted scenarios only — is
      --  announced in the same line but is not a decision of the scheduler)
      let rmPlacedNow : String := match _j.getObjVal? "interrupt" with
        | .ok ij => if s ij "op" == "alloc" && s ij "node" != "" then s ij "key" else ""
        | .error _ => ""
      let announced : List (String × String × String) :=
        (newAllocs.filter (fun m => rmPlacedNow == "" || s m "key" != rmPlacedNow)).map (fun m => (s m "key", s m "app", s m "node"))
      let swapped : List (String × String × String) := (post.apps.map (fun a => a.items.filterMap (fun i =>
          if !i.inflightReal then none else
          match (pre.findApp a.id).bind (fun pa => pa.items.find? (·.key == i.key)) with
          | some pi => if pi.inflightReal then none else
              (match i.release.bind (fun pk => a.items.find? (·.key == pk)) with
               | some p => if p.node == i.node then none else some (i.key, a.id, i.node)
               | none => some (i.key, a.id, i.node))
          | none => none))).flatten
      (announced ++ swapped).findSome? (fun (key, app, node) =>
        match pre.findNode node, pre.findApp app with
        | none, _ => some s!"C01.bind-unregistered-node {key}@{node}"
        | _, none => some s!"C01.bind-unknown-application {key}/{app}"
        | some n, some a =>
          match a.items.find? (·.key == key) with
          | none => some s!"C01.bind-unknown-ask {key}"
          | some i =>
            let isSwap := swapped.any (·.1 == key)
            if !n.schedulable then
              -- known classes (KNOWN_FINDINGS C01): the required-node and the reserved-allocation paths do not look at the flag
              (if i.reqNode != "" then some s!"C01.bind-unschedulable-node-required {key}@{node}"
               else if n.reservations.contains key then some s!"C01.bind-unschedulable-node-reserved {key}@{node}"
               else some s!"C01.bind-unschedulable-node {key}@{node}")
            else if i.reqNode != "" && i.reqNode != node then some s!"C01.bind-not-required-node {key}@{node}"
            -- (an ask that requires this node cancels the reservations of others: tryRequiredNode)
            -- (a reservation the scheduler cancelled in the same cycle — timeout, preemption — is gone afterwards: only a
            --  reservation of another ask that is still there after the bind means the node was given away while reserved)
            else if !(n.reservations.isEmpty || n.reservations.contains key || i.reqNode == node) &&
                    (match post.findNode node with
                     | some pn => pn.reservations.any (fun k => k != key && n.reservations.contains k)
                     | none => false) then some s!"C01.bind-node-reserved-for-other {key}@{node}{if isSwap then " (replacement)" else ""}"
            else if !(fitInStd (some n.available) (some i.res)) then some s!"C01.bind-does-not-fit {key}@{node} ask={showRes i.res} available={showRes n.available}"
            -- … and the shim's predicate accepted this ask on this node in allocate mode during the cycle (the harness
            -- records what its predicate plugin answered yes to)
            else if (_j.getObjVal? "preds").toOption.isSome &&
                    !(((jArr (fldD _j "preds" (.arr #[]))).toOption.getD #[]).toList.any (fun p => (jStr p).toOption.getD "" == key ++ "|" ++ node)) then
              some s!"C01.bind-without-predicate {key}@{node}{if isSwap then " (replacement)" else ""}"
            else none),
    -- C01: available can only become (more) negative by an externally forced change: not by a scheduling cycle, a
    -- timer, a release or the confirmation of a placeholder swap
    fun _ => if !(op == "schedule" || op == "release" || op == "ph-timeout" || op == "state-timeout") then none else
      post.nodes.findSome? (fun n => match pre.findNode n.id with
        | none => none
        | some pn => n.available.findSome? (fun (k, v) =>
            if v < 0 && v < Res.getD pn.available k then some s!"C01.available-negative-unforced {n.id}/{k} {Res.getD pn.available k} → {v}" else none)),
    -- C06: after the shim confirms a swap the placeholder is gone and node and queue usage reflect the real allocation:
    -- every queue of the application's path moves by exactly (real − placeholder), the placeholder's node loses the
    -- placeholder (and, for a swap on the same node, gains the real allocation), the application lists the real one
    fun _ => if !(op == "release" && (jStr (fldD _j "type" (.str ""))).toOption.getD "" == "PLACEHOLDER_REPLACED") then none else
      let app := (jStr (fldD _j "app" (.str ""))).toOption.getD ""
      let pk := (jStr (fldD _j "key" (.str ""))).toOption.getD ""
      match pre.findApp app with
      | none => none
      | some a =>
        -- (an application that terminates with this confirmation leaves its queue: its usage goes with it)
        if !a.live || !((post.findApp app).map (·.live)).getD false then none else
        match a.items.find? (fun i => i.key == pk && i.bound && i.ph) with
        | none => none
        | some ph =>
          match ph.release.bind (fun rk => a.items.find? (fun i => i.key == rk && i.inflightReal)) with
          | none => none
          | some real =>
            -- (the known classes I7r/I7o: the real half was dropped meanwhile — judged by the C03 clauses)
            if !(newAllocs.any (fun m => s m "key" == real.key)) then none else
            let qbad := (pathChain pre a.queue).findSome? (fun qp =>
              match pre.findQueue qp, post.findQueue qp with
              | some q0, some q1 =>
                if sparseEq q1.allocated (addX (subX q0.allocated ph.res) real.res) then none
                else some s!"C06.swap-queue-usage {qp} before={showRes q0.allocated} placeholder={showRes ph.res} real={showRes real.res} after={showRes q1.allocated}"
              | _, _ => none)
            let nbad := match pre.findNode ph.node, post.findNode ph.node with
              | some n0, some n1 =>
                let want := if real.node == ph.node then addX (subX n0.allocated ph.res) real.res else subX n0.allocated ph.res
                if sparseEq n1.allocated want then none
                else some s!"C06.swap-node-usage {ph.node} before={showRes n0.allocated} after={showRes n1.allocated}"
              | _, _ => none
            let abad := match post.findApp app with
              | some a1 => if a1.items.any (fun i => i.key == pk && i.bound) then some s!"C06.swap-placeholder-still-bound {pk}"
                           else if !(a1.items.any (fun i => i.key == real.key && i.bound)) then some s!"C06.swap-real-not-bound {real.key}" else none
              | none => none
            qbad.orElse (fun _ => nbad.orElse (fun _ => abad)),
    -- C02: a scheduling cycle creates no new over-max usage
    fun _ => if op != "schedule" then none else
      post.queues.findSome? (fun q => match pre.findQueue q.path with
        | none => none
        | some pq =>
          let mk (c : CQueue) : Q := { path := c.path, parent := c.parent.map (fun _ => 0), max := c.max, guaranteed := c.guaranteed,
                                       allocated := c.allocated, maxApps := 0, running := 0, allocating := [] }
          (q.allocated.keys ++ (orZero q.max).keys).findSome? (fun k =>
            if QTree.overMax (mk q) k && !QTree.overMax (mk pq) k then some s!"C02.sched-new-overmax {q.path}/{k}" else none)),
    -- C02, counted from the applications: what the applications at or below a queue hold (real + placeholder) does not
    -- newly exceed the queue's maximum through a scheduling decision (a cycle, or the confirmation of a swap it decided),
    -- whatever the queue's own counter says
    fun _ => if !(op == "schedule" || (op == "release" && (jStr (fldD _j "type" (.str ""))).toOption.getD "" == "PLACEHOLDER_REPLACED")) then none else
      let held (c : Core) (qp : String) : Res :=
        (c.liveApps.filter (fun a => under a.queue qp)).foldl (fun acc a => addX (addX acc a.allocated) a.allocatedPh) []
      post.queues.findSome? (fun q => match q.max with
        | none => none
        | some m =>
          if q.parent.isNone then none else
          let h1 := held post q.path
          let h0 := held pre q.path
          m.findSome? (fun (k, v) =>
            if decide (Res.getD h1 k > max 0 v) && decide (Res.getD h1 k > Res.getD h0 k) then
              some s!"C02.sched-new-overmax-by-applications {q.path}/{k} held={Res.getD h1 k} max={v}" else none)),
    -- C05: a scheduling decision creates no new over-quota usage: neither a scheduling cycle nor the confirmation of a
    -- swap the scheduler decided (the real allocation is booked on the user when the shim confirms)
    fun _ => if !(op == "schedule" || (op == "release" && (jStr (fldD _j "type" (.str ""))).toOption.getD "" == "PLACEHOLDER_REPLACED")) then none else
      (post.users ++ post.groups).findSome? (fun u => u.2.findSome? (fun e =>
        if !usageOver e then none else
        let before := ((pre.users ++ pre.groups).lookup u.1).bind (fun es => es.find? (·.path == e.path))
        match before with
        | some b => if usageOver b then none else some s!"C05.sched-new-overquota {u.1}@{e.path}"
        | none => some s!"C05.sched-new-overquota {u.1}@{e.path}")),
    -- C04 / C13: a rejected item leaves no trace: node, queue, application ledgers and user trackers exactly as before
    fun _ =>
      let rejected := msgs.any (fun m => s m "t" == "alloc-rejected" || s m "t" == "app-rejected" || s m "t" == "node-rejected")
      let accepted := msgs.any (fun m => s m "t" == "alloc" || s m "t" == "app-accepted" || s m "t" == "node-accepted")
      if !rejected || accepted then none else
      -- known class (KNOWN_FINDINGS C04): AddApplication creates the dynamic queue before its task-group checks refuse the
      -- application; the empty queue stays until the queue cleaner removes it
      let leftQueues := post.queues.filter (fun q => (pre.findQueue q.path).isNone && q.apps.isEmpty)
      if op == "app-add" && !leftQueues.isEmpty &&
         (ledgerDiff pre { post with queues := post.queues.filter (fun q => (pre.findQueue q.path).isSome) }).isNone then
        some s!"C04.rejected-leaves-trace+dynamic-queue-left-by-rejected-application {(leftQueues.map (·.path))}"
      else
      match ledgerDiff pre post with
      | some d => some s!"C04.rejected-leaves-trace {d}"
      | none => if pre.users != post.users || pre.groups != post.groups then some "C04.rejected-leaves-trace user-trackers" else none,
    -- C11: first allocation of an application not yet counted as running passes the gate
    fun _ => if op != "schedule" then none else
      newAllocs.findSome? (fun m =>
        let app := s m "app"
        match pre.findApp app with
        | none => none
        | some a =>
          if a.state != "Accepted" && a.state != "New" then none else
          pre.queues.findSome? (fun q =>
            if under a.queue q.path && q.maxApps != 0 && !q.allocating.contains app && q.running + q.allocating.length + 1 > q.maxApps
            then some s!"C11.gate {app}@{q.path}" else none)),
    -- C11: the application-tag based limit (namespace.resourcemaxapps) of an accepted application is in force on its
    -- dynamic (unmanaged) queue, whatever other tags the application carries (PartitionContext.AddApplication)
    fun _ => if op != "app-add" then none else
      let tagV : Nat := match _j.getObjVal? "tags" with
        | .ok t => ((jStr (fldD t "namespace.resourcemaxapps" (.str ""))).toOption.getD "").toNat?.getD 0
        | .error _ => 0
      if tagV == 0 then none else
      let id := s _j "id"
      if (pre.findApp id).isSome then none else   -- a duplicate submission is refused
      match post.findApp id with
      | none => none
      | some a =>
        match post.findQueue a.queue with
        | none => none
        | some q =>
          if q.managed || a.queue.toLower == "root.@recovery@" then none
          else if q.maxApps == tagV then none
          else some s!"C11.tag-limit-not-installed {id}@{q.path} tag={tagV} maxApps={q.maxApps}"
  ]

def coreStep (st : CoreSt) (j : Json) : Except String (CoreSt × String) := do
  let op ← (fld j "op") >>= jStr
  if op == "reset" then
    match j.getObjVal? "st" with
    | .ok d => let c ← jCore d; return ({ prev := some c, shim := {} }, "ok")
    | .error _ => return ({ prev := none, shim := {} }, "ok")   -- configuration refused by the core
  let post ← (fld j "st") >>= jCore
  let msgs := ((jArr (fldD j "msgs" (.arr #[]))).toOption.getD #[]).toList
  -- the shim view. A request that adds something is applied first, then the core's messages; a release / removal
  -- request is applied after them: the core answers it by announcing exactly what it released.
  let removal := op == "release" || op == "app-remove" || (op == "node" && (jStr (fldD j "action" (.str ""))).toOption.getD "" == "decommission")
  -- a request the core rejects is not part of the shim's view: a rejected new ask / placement was never accepted, a
  -- rejected update of an outstanding ask leaves that ask as it was
  let allocRejected := op == "alloc" && msgs.any (fun m => (jStr (fldD m "t" (.str ""))).toOption.getD "" == "alloc-rejected")
  let sendAll (v : ShimView) : ShimView := if allocRejected then v else (shimSendMsgs op j).foldl (fun v m => (v.step m).getD v) v
  let v1 := if removal then st.shim else sendAll st.shim
  -- a scheduling cycle interrupted by an RM removal request between the decision and its confirmation: the core first
  -- answers the removal (release messages), the request then takes effect in the shim's view, and whatever the core
  -- announces afterwards (the allocation it confirms) is judged against the view after the removal
  let (eop, ej) : String × Json := match (if op == "schedule" then (j.getObjVal? "interrupt").toOption else none) with
    | some ij => ((jStr (fldD ij "op" (.str ""))).toOption.getD "", ij)
    | none => (op, j)
  let interrupted := op == "schedule" && eop != "schedule"
  let sendInt (v : ShimView) : ShimView := (shimSendMsgs eop ej).foldl (fun v m => (v.step m).getD v) v
  let (v2i, protoErr, intApplied) := msgs.foldl (fun (acc : ShimView × Option String × Bool) m =>
      let isAlloc := (jStr (fldD m "t" (.str ""))).toOption.getD "" == "alloc"
      let (v0, ap) := if interrupted && !acc.2.2 && isAlloc then (sendInt acc.1, true) else (acc.1, acc.2.2)
      match acc.2.1, shimRecvMsg m with
      | some e, _ => (v0, some e, ap)
      | none, none => (v0, none, ap)
      | none, some sm => match v0.step sm with
        | some v => (v, none, ap)
        | none => (v0, some (shimWhy v0 sm), ap)) (v1, none, false)
  let v2' := if interrupted && !intApplied then sendInt v2i else v2i
  let v2 := if removal then sendAll v2' else v2'
  let placed := if op == "alloc" && (jStr (fldD j "node" (.str ""))).toOption.getD "" != "" then
      (jStr (fldD j "key" (.str ""))).toOption.getD "" :: st.rmPlaced else st.rmPlaced
  let st' : CoreSt := { prev := some post, shim := v2, rmPlaced := placed }
  -- every failing clause, tagged with the property it belongs to: "<Cxx>.<clause> detail"
  let tag (p : String) (o : Option String) : List String := match o with | some e => [p ++ "." ++ e] | none => []
  let fails : List String :=
    (conservedAll post).map (fun e => "C03." ++ e) ++
    tag "C01" (nodeLedger post) ++
    tag "C09" (resOK post) ++
    tag "C06" (gangOK post) ++
    tag "C10" (lifecycleOK post) ++
    tag "C10" (idleOK post) ++
    tag "C02" (rootMaxOK post) ++
    tag "C11" (countersOK post) ++
    tag "C05" (usageOK post) ++
    tag "C05" (limitPathOK post) ++
    (match st.prev with
     | some pre => (stepClauses op j pre post msgs)
     | none => []) ++
    tag "C04" protoErr
  -- consequences of one root cause are marked: an allocation of a terminated application that was never released
  -- (I7t) also shows in the allocation counter and in the user's tracked usage, also after its node is gone
  let terminatedHolding := post.apps.filter (fun a => !a.live && a.items.any (·.bound))
  let suffix : Option String :=
    if terminatedHolding.any (fun a => a.items.any (fun i => i.bound && i.ph)) then some "+I7p"
    else if terminatedHolding.any (fun a => a.log.contains "Failed") then some "+I7t"
    else if !terminatedHolding.isEmpty then some "+I7c" else none
  let fails := match suffix with
    | some sfx => fails.map (fun f =>
        if f.startsWith "C03.I10 " then "C03.I10" ++ sfx ++ " " ++ (f.drop 8).toString
        else if f.startsWith "C05.usage-ne-sum " then "C05.usage-ne-sum" ++ sfx ++ " " ++ (f.drop 17).toString else f)
    | none => fails
  -- C06: no placeholder outlives its application
  let fails := fails ++ (terminatedHolding.filterMap (fun a =>
      (a.items.find? (fun i => i.bound && i.ph)).map (fun i => s!"C06.placeholder-outlives-application {a.id} {i.key}")))
  -- … seen from the nodes: a placeholder on a node belongs to a live application that still lists it as bound
  let fails := fails ++ (post.nodes.map (fun n => n.allocs.filterMap (fun na =>
      if !na.ph || na.foreign then none else
      match post.findApp na.app with
      | none => some s!"C06.placeholder-outlives-application {na.app} {na.key}@{n.id}"
      | some ap =>
        if !ap.live then none   -- reported from the application's side above
        else if ap.items.any (fun i => i.key == na.key && i.bound) then none
        else some s!"C06.placeholder-left-on-node {na.app} {na.key}@{n.id}"))).flatten
  -- Known class (KNOWN_FINDINGS C03.I7r / C04): the RM releases a real ask whose placeholder replacement is in flight.
  -- removeAllocation does not find it among the allocations and only drops the ask: the real half already placed on
  -- another node stays there, and the confirmation of the swap later announces the released ask as a new allocation.
  let relKey := if eop == "release" then (jStr (fldD ej "key" (.str ""))).toOption.getD "" else ""
  let relApp := if eop == "app-remove" then (jStr (fldD ej "id" (.str ""))).toOption.getD ""
                else if eop == "release" && relKey == "" then (jStr (fldD ej "app" (.str ""))).toOption.getD "" else ""
  let releasedNow : List String := match st.prev with
    | some pre =>
        (pre.liveApps.map (fun a => (a.items.filter (fun i => i.inflightReal && ((relKey != "" && i.key == relKey) || (relApp != "" && a.id == relApp)))).map (·.key))).flatten
    | none => []
  -- (same class when the placeholder timeout already dropped the real ask of the in-flight swap — C03.I7o, recorded in
  --  lostTimeout — and the shim releases that key while the placeholder still names it as its replacement: the item that
  --  carried `inflightReal` is gone, the in-flight allocation is not)
  let releasedAfterTimeout : List String := match st.prev with
    | some pre =>
        if relKey != "" && st.lostTimeout.contains relKey &&
            pre.liveApps.any (fun a => a.items.any (fun i => i.ph && i.release == some relKey)) then [relKey] else []
    | none => []
  let lost := st.lostInflight ++ releasedNow ++ releasedAfterTimeout
  -- Known class (KNOWN_FINDINGS C03.I7o): the placeholder timeout of an application that is not yet Running drops every
  -- ask (removeAsksInternal("")), also the real ask whose replacement on another node is in flight
  let timedOutNow : List String := match st.prev with
    | some pre => if op != "ph-timeout" then [] else
        (pre.liveApps.map (fun a => (a.items.filter (fun i => i.inflightReal && a.id == (jStr (fldD j "app" (.str ""))).toOption.getD "")).map (·.key))).flatten
    | none => []
  let lostT := st.lostTimeout ++ timedOutNow
  -- Known class (KNOWN_FINDINGS C10): a node is removed while a swap of the application is in flight: its allocations on
  -- the node are released (the application becomes Completing when they were its last ones) and only then the swap is
  -- rolled back: the real ask is pending again in a Completing application
  let keyOf (f : String) : String := ((f.splitOn " ").getLast!.splitOn "@").head!
  let rolledNow : List String := match st.prev with
    | some pre => if !(eop == "node" && (jStr (fldD ej "action" (.str ""))).toOption.getD "" == "decommission") then [] else
        (pre.liveApps.filter (fun a => a.items.any (·.inflightReal))).map (·.id)
    | none => []
  -- Known class (KNOWN_FINDINGS C06): the RM itself releases a placeholder whose swap is in flight (STOPPED_BY_RM by key, for
  -- the whole application): the placeholder goes, its real half stays allocated-but-unbound for good
  let relType := if eop == "release" then (jStr (fldD ej "type" (.str ""))).toOption.getD "" else ""
  let phGoneNow : List String := match st.prev with
    | some pre => if !(relType == "STOPPED_BY_RM" || relType == "UNKNOWN") then [] else
        (pre.liveApps.map (fun a => (a.items.filterMap (fun i =>
          if i.ph && i.bound && ((relKey != "" && i.key == relKey) || (relApp != "" && a.id == relApp)) then i.release else none)))).flatten
    | none => []
  let phGone := st.phGoneByRM ++ phGoneNow
  let rolled := st.swapRolledBack ++ rolledNow
  -- C06: a real ask that counts as allocated has been bound at some time (it may linger in the requests after its
  -- release: observation, not a violation) or is the real half of a swap in flight; an allocated ask that was never
  -- announced and is linked to no placeholder is lost: it is never scheduled again
  let msgT (m : Json) (k : String) := (jStr (fldD m k (.str ""))).toOption.getD ""
  -- C04: only the confirmation of a replacement (PLACEHOLDER_REPLACED) makes the release path announce an allocation;
  -- a plain release (by key or of everything, any other termination type) announces none
  let fails := fails ++ (if op == "release" && relType != "PLACEHOLDER_REPLACED" then
      msgs.filterMap (fun m => if msgT m "t" == "alloc" then some s!"C04.alloc-announced-by-plain-release {msgT m "key"}" else none) else [])
  let everBound := st.everBound ++ (msgs.filterMap (fun m => if msgT m "t" == "alloc" then some (msgT m "key") else none)) ++
      (if op == "alloc" && (jStr (fldD j "node" (.str ""))).toOption.getD "" != "" then [(jStr (fldD j "key" (.str ""))).toOption.getD ""] else [])
  let fails := fails ++ (post.liveApps.map (fun a => a.items.filterMap (fun i =>
      if !i.ph && i.allocated && !i.bound && i.inReq && !i.released && i.release.isNone && !everBound.contains i.key then
        some s!"C06.allocated-ask-never-bound-and-not-in-flight {i.key}" else none))).flatten
  -- C10, judged from the shim's side: an application that reports Completed has no ask outstanding (submitted, neither
  -- announced as allocated nor released by either side)
  let fails := fails ++ (post.apps.filterMap (fun a =>
      -- (a completed application's id can be submitted again: the record of the old one is not the new application)
      if a.state != "Completed" || post.liveApps.any (fun l => l.id == a.id && l.state != "Completed") then none else
      (v2.asks.find? (fun k => k.2 == a.id && !v2.releasing.contains k.1)).map (fun k =>
        -- (known class C06 …+placeholder-released-by-rm: the real half of a swap whose placeholder the RM released stays
        --  allocated-but-unbound for good; the application completes around it)
        if phGone.contains k.1 then s!"C10.completed-with-outstanding-ask+placeholder-released-by-rm {a.id} {k.1}"
        else s!"C10.completed-with-outstanding-ask {a.id} {k.1}")))
  let st' : CoreSt := { st' with lostInflight := lost, lostTimeout := lostT, swapRolledBack := rolled, phGoneByRM := phGone, everBound := everBound }
  let fails := fails.map (fun f =>
      if f.startsWith "C06.inflight-real-without-placeholder " && phGone.contains (keyOf f) then
        "C06.inflight-real-without-placeholder+placeholder-released-by-rm " ++ keyOf f else f)
  let fails := fails.map (fun f =>
      if (f.startsWith "C03.I7 allocation not listed by its application " || f.startsWith "C03.I7 allocation of unknown application ") && lost.contains (keyOf f) then "C03.I7r " ++ (f.drop 7).toString
      else if (f.startsWith "C03.I7 allocation not listed by its application " || f.startsWith "C03.I7 allocation of unknown application ") && lostT.contains (keyOf f) then "C03.I7o " ++ (f.drop 7).toString
      else if f.startsWith "C04." && !f.startsWith "C04.alloc-announced-by-plain-release" && lost.contains (keyOf f) then
        -- every protocol clause about such a key is a consequence of the same root cause
        (match f.splitOn " " with
         | tag :: rest => tag ++ "+released-inflight-replacement " ++ " ".intercalate rest
         | [] => f)
      else f)
  -- one-step refinement: the model stepped from the implementation's previous state must reach its new state (YkDrv/CoreStep.lean)
  let stepped : Option Core := st.prev.bind (fun pre => steppedModel pre post op j msgs)
  let diff : Option String := stepped.bind (fun m => (ledgerDiff m post).map (fun e => "diff core." ++ op ++ " " ++ e))
  let okTag := if stepped.isSome then "ok" else "ok unmodelled"
  match diff, fails.isEmpty with
  | none, true => return (st', okTag)
  | some d, true => return (st', d)
  | none, false => return (st', "inv " ++ " ;; ".intercalate fails)
  | some d, false => return (st', d ++ " ;; " ++ " ;; ".intercalate fails)

end YkDrv
