/- driver: C14 lock order. Stateless.
   op "table"  : judge the REGENERATED table (Yk.Gen.LockOrder.edges) against the policy (YkModel/LockPolicy.lean):
                 every in-scope edge must be ranked; known findings present in the table are reported under their id.
   op "replay" : a deadlock replay executed by the harness on the real code (two-goroutine schedule, timeout,
                 go-deadlock report); a replay that blocks is a finding under the id of its scenario.
   op "final"  : a concurrent final-state scenario executed by the harness on the real objects (expected vs settled state).
   op "policy" : print the exclusion list (trusted base) — used by ./check to show it. -/
import YkDrv.Util
import YkModel.LockPolicy
open Lean Yk Yk.Gen.LockOrder Yk.LockPolicy

namespace YkDrv

private def clip (s : String) (n : Nat) : String := if s.length ≤ n then s else (s.take n).toString ++ "…"

def lockTableClauses : List String :=
  let bad := unranked.map (fun e =>
    s!"C14.unranked-edge[{edgeIdent e}] no-failing-input-found: new lock-order edge that the rank cannot order; witness: {e.witness}")
  let cls := unknownClasses.map (fun n => s!"C14.unranked-class[{n}] lock class without a rank in YkModel/LockPolicy.lean")
  let asm := (if leaks.isEmpty then [] else [s!"C14.translator-assumption[lock-held-at-return] {leaks}"]) ++
             (if unresolved.isEmpty then [] else [s!"C14.translator-assumption[unresolved-lock-owner] {unresolved}"])
  let known := knownBad.filterMap (fun p =>
    match edges.filter p.matches with
    | [] => none
    | e :: rest => some s!"C14.{p.id} unrankable edge in the regenerated table ({rest.length + 1} holder/locker pairs), e.g. {edgeIdent e}; witness: {e.witness}")
  bad ++ cls ++ asm ++ known

def lockPolicyText : String :=
  let ex := excluded.map (fun p =>
    s!"EXCLUDED {p.id} [{p.held} -> {p.acq}/{relStr p.rel}; matches {(edges.filter p.matches).length} edges]: {p.why}")
  let kb := knownBad.map (fun p =>
    s!"KNOWN-BAD {p.id} [{p.held} -> {p.acq}/{relStr p.rel}; matches {(edges.filter p.matches).length} edges]")
  " ;; ".intercalate (kb ++ ex)

/-- replays without a lock-order edge of the current table behind them: the race / settled-state clauses (evidence, not
    theorem) and the regression scenarios of repaired defects -/
def raceScenarios : List String := ["cc-self-removePartition", "race-rejected-applications-map",
  "orphan-allocation-app-removed-while-allocating", "panic-usertracker-removed-while-scheduling",
  "race-root-max-shared-with-partition-total"]

def lockStep (j : Json) : Except String String := do
  let op ← (fld j "op") >>= jStr
  match op with
  | "table" =>
    let cl := lockTableClauses
    if cl.isEmpty then pure "ok" else pure ("inv " ++ " ;; ".intercalate cl)
  | "policy" => pure ("ok policy " ++ lockPolicyText)
  | "replay" =>
    let name ← (fld j "name") >>= jStr
    let dl ← (fld j "deadlock") >>= jBool
    let detail := (fldD j "detail" (Json.str "")).getStr?.toOption.getD ""
    let expect := (fldD j "expect" (Json.str "deadlock")).getStr?.toOption.getD "deadlock"
    let crash := (jBool (fldD j "crash" (Json.bool false))).toOption.getD false
    let knownIds := knownBad.map (·.id) ++ excluded.map (·.id) ++ raceScenarios
    if crash && name.startsWith "panic-" then pure s!"inv C14.{name} replay on the real code: a goroutine of the core panics and takes the process down: {clip detail 900}"
    else if !knownIds.contains name then throw s!"replay of an unknown scenario {name}"
    else if (jBool (fldD j "drift" (Json.bool false))).toOption.getD false then
      pure s!"inv C14.{name} replay on the real code: the settled state is inconsistent: {clip detail 900}"
    else if (jBool (fldD j "failed" (Json.bool false))).toOption.getD false then
      pure s!"inv C14.{name} replay on the real code does not end in the expected state: {clip detail 900}"
    else if crash then pure s!"inv C14.{name} replay on the real code: the Go runtime aborts the process: {clip detail 900}"
    else if dl then pure s!"inv C14.{name} replay on the real code blocks for good: {clip detail 900}"
    else if expect == "deadlock" || expect == "crash" || expect == "drift" then pure "ok unmodelled replay did not fail in this run"
    else pure "ok"
  | "final" =>
    -- concurrent final-state scenario (harness/lockfinal.go): several goroutines drive the real objects at the same
    -- instant from a clean state; after everything settled the final state must equal the sum of what was done
    let sc ← (fld j "scenario") >>= jStr
    let seed := (fldD j "seed" (Json.num 0)).compress
    let n := (jNat (fldD j "nmismatch" (Json.num 0))).toOption.getD 0
    let checks := (jNat (fldD j "checks" (Json.num 0))).toOption.getD 0
    let crashed := (jBool (fldD j "crash" (Json.bool false))).toOption.getD false
    let detail := (fldD j "detail" (Json.str "")).getStr?.toOption.getD ""
    let ms := ((jArr (fldD j "mismatches" (Json.arr #[]))).toOption.getD #[]).toList.filterMap (fun x => x.getStr?.toOption)
    if crashed then pure s!"inv C14.final-state[{sc}] seed {seed}: the scenario died: {clip detail 700}"
    else if n > 0 then
      pure s!"inv C14.final-state[{sc}] seed {seed}: {n} of {checks} comparisons of the settled state with what the goroutines did fail ({detail}); first: {clip (" | ".intercalate (ms.take 3)) 900}"
    else if checks == 0 then throw s!"final-state scenario {sc} made no comparison"
    else pure "ok"
  | "stress" =>
    -- thorough tier, evidence only: concurrent full stack under -race with go-deadlock enabled
    let races ← (fld j "races") >>= jNat
    let dl ← (fld j "deadlock") >>= jBool
    let blocked ← (fld j "blocked") >>= jNat
    let detail := (fldD j "detail" (Json.str "")).getStr?.toOption.getD ""
    let crashed := (jBool (fldD j "crash" (Json.bool false))).toOption.getD false
    let cl := (if crashed then [s!"C14.stress-crash the concurrent run died: {clip detail 600}"] else []) ++
              (let sigs := ((jArr (fldD j "race_sigs" (Json.arr #[]))).toOption.getD #[]).toList.filterMap (fun x => x.getStr?.toOption)
               if races > 0 && sigs.isEmpty then [s!"C14.race {races} data race report(s): {clip detail 600}"]
               else sigs.map (fun g => s!"C14.race[{g}] data race reported by the race detector between these two functions ({races} reports in the run)")) ++
              (if dl then [s!"C14.stress-deadlock go-deadlock report during the concurrent run: {clip detail 600}"] else []) ++
              (if (jBool (fldD j "negative_counters" (Json.bool false))).toOption.getD false then
                 [s!"C14.final-state-negative-counter a partition counter is negative at quiescence: {(fldD j "counters" Json.null).compress}; the full-stack monitors were not evaluated"] else []) ++
              (if blocked > 0 then [s!"C14.stress-blocked {blocked} goroutine(s) of the core still blocked on a lock at quiescence: {clip detail 600}"] else [])
    if cl.isEmpty then pure "ok" else pure ("inv " ++ " ;; ".intercalate cl)
  | _ => throw s!"unknown lock op {op}"

end YkDrv
