/- driver: preemption (C07 victim eligibility, C08 guarantees / no kill without effect).
   A "reset" line carries a world (queues with the effective values the real queue objects hold, nodes, bound
   allocations, one ask). Every other line is one entry point of the real code run on a fresh copy of that world:
   the driver (1) runs the model on the same input and compares, (2) evaluates the clauses of the two properties on
   what the implementation did. Clause ids are tagged `C07.…` / `C08.…`; several failing clauses are joined by ` ;; `. -/
import YkDrv.Util
import YkModel.Preempt
open Lean Yk Yk.Pre

namespace YkDrv

structure PreSt where
  world : Option World := none

namespace P

def jOptNat' (j : Json) : Except String (Option Nat) :=
  match j with | .null => pure none | _ => do let n ← jNat j; pure (some n)

def jStrs (j : Json) : Except String (List String) := do
  let a ← jArr j
  a.toList.mapM jStr

def jList {α} (f : Json → Except String α) (j : Json) : Except String (List α) := do
  let a ← jArr j
  a.toList.mapM f

def jPQ (j : Json) : Except String PQ := do
  pure { path := ← (fld j "path") >>= jStr, parent := ← jOptNat' (fldD j "parent" .null), leaf := ← (fld j "leaf") >>= jBool,
         max := ← jORes (fldD j "max" .null), effMax := ← jORes (fldD j "effMax" .null), guar := ← jORes (fldD j "guar" .null),
         ppol := polNum (← (fld j "ppol") >>= jStr), prFence := (← (fld j "prpol") >>= jStr) == "fence",
         off := ← (fld j "off") >>= jInt, delay := ← (fld j "delay") >>= jInt, managed := ← (fld j "managed") >>= jBool }

def jPNode (j : Json) : Except String PNode := do
  pure { id := ← (fld j "id") >>= jStr, cap := ← (fld j "cap") >>= jRes, avail := ← (fld j "avail") >>= jRes, sched := ← (fld j "sched") >>= jBool }

def jPAlloc (j : Json) : Except String PAlloc := do
  pure { key := ← (fld j "key") >>= jStr, app := ← (fld j "app") >>= jStr, q := ← (fld j "q") >>= jNat, node := ← (fld j "node") >>= jNat,
         res := ← (fld j "res") >>= jRes, prio := ← (fld j "prio") >>= jInt, released := ← (fld j "released") >>= jBool,
         preempted := ← (fld j "preempted") >>= jBool, req := ← (fld j "req") >>= jBool, ph := ← (fld j "ph") >>= jBool,
         self := ← (fld j "self") >>= jBool, orig := ← (fld j "orig") >>= jBool, ct := ← (fld j "ct") >>= jInt }

def jPAsk (j : Json) : Except String PAsk := do
  pure { key := ← (fld j "key") >>= jStr, app := ← (fld j "app") >>= jStr, q := ← (fld j "q") >>= jNat, res := ← (fld j "res") >>= jRes,
         prio := ← (fld j "prio") >>= jInt, other := ← (fld j "other") >>= jBool, self := ← (fld j "self") >>= jBool,
         req := ← jOptNat' (fldD j "req" .null), age := ← (fld j "age") >>= jInt, triggered := ← (fld j "triggered") >>= jBool }

/-- the ask of an operation: the world's ask with the fields the operation overrides -/
def askWith (a : PAsk) (j : Json) : Except String PAsk := do
  match j.getObjVal? "ask" with
  | .error _ => pure a
  | .ok o =>
    let a := match o.getObjVal? "other" with | .ok (.bool b) => { a with other := b } | _ => a
    let a := match o.getObjVal? "triggered" with | .ok (.bool b) => { a with triggered := b } | _ => a
    let a ← match o.getObjVal? "age" with | .ok v => do let n ← jInt v; pure { a with age := n } | _ => pure a
    let a ← match o.getObjVal? "req" with | .ok v => do let n ← jOptNat' v; pure { a with req := n } | _ => pure a
    pure a

structure ISnap where
  key : String
  s : Snap
  askq : Option String
  rem : ORes
  pre : ORes

def jISnap (j : Json) : Except String ISnap := do
  let askq := match fldD j "askq" .null with | .str s => some s | _ => none
  let parent := match fldD j "parent" .null with | .str s => some s | _ => none
  pure { key := ← (fld j "key") >>= jStr, askq := askq, rem := ← jORes (fldD j "rem" .null), pre := ← jORes (fldD j "pre" .null),
         s := { path := ← (fld j "path") >>= jStr, parent := parent, leaf := ← (fld j "leaf") >>= jBool, alloc := ← (fld j "alloc") >>= jRes,
                preempting := ← (fld j "preempting") >>= jRes, max := ← jORes (fldD j "max" .null), guar := ← jORes (fldD j "guar" .null),
                victims := ← (fld j "victims") >>= jStrs, askq := askq.isSome } }

def first? {α} (l : List α) (f : α → Option String) : Option String := l.findSome? f

/-- compare the model's snapshot set with the implementation's (both sorted by path) -/
def snapsDiff (ai : AskInfo) (ms : List Snap) (is : List ISnap) (what : String) : Option String :=
  if ms.map (·.path) != is.map (·.s.path) then some s!"{what}.paths model={ms.map (·.path)} impl={is.map (·.s.path)}" else
  first? (ms.zip is) (fun (m, i) =>
    let p := m.path
    if i.key != i.s.path then some s!"{what}.key[{p}]"
    else if m.parent != i.s.parent then some s!"{what}.parent[{p}] model={m.parent} impl={i.s.parent}"
    else if m.leaf != i.s.leaf then some s!"{what}.leaf[{p}]"
    else if !resEq m.alloc i.s.alloc then some s!"{what}.alloc[{p}] model={showRes m.alloc} impl={showRes i.s.alloc}"
    else if !resEq m.preempting i.s.preempting then some s!"{what}.preempting[{p}] model={showRes m.preempting} impl={showRes i.s.preempting}"
    else if !oresEq m.max i.s.max then some s!"{what}.max[{p}] model={showORes m.max} impl={showORes i.s.max}"
    else if !oresEq m.guar i.s.guar then some s!"{what}.guar[{p}] model={showORes m.guar} impl={showORes i.s.guar}"
    else if sortStrs m.victims != sortStrs i.s.victims then some s!"{what}.victims[{p}] model={sortStrs m.victims} impl={sortStrs i.s.victims}"
    else if m.askq != i.s.askq then some s!"{what}.askq[{p}] model={m.askq} impl={i.s.askq}"
    else if i.askq.isSome && i.askq != some ai.path then some s!"{what}.askq-path[{p}] impl={i.askq}"
    else if !oresEq (remaining ai ms p) i.rem then some s!"{what}.remaining[{p}] model={showORes (remaining ai ms p)} impl={showORes i.rem}"
    else if !oresEq (preemptable ms p) i.pre then some s!"{what}.preemptable[{p}] model={showORes (preemptable ms p)} impl={showORes i.pre}"
    else none)

def keysOf (l : List PAlloc) : List String := sortStrs (l.map (·.key))

def sumOf (l : List PAlloc) : Res := sumRes (l.map (·.res))

/-- le on every type of `bound` -/
def leOnTypesOf (bound total : Res) : Bool := bound.all (fun p => decide (total.getD p.1 ≤ p.2))

/-- ask fits in r on every type of the ask (pointwise, missing = 0) -/
def covers (r ask : Res) : Bool := ask.all (fun p => decide (p.2 ≤ r.getD p.1))

structure Effects where
  marked : List String
  unmarked : List String
  rel : List (List String)
  preemptingAfter : List Res

def jEffects (j : Json) : Except String Effects := do
  pure { marked := ← (fld j "marked") >>= jStrs, unmarked := ← (fld j "unmarked") >>= jStrs,
         rel := ← (fld j "rel") >>= jList jStrs, preemptingAfter := ← (fld j "preemptingAfter") >>= jList jRes }

/-- C07 "announced exactly once" + preempting bookkeeping, common to the three preemption kinds:
    every marked victim appears in exactly one release message, once, as PREEMPTED_BY_SCHEDULER; nothing else is released;
    nothing is un-marked; every queue's preemptingResource grew by exactly the marked victims of its subtree -/
def effectClauses (w : World) (e : Effects) (skipped : List String := []) : List String :=
  let all := e.rel.flatten
  let want := e.marked.map (· ++ ":PREEMPTED_BY_SCHEDULER")
  -- (quota preemption: selected victims that were released after the filtering (`skipped`) are not marked and, since
  --  fix b12c1e2, not announced either)
  (if sortStrs all == sortStrs want then [] else [s!"C07.A1-announced-once marked={e.marked} released={e.rel} released-after-filtering={skipped}"]) ++
  (if e.unmarked.isEmpty then [] else [s!"C07.A2-unmarked {e.unmarked}"]) ++
  (match (List.range w.queues.length).find? (fun i =>
      let add := sumRes ((w.allocs.filter (fun a => e.marked.contains a.key && inSubtree w i a.q)).map (·.res))
      !resEq (prune (addX (preemptingOf w i) add)) (prune (e.preemptingAfter.getD i []))) with
   | some i => [s!"C08.B1-preempting-booked {pathOf w i} before={showRes (preemptingOf w i)} after={showRes (e.preemptingAfter.getD i [])} marked={e.marked}"]
   | none => [])

def nothingHappened (e : Effects) (w : World) : Bool :=
  e.marked.isEmpty && e.rel.isEmpty && e.unmarked.isEmpty &&
  (List.range w.queues.length).all (fun i => resEq (prune (preemptingOf w i)) (prune (e.preemptingAfter.getD i [])))

def joinV (l : List String) : String := " ;; ".intercalate l

def verdict (diffs invs : List String) : String :=
  match diffs, invs with
  | [], [] => "ok"
  | d :: _, [] => s!"diff {d}"
  | [], is => "inv " ++ joinV is
  | d :: _, is => s!"diff {d} ;; " ++ joinV is

end P
open P

def preemptStep (st : PreSt) (j : Json) : Except String (PreSt × String) := do
  let op ← (fld j "op") >>= jStr
  if op == "reset" then
    match j.getObjVal? "st" with
    | .error _ => return ({ world := none }, "ok")     -- the world could not be built (reported as panic)
    | .ok d =>
      let qsJ ← (fld d "queues") >>= jArr
      let qsRep ← qsJ.toList.mapM jPQ
      -- the OWN property texts as configured; the four settings the preemption code reads are COMPUTED from them
      -- (mergeProperties / filterParentProperty / UpdateQueueProperties) and compared with what the real queues report
      let confJ ← (fld j "queues") >>= jArr
      let owns ← confJ.toList.mapM (fun cj => match fldD cj "props" .null with
        | .obj kvs => kvs.toList.mapM (fun (k, v) => do pure (k, ← jStr v))
        | _ => pure [])
      let qs0 : List PQ := (List.range qsRep.length).filterMap (fun i => match qsRep[i]?, owns[i]? with
        | some q, some o => some { q with own := o, leaf := !(qsRep.any (fun c => c.parent == some i)) }
        | _, _ => none)
      let w0 : World := { queues := qs0, nodes := [], allocs := [], ask := { key := "", app := "", q := 0, res := [], prio := 0, other := false, self := false, req := none, age := 0, triggered := false } }
      let qs : List PQ := (List.range qs0.length).filterMap (fun i => match qs0[i]? with
        | some q => let s := derivedSettings w0 i; some { q with ppol := s.1, prFence := s.2.1, off := s.2.2.1, delay := s.2.2.2 }
        | none => none)
      let polDiff := (qs.zip qsRep).findSome? (fun (m, r) =>
        if m.leaf != r.leaf then some s!"elig.policy[{m.path}] leaf model={m.leaf} impl={r.leaf}"
        else if m.ppol != r.ppol then some s!"elig.policy[{m.path}] preemption.policy model={m.ppol} impl={r.ppol} (0 default, 1 fence, 2 disabled) own={m.own}"
        else if m.prFence != r.prFence then some s!"elig.policy[{m.path}] priority.policy fence model={m.prFence} impl={r.prFence} own={m.own}"
        else if m.off != r.off then some s!"elig.policy[{m.path}] priority.offset model={m.off} impl={r.off} own={m.own}"
        else if m.delay != r.delay then some s!"elig.policy[{m.path}] preemption.delay model={m.delay} impl={r.delay} own={m.own}"
        else none)
      let ns ← (fld d "nodes") >>= jList jPNode
      let allocs ← (fld j "allocs") >>= jList jPAlloc
      let ask ← (fld j "ask") >>= jPAsk
      let w : World := { queues := qs, nodes := ns, allocs := allocs, ask := ask }
      -- the ledgers of the real queues are what the model derives from the allocations
      let bad := (List.range qs.length).findSome? (fun i =>
        match qsJ.toList[i]? with
        | none => none
        | some qj =>
          let ia := (jRes (fldD qj "alloc" (.arr #[]))).toOption.getD []
          let ip := (jRes (fldD qj "preempting" (.arr #[]))).toOption.getD []
          if !resEq (allocatedOf w i) ia then some s!"reset.allocated[{pathOf w i}] model={showRes (allocatedOf w i)} impl={showRes ia}"
          else if !resEq (preemptingOf w i) ip then some s!"reset.preempting[{pathOf w i}] model={showRes (preemptingOf w i)} impl={showRes ip}"
          else none)
      if !wellFormedB w then return ({ world := some w }, "bad-op generated world is not well-formed (parents first, unique paths, path prefix = ancestor)")
      -- C07 on the tree itself: a queue whose nearest configured preemption.policy reads `disabled` must report disabled
      let inh := (List.range qs.length).filterMap (fun i => match qsRep[i]? with
        | some r => if inheritedDisabled (confOf w) i && r.ppol != 2 then some s!"C07.E7i-disabled-policy-inherited {r.path} reports policy {r.ppol} although the nearest configured preemption.policy on its path reads disabled" else none
        | none => none)
      let diffs := (match polDiff with | some b => [b] | none => []) ++ (match bad with | some b => [b] | none => [])
      return ({ world := some w }, verdict diffs inh)
  let some w0 := st.world | return (st, "bad-op no world")
  if (j.getObjVal? "panic").toOption.isSome then
    -- the panic itself is reported by the main loop; tag it for the property it belongs to
    return (st, if op == "quota" then "inv C08.panic-quota" else s!"inv C07.panic-{op}")
  let ask ← askWith w0.ask j
  let w : World := { w0 with ask := ask }
  let ai := askInfo w
  match op with
  | "elig" =>
    let ms := findEligible w
    match fldD j "snaps" .null with
    | .null => return (st, "diff elig.nil-result")
    | sj =>
      let is ← jList jISnap sj
      let mut diffs : List String := []
      let mut invs : List String := []
      match snapsDiff ai ms is "elig" with
      | some d => diffs := diffs ++ [d]
      | none => pure ()
      -- snapshot arithmetic steps
      let stepsJ ← (fld j "stepsOut") >>= jArr
      let mut cur := ms
      for sj in stepsJ.toList do
        let p ← (fld sj "path") >>= jStr
        let kind ← (fld sj "kind") >>= jStr
        let r ← (fld sj "res") >>= jRes
        match sj.getObjVal? "snaps" with
        | .error _ =>
          if (findSnap cur p).isSome && diffs.isEmpty then diffs := diffs ++ [s!"step.missing-in-impl {p}"]
        | .ok out =>
          if (findSnap cur p).isNone then
            if diffs.isEmpty then diffs := diffs ++ [s!"step.missing-in-model {p}"]
          else
            cur := if kind == "add" then addAlloc cur p r else removeAlloc cur p r
            let is2 ← jList jISnap out
            if diffs.isEmpty then
              match snapsDiff ai cur is2 s!"step.{kind}" with
              | some d => diffs := diffs ++ [d]
              | none => pure ()
      -- C07 on what the implementation returned
      for i in is do
        for k in i.s.victims do
          match findAlloc w k with
          | none => invs := invs ++ [s!"C07.E1-bound {k}"]
          | some a =>
            let v := eligViolations w a ++ (if inheritedDisabled (confOf w) a.q then ["C07.E7i-disabled-policy-inherited"] else [])
            if a.q < w.queues.length && pathOf w a.q != i.s.path then invs := invs ++ [s!"C07.E5-other-leaf {k} listed under {i.s.path}"]
            if !v.isEmpty then invs := invs ++ v.map (· ++ s!" {k}")
        -- C08: a leaf within its guarantee contributes no victims
        if !i.s.victims.isEmpty then
          match (List.range w.queues.length).find? (fun q => pathOf w q == i.s.path) with
          | none => invs := invs ++ [s!"C07.E5-other-leaf unknown queue {i.s.path}"]
          | some q =>
            if privateGuarantee w q && !overGuaranteeSomewhere w q false then
              invs := invs ++ [s!"C08.V0-offering-queue-over-guarantee {i.s.path} offers victims {i.s.victims} while within its guaranteed share on every type"]
      return (st, verdict diffs invs)
  | "precond" =>
    let delay ← (fld j "delay") >>= jInt
    let freq ← (fld j "freq") >>= jInt
    let checked ← (fld j "checked") >>= jBool
    let out ← (fld j "out") >>= jBool
    let upd ← (fld j "checkTimeUpdated") >>= jBool
    let m := checkPreconditions ask delay freq (if checked then some 0 else none)
    let diffs := if m != out then [s!"precond.result model={m} impl={out}"] else []
    let invs :=
      (if out && !(ask.other && !ask.triggered && ask.req.isNone && decide (delay ≤ ask.age) && (!checked || decide (freq ≤ 0)))
       then [s!"C07.P1-preconditions other={ask.other} triggered={ask.triggered} req={ask.req} age={ask.age} delay={delay} checked={checked} freq={freq}"] else []) ++
      (if upd != out then [s!"C07.P2-check-time-updated-iff-passed out={out} updated={upd}"] else [])
    return (st, verdict diffs invs)
  | "try" =>
    let pre ← (fld j "pre") >>= jBool
    let ok ← (fld j "ok") >>= jBool
    let node ← (fld j "node") >>= jStr
    let trig ← (fld j "trig") >>= jBool
    let nodesTried ← (fld j "nodesTried") >>= jBool
    let e ← jEffects j
    let delay := match w.queues[ask.q]? with | some q => q.delay | none => 0
    let mpre := checkPreconditions ask delay 15 none
    let mut diffs : List String := []
    let mut invs : List String := []
    let mut mres : Option TryResult := none
    -- what the model says the attempt leaves behind (flags of every allocation, triggered flag, logged failure)
    let mut mlate : Option TryLate := none
    -- allocations released between the victim collection and the marking loop (only when TryPreemption runs)
    let late : List String := if pre then (jStrs (fldD j "lateRelease" (.arr #[]))).toOption.getD [] else []
    let lateDone : List String := (jStrs (fldD j "lateReleased" (.arr #[]))).toOption.getD []
    let preAfter : Option (List String) := (jStrs (fldD j "preemptedAfter" .null)).toOption
    let relAfter : Option (List String) := (jStrs (fldD j "releasedAfter" .null)).toOption
    let askLog : Option (List String) := (jStrs (fldD j "askLog" .null)).toOption
    let loggedReleased := (askLog.getD []).contains "Victims picked earlier were released at the final stage"
    let whyAbort := fun (t : TryLate) => if t.released then "abort(victims released)" else "abort"
    if mpre != pre then diffs := diffs ++ [s!"try.preconditions model={mpre} impl={pre}"]
    let ss := findEligible w
    let plugin := fldD j "plugin" .null
    if !pre && diffs.isEmpty then
      mlate := some { allocs := w.allocs, result := none, released := false, triggered := ask.triggered }
    if pre && diffs.isEmpty then
      if plugin.isNull then
        let t := tryPreemptionLate w nodesTried late
        match t.result with
        | none =>
          if ok then diffs := diffs ++ [s!"try.result model={whyAbort t} impl=commit node={node} marked={e.marked} released-late={late}"]
          else mlate := some t
        | some r =>
          if !ok then diffs := diffs ++ [s!"try.result model=commit node={r.node} victims={keysOf r.victims} impl=abort released-late={late}"]
          else if r.node != node then diffs := diffs ++ [s!"try.node model={r.node} impl={node}"]
          else if keysOf r.victims != sortStrs e.marked then diffs := diffs ++ [s!"try.victims model={keysOf r.victims} impl={sortStrs e.marked}"]
          else
            mres := some r
            mlate := some t
      else
        let rows ← match plugin with
          | .obj kvs => kvs.toList.mapM (fun (k, v) => do
              pure ({ node := k, ok := ← (fld v "ok") >>= jBool, extra := ← (fld v "extra") >>= jInt, over := ← (fld v "over") >>= jBool } : PluginRow))
          | _ => throw "bad plugin table"
        if !checkGuarantees w ss then
          if ok then diffs := diffs ++ ["try.result model=abort(guarantees) impl=commit"]
          else mlate := some (finishTry w late none)
        else
          let cs := nodeChecks w ss nodesTried
          -- the checks the plugin saw (first batch = all of them)
          let seenJ ← (fld j "checks") >>= jArr
          let seen ← seenJ.toList.mapM (fun c => do
            pure (← (fld c "node") >>= jStr, ← (fld c "keys") >>= jStrs, ← (fld c "start") >>= jInt))
          let mine := (cs.map (fun c => (c.node, c.victims.map (·.key), c.start)))
          let srt := fun (l : List (String × List String × Int)) => l.foldl (fun acc x =>
            let rec ins (x : String × List String × Int) : List (String × List String × Int) → List (String × List String × Int)
              | [] => [x]
              | y :: t => if x.1 < y.1 then x :: y :: t else y :: ins x t
            ins x acc) []
          if srt mine != srt seen then diffs := diffs ++ [s!"try.checks model={srt mine} impl={srt seen}"]
          else
            let cands := pluginCandidates w ss rows cs
            let outcomes : List (String × TryLate) := cands.map (fun (c, idx) => match populate c idx with
              | none => (c.node, finishTry w late none)
              | some (c, nv) => (c.node, finishTry w late (commitAfterPick w ss c nv)))
            if ok then
              match outcomes.find? (fun o => o.1 == node) with
              | none => diffs := diffs ++ [s!"try.node impl={node} not among the best answers {outcomes.map (·.1)}"]
              | some (_, t) =>
                match t.result with
                | none => diffs := diffs ++ [s!"try.result model={whyAbort t} on {node} impl=commit marked={e.marked} released-late={late}"]
                | some r =>
                  if keysOf r.victims != sortStrs e.marked then diffs := diffs ++ [s!"try.victims node={node} model={keysOf r.victims} impl={sortStrs e.marked}"]
                  else
                    mres := some r
                    mlate := some t
            else
              if !outcomes.isEmpty && outcomes.all (fun o => o.2.result.isSome) then
                diffs := diffs ++ [s!"try.result model=commit on any of {outcomes.map (·.1)} impl=abort released-late={late}"]
              else
                -- which of several equally good answers was taken is not known: any abandoned one that explains the log
                let aborted := (outcomes.map (·.2)).filter (fun t => t.result.isNone)
                mlate := match aborted.find? (fun t => t.released == loggedReleased) with
                  | some t => some t
                  | none => match aborted with
                    | t :: _ => some t
                    | [] => some (finishTry w late none)
    -- the state the attempt leaves behind, model against implementation
    match mlate with
    | none => pure ()
    | some t =>
      if diffs.isEmpty then
        let wAfter : World := { w with allocs := t.allocs }
        let mMarks := sortStrs (markedKeys t.allocs)
        let mRel := sortStrs ((t.allocs.filter (·.released)).map (·.key))
        match preAfter with
        | some pa => if sortStrs pa != mMarks then
            diffs := diffs ++ [s!"try.marks-after model={mMarks} impl={sortStrs pa} committed={ok} released-late={late}"]
        | none => pure ()
        match relAfter with
        | some ra => if diffs.isEmpty && sortStrs ra != mRel then
            diffs := diffs ++ [s!"try.released-after model={mRel} impl={sortStrs ra} released-late={late}"]
        | none => pure ()
        if diffs.isEmpty && t.triggered != trig then
          diffs := diffs ++ [s!"try.triggered model={t.triggered} impl={trig} committed={ok}"]
        if diffs.isEmpty then
          match (List.range w.queues.length).find? (fun i =>
              !resEq (prune (preemptingOf wAfter i)) (prune (e.preemptingAfter.getD i []))) with
          | some i => diffs := diffs ++ [s!"try.preempting-after[{pathOf w i}] model={showRes (preemptingOf wAfter i)} impl={showRes (e.preemptingAfter.getD i [])}"]
          | none => pure ()
        if diffs.isEmpty && askLog.isSome && loggedReleased != t.released then
          diffs := diffs ++ [s!"try.log-victims-released model={t.released} impl={loggedReleased} log={askLog.getD []}"]
    -- clauses on what the implementation did
    if !pre && ok then invs := invs ++ ["C07.P1-preconditions TryPreemption committed although CheckPreconditions said no"]
    if ok && !(ask.other && !ask.triggered && ask.req.isNone && decide (delay ≤ ask.age)) then
      invs := invs ++ [s!"C07.P1-preconditions commit with other={ask.other} triggered={ask.triggered} req={ask.req} age={ask.age} delay={delay}"]
    if trig != (ok || ask.triggered) then invs := invs ++ [s!"C07.T3-triggered-iff-committed ok={ok} before={ask.triggered} after={trig}"]
    -- MarkPreempted / SetReleased exclude each other: nothing released since the victims were collected is marked
    for k in lateDone do
      if e.marked.contains k then invs := invs ++ [s!"C07.E2-released {k} (released after the victims were collected, marked nevertheless)"]
    if !ok then
      -- an abandoned attempt leaves no victim marked, un-marks nothing that was marked before and announces nothing
      if !e.marked.isEmpty then
        invs := invs ++ [s!"C07.A3-abandoned-leaves-no-mark attempt abandoned, still marked preempted: {e.marked} released-late={lateDone} announced={e.rel}"]
      if !e.rel.isEmpty then invs := invs ++ [s!"C07.A1-announced-once attempt abandoned, released={e.rel}"]
      if !e.unmarked.isEmpty then invs := invs ++ [s!"C07.A2-unmarked {e.unmarked}"]
      if !nothingHappened e w then invs := invs ++ [s!"C08.A1-nothing-on-abort marked={e.marked} released={e.rel}"]
    else
      invs := invs ++ effectClauses w e
      if e.marked.isEmpty then invs := invs ++ ["C08.A2-commit-has-victims commit without any victim"]
      let potential := ss.flatMap (·.victims)
      let markedAllocs := e.marked.filterMap (findAlloc w)
      for k in e.marked do
        match findAlloc w k with
        | none => invs := invs ++ [s!"C07.E1-bound {k}"]
        | some a =>
          let v := eligViolations w a ++ (if inheritedDisabled (confOf w) a.q then ["C07.E7i-disabled-policy-inherited"] else [])
          if !v.isEmpty then invs := invs ++ v.map (· ++ s!" {k}")
          if !potential.contains k then invs := invs ++ [s!"C07.T1-commit-subset-of-potential {k}"]
          if privateGuarantee w a.q && !overGuaranteeSomewhere w a.q true then
            invs := invs ++ [s!"C08.V1-victim-queue-over-guarantee {k} taken from {pathOf w a.q} which is within its guaranteed share"]
      -- the attempt needs a guarantee the ask queue is still under
      if (remaining ai (allSnaps w) ai.path).isNone then
        invs := invs ++ ["C08.G1-attempt-needs-guarantee no guaranteed resources on the path of the ask queue"]
      match (List.range w.nodes.length).find? (fun ni => match w.nodes[ni]? with | some n => n.id == node | none => false) with
      | none => invs := invs ++ [s!"C08.N1-node-usable unknown node {node}"]
      | some ni =>
        match w.nodes[ni]? with
        | none => pure ()
        | some n =>
          if !n.sched || !fitInStd (some n.cap) (some ask.res) then invs := invs ++ [s!"C08.N1-node-usable {node} sched={n.sched} cap={showRes n.cap}"]
          let onNode := markedAllocs.filter (fun a => a.node == ni)
          let freed := addX n.avail (sumOf onNode)
          if !covers freed ask.res then
            -- input class of the known finding: the victims COLLECTED for the node do cover the ask together with its
            -- free space; the final filter of TryPreemption dropped some of them
            let tag := match mres with
              | some r => if covers (addX n.avail (sumOf (r.collected.filter (fun a => a.node == ni)))) ask.res then "+final-filter-drops-needed-victims" else ""
              | none => ""
            invs := invs ++ [s!"C08.C1-commit-covers-ask{tag} node={node} free={showRes n.avail} victims-on-node={keysOf onNode} free+victims={showRes freed} ask={showRes ask.res}"]
      let okRes := match (fldD j "resultType" .null), (fldD j "resultKey" .null) with
        | .str "Reserved", .str k => k == ask.key
        | _, _ => false
      if !okRes then invs := invs ++ ["C08.N2-reserves-for-ask result is not a reservation for the ask"]
    return (st, verdict diffs invs)
  | "reqnode" =>
    let ni ← (fld j "node") >>= jNat
    let cands ← (fld j "cands") >>= jStrs
    let trig ← (fld j "trig") >>= jBool
    let e ← jEffects j
    let some n := w.nodes[ni]? | return (st, "bad-op node")
    let mc := reqCandidates w ni
    let mv := reqVictims ask.res n.avail mc
    let mut diffs : List String := []
    let mut invs : List String := []
    if mc.map (·.key) != cands then diffs := diffs ++ [s!"reqnode.candidates model={mc.map (·.key)} impl={cands}"]
    else if keysOf mv != sortStrs e.marked then diffs := diffs ++ [s!"reqnode.victims model={keysOf mv} impl={sortStrs e.marked}"]
    invs := invs ++ effectClauses w e
    for k in e.marked do
      match findAlloc w k with
      | none => invs := invs ++ [s!"C07.R1-bound {k}"]
      | some a =>
        if a.node != ni then invs := invs ++ [s!"C07.R2-on-required-node {k}"]
        if a.prio > ask.prio then invs := invs ++ [s!"C07.R3-not-outranking {k} prio={a.prio} ask={ask.prio}"]
        if a.req then invs := invs ++ [s!"C07.R4-required-node-victim {k}"]
        if a.released then invs := invs ++ [s!"C07.R5-released {k}"]
        if a.preempted then invs := invs ++ [s!"C07.R6-already-preempted {k}"]
        if !matchAny (some ask.res) (some a.res) false then invs := invs ++ [s!"C07.R7-shares-type {k}"]
    if trig != (!e.marked.isEmpty || ask.triggered) then invs := invs ++ [s!"C07.R8-triggered-iff-victims trig={trig} marked={e.marked}"]
    if !e.marked.isEmpty then
      let freed := addX n.avail (sumOf (e.marked.filterMap (findAlloc w)))
      if !strictlyGreaterThanOrEquals (some freed) (some ask.res) then
        invs := invs ++ [s!"C08.R9-reqnode-covers-ask free+victims={showRes freed} ask={showRes ask.res}"]
    return (st, verdict diffs invs)
  | "quota" =>
    let qi ← (fld j "q") >>= jNat
    let newMax ← jORes (fldD j "newMax" .null)
    let delayStr := (jStr (fldD j "delay" (.str ""))).toOption.getD ""
    let waited ← (fld j "wait") >>= jBool
    let startSet ← (fld j "startSet") >>= jBool
    let startAfter ← (fld j "startAfter") >>= jBool
    let e ← jEffects j
    let some q := w.queues[qi]? | return (st, "bad-op queue")
    let fired := startSet && !startAfter
    let mfires := quotaFires w qi q.max newMax (delayStr != "") (waited && delayStr != "1h")
    let mut diffs : List String := []
    let mut invs : List String := []
    if mfires != fired then diffs := diffs ++ [s!"quota.fires model={mfires} impl={fired} startSet={startSet}"]
    let planPanic := (j.getObjVal? "planPanic").toOption.isSome
    let mtop := quotaPreemptable w qi newMax
    let top ← jORes (fldD j "top" .null)
    if !planPanic && diffs.isEmpty && !oresEq mtop top then diffs := diffs ++ [s!"quota.preemptable model={showORes mtop} impl={showORes top}"]
    let planJ := (jArr (fldD j "plan" (.arr #[]))).toOption.getD #[]
    let plan ← planJ.toList.mapM (fun p => do
      let a ← jArr p
      pure (← jStr a[0]!, ← jORes a[1]!))
    -- quota preemption run step by step: the filtered, sorted candidates per leaf are known, the model computes the
    -- selection, the marking (victims released after the filtering are skipped) and the preempting resources
    let lateDone : List String := (jStrs (fldD j "lateReleased" (.arr #[]))).toOption.getD []
    let mut skipped : List String := []
    match (j.getObjVal? "cands").toOption with
    | none => pure ()
    | some cj =>
      let cl ← jList (fun p => do
        let a ← jArr p
        pure (← jStr a[0]!, ← jStrs a[1]!)) cj
      let sel : List String := cl.flatMap (fun (lpath, keys) =>
        match plan.lookup lpath with
        | some (some lp) => (quotaSelect lp (keys.filterMap (findAlloc w))).1.map (·.key)
        | _ => [])
      let allocs0 := releaseLate lateDone w.allocs
      let after := quotaPreemptLate w lateDone sel
      let mMarked := sortStrs (quotaMarked allocs0 sel)
      skipped := sel.filter (fun k => isReleased allocs0 k)
      let wAfter : World := { w with allocs := after }
      let announced := sortStrs (e.rel.flatten.map (fun x => (x.splitOn ":").headD ""))
      if !planPanic && diffs.isEmpty then
        if mMarked != sortStrs e.marked then
          diffs := diffs ++ [s!"quota.marked model={mMarked} impl={sortStrs e.marked} selected={sel} released-after-filtering={lateDone}"]
        else if (jStrs (fldD j "preemptedAfter" .null)).toOption.map sortStrs != some (sortStrs (markedKeys after)) then
          diffs := diffs ++ [s!"quota.marks-after model={sortStrs (markedKeys after)} impl={(jStrs (fldD j "preemptedAfter" .null)).toOption}"]
        else if (jStrs (fldD j "releasedAfter" .null)).toOption.map sortStrs != some (sortStrs ((after.filter (·.released)).map (·.key))) then
          diffs := diffs ++ [s!"quota.released-after model={sortStrs ((after.filter (·.released)).map (·.key))} impl={(jStrs (fldD j "releasedAfter" .null)).toOption}"]
        else if announced != mMarked then
          -- (since fix b12c1e2 only the victims that were marked are announced; before it the whole selection was)
          diffs := diffs ++ [s!"quota.announced model={mMarked} impl={announced}"]
        else match (List.range w.queues.length).find? (fun i =>
            !resEq (prune (preemptingOf wAfter i)) (prune (e.preemptingAfter.getD i []))) with
          | some i => diffs := diffs ++ [s!"quota.preempting-after[{pathOf w i}] model={showRes (preemptingOf wAfter i)} impl={showRes (e.preemptingAfter.getD i [])} marked={e.marked} released-after-filtering={lateDone}"]
          | none => pure ()
    invs := invs ++ effectClauses w e skipped
    -- C08: what a queue books as preempting grows by exactly the victims marked in this operation (a victim that was
    -- released in the meantime is skipped: neither marked nor booked)
    match (List.range w.queues.length).find? (fun i =>
        let add := sumRes ((w.allocs.filter (fun a => e.marked.contains a.key && inSubtree w i a.q)).map (·.res))
        !resEq (prune (addX (preemptingOf w i) add)) (prune (e.preemptingAfter.getD i []))) with
    | some i => invs := invs ++ [s!"C08.Q3-preempting-equals-marked {pathOf w i} preempting before={showRes (preemptingOf w i)} after={showRes (e.preemptingAfter.getD i [])} marked in this operation={e.marked} released-after-filtering={lateDone}"]
    | none => pure ()
    for k in lateDone do
      if e.marked.contains k then invs := invs ++ [s!"C07.Q3-released {k} (released after the filtering, marked nevertheless)"]
    let victims := e.marked.filterMap (findAlloc w)
    -- every share of the plan only lists types of the leaf's preemptable usage (first pass of getChildQueuesPreemptableResource)
    for (lpath, lp) in plan do
      match (List.range w.queues.length).find? (fun i => pathOf w i == lpath) with
      | none => diffs := diffs ++ [s!"quota.share unknown queue {lpath}"]
      | some li =>
        if li != qi then
          match childPreemptableUsage w li with
          | none => diffs := diffs ++ [s!"quota.share {lpath} model=skipped impl={showORes lp}"]
          | some u => if !(lp.getD []).all (fun p => u.has p.1) then diffs := diffs ++ [s!"quota.share-types {lpath} model-usage={showRes u} impl-share={showORes lp}"]
    if !e.marked.isEmpty then
      if !(fired && q.managed && delayStr != "" && waited) then
        invs := invs ++ [s!"C08.Q0-quota-gated victims although fired={fired} managed={q.managed} delay={delayStr} waited={waited}"]
      -- never more than the excess over the lowered maximum (minus what is already being preempted)
      let used := subX (allocatedOf w qi) (preemptingOf w qi)
      let excess : Res := ((newMax.getD []).map (fun p => (p.1, used.getD p.1 - p.2))).filter (fun p => decide (p.2 > 0))
      let total := sumOf victims
      match top with
      | none => invs := invs ++ ["C08.Q1-quota-claim-bounded victims without a preemptable amount"]
      | some t =>
        if !t.all (fun p => decide (p.2 ≤ excess.getD p.1)) then
          invs := invs ++ [s!"C08.Q1-quota-claim-bounded planned={showRes t} excess-over-max={showRes excess}"]
        if !leOnTypesOf t total then
          -- input class of a known finding: the exceeded types are in no share handed to a leaf that lost victims
          let exceeded := t.filter (fun p => decide (total.getD p.1 > p.2))
          -- what the leaves whose share lists the type claimed of it stays within the plan: the overflow comes from
          -- leaves whose share does not list the type
          let boundedPart := fun (k : String) => sumOf (victims.filter (fun a =>
            match plan.lookup (pathOf w a.q) with | some sh => (sh.getD []).has k | none => false))
          let tag := if exceeded.all (fun p => decide ((boundedPart p.1).getD p.1 ≤ p.2)) && (w.queues[qi]?.map (·.leaf)) == some false
            then "+type-not-in-leaf-share" else ""
          invs := invs ++ [s!"C08.Q1-quota-claim-bounded{tag} claimed={showRes total} planned={showRes t}"]
    for a in victims do
      if !inSubtree w qi a.q then invs := invs ++ [s!"C07.Q1-in-queue {a.key}"]
      if a.req then invs := invs ++ [s!"C07.Q2-required-node-victim {a.key}"]
      if a.released then invs := invs ++ [s!"C07.Q3-released {a.key}"]
      if a.preempted then invs := invs ++ [s!"C07.Q4-already-preempted {a.key}"]
    -- per leaf: the claim stays inside the leaf's share of the plan, and a leaf within its guarantee gives nothing
    for li in (List.range w.queues.length) do
      let lv := victims.filter (fun a => a.q == li)
      if !lv.isEmpty then
        match plan.lookup (pathOf w li) with
        | none => invs := invs ++ [s!"C08.Q1-quota-claim-bounded {pathOf w li} loses {keysOf lv} without a share of the plan"]
        | some lp =>
          let lp := lp.getD []
          if !leOnTypesOf lp (sumOf lv) then
            invs := invs ++ [s!"C08.Q1-quota-claim-bounded {pathOf w li} claimed={showRes (sumOf lv)} share={showRes lp}"]
          for a in lv do
            if !matchAny (some lp) (some a.res) false then invs := invs ++ [s!"C07.Q5-shares-type {a.key}"]
          match w.queues[li]? with
          | none => pure ()
          | some lq =>
            let used := subX (allocatedOf w li) (preemptingOf w li)
            let g := lq.guar.getD []
            if li != qi && !lp.any (fun p => decide (used.getD p.1 > g.getD p.1)) then
              -- input class: the leaf is above its guarantee only when the usage that is already being preempted is counted
              let gross := allocatedOf w li
              let tag := if lp.any (fun p => decide (gross.getD p.1 > g.getD p.1)) then "+above-only-with-usage-being-preempted" else ""
              invs := invs ++ [s!"C08.Q2-quota-respects-guarantee{tag} {pathOf w li} used={showRes used} guaranteed={showRes g} share={showRes lp} loses {keysOf lv}"]
    return (st, verdict diffs invs)
  | "quotaseq" =>
    let qi ← (fld j "q") >>= jNat
    let some q := w.queues[qi]? | return (st, "bad-op queue")
    let stepsJ ← (fld j "steps") >>= jArr
    let traceJ ← (fld j "trace") >>= jArr
    let e ← jEffects j
    let alloc := allocatedOf w qi
    let mut diffs : List String := []
    let mut invs : List String := []
    let mut cur : QuotaT × Int := ({ max := q.max, delay := 0, start := none, base := none }, 0)
    let mut incomparable := false      -- a pending start went through a maximum change that is neither lower, higher nor equal
    let mut idx := 0
    for (sj, tj) in stepsJ.toList.zip traceJ.toList do
      idx := idx + 1
      let kind ← (fld sj "kind") >>= jStr
      let step : QuotaStep ← match kind with
        | "conf" => do
          let c ← jRes (fldD sj "max" .null)
          let dtext := (jStr (fldD sj "delay" (.str ""))).toOption.getD ""
          let dsec : Int := if dtext == "" then 0 else ((Reload.convertDelay dtext 0 / 1000000000 : Nat) : Int)
          pure (QuotaStep.conf (Reload.setRes c) dsec)
        | "advance" => do pure (QuotaStep.advance (← (fld sj "sec") >>= jInt))
        | "try" => pure QuotaStep.try
        | _ => throw "bad step"
      let before := cur
      let inc := match step with
        | .conf m _ => before.1.start.isSome && !comparableMax before.1.max m
        | _ => false
      if inc then incomparable := true
      let (next, mfired) := quotaStep q.managed alloc cur step
      cur := next
      let iset ← (fld tj "startSet") >>= jBool
      let irem : Option Int := (jInt (fldD tj "rem" .null)).toOption
      let ifired := (jBool (fldD tj "fired" (.bool false))).toOption.getD false
      let imax ← jORes (fldD tj "max" .null)
      if diffs.isEmpty then
        if !oresEq cur.1.max imax then diffs := diffs ++ [s!"quotaseq.max step={idx} model={showORes cur.1.max} impl={showORes imax}"]
        else if mfired != ifired then diffs := diffs ++ [s!"quotaseq.fires step={idx} model={mfired} impl={ifired} now={cur.2} start={before.1.start}"]
        else if cur.1.start.isSome != iset then diffs := diffs ++ [s!"quotaseq.scheduled step={idx} ({kind}) model={cur.1.start.isSome} impl={iset}"]
        else match cur.1.start, irem with
          | some t, some r => if t - cur.2 != r then diffs := diffs ++ [s!"quotaseq.start step={idx} ({kind}) due-in model={t - cur.2}s impl={r}s (delay {before.1.delay}s -> {cur.1.delay}s)"]
          | _, _ => pure ()
      -- C08: never due, and never fired, before (first lowering still in force) + (delay in force)
      let tag := if incomparable then "+incomparable-max-change" else ""
      if ifired then
        match before.1.base with
        | none => invs := invs ++ [s!"C08.T1-quota-not-before-delay{tag} step={idx} fired although nothing was scheduled"]
        | some b => if before.2 < b + before.1.delay then
            invs := invs ++ [s!"C08.T1-quota-not-before-delay{tag} step={idx} fired at {before.2}s; lowered at {b}s, delay in force {before.1.delay}s"]
      match irem, cur.1.base with
      | some r, some b => if cur.2 + r < b + cur.1.delay then
          invs := invs ++ [s!"C08.T2-quota-start-not-early{tag} step={idx} ({kind}) due at {cur.2 + r}s; lowered at {b}s, delay in force {cur.1.delay}s"]
      | _, _ => pure ()
    invs := invs ++ effectClauses w e
    return (st, verdict diffs invs)
  | _ => return (st, "bad-op")

end YkDrv
