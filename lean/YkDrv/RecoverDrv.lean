/- driver: restart recovery (C12), two executions on one line.  "reset" lines carry the dump of the old core A at the
   crash point, the queue tree of the restarted core B before the replay, the replayed items (derived from the shim's
   book) with B's answer to each, and the dump of B afterwards.  The driver
     * replays the items on the model (YkModel/Recover.lean) and compares accept/reject answers and all ledgers with B,
     * evaluates the property on the implementation: every item the shim may replay is accepted, B's books are balanced,
       every total of B is the total recomputed from the accepted items, and A and B agree object by object wherever the
       shim held what A held,
   and hands the operations that follow (scheduling on the restarted core) to the full-stack driver, keeping the
   capacity / quota / accounting clauses. -/
import YkDrv.CoreDrv
import YkModel.Recover
open Lean Yk Yk.Core

namespace YkDrv

structure RecoverSt where
  core : CoreSt := {}

structure RAnswer where
  item : RItem
  kind : String
  id : String
  accepted : Bool        -- the implementation's answer
  reason : String := ""
  bind : Bool := false   -- a key replayed as an ask earlier is now reported as bound (transition branch)

def hasSub (s sub : String) : Bool := (s.splitOn sub).length > 1

def jRAlloc (j : Json) : Except String RAlloc := do
  let sD (k : String) := (jStr (fldD j k (.str ""))).toOption.getD ""
  pure { app := sD "app", key := ← (fld j "key") >>= jStr, node := sD "node", res := ← (fld j "res") >>= jRes,
         ph := (jBool (fldD j "ph" (.bool false))).toOption.getD false, tg := sD "tg", reqNode := sD "reqNode" }

def jRAnswer (j : Json) : Except String RAnswer := do
  let kind ← (fld j "kind") >>= jStr
  let msgs := ((jArr (fldD j "msgs" (.arr #[]))).toOption.getD #[]).toList
  let s (m : Json) (k : String) := (jStr (fldD m k (.str ""))).toOption.getD ""
  let sD (k : String) := (jStr (fldD j k (.str ""))).toOption.getD ""
  match kind with
  | "node" =>
    let id ← (fld j "id") >>= jStr
    pure { item := .node id (← jRes (fldD j "res" .null)) (sD "action" == "create"), kind := kind, id := id,
           accepted := msgs.any (fun m => s m "t" == "node-accepted" && s m "node" == id) }
  | "undrain" =>
    let id ← (fld j "id") >>= jStr
    pure { item := .undrain id, kind := kind, id := id, accepted := true }
  | "app" =>
    let id ← (fld j "id") >>= jStr
    let a : RApp := { id := id, queue := sD "placed", user := sD "user", phAsk := ← jRes (fldD j "phAsk" .null),
                      fifo := (jBool (fldD j "fifo" (.bool true))).toOption.getD true,
                      forced := (jBool (fldD j "forced" (.bool false))).toOption.getD false }
    let rej := msgs.find? (fun m => s m "t" == "app-rejected" && s m "app" == id)
    pure { item := .app a, kind := kind, id := id, accepted := msgs.any (fun m => s m "t" == "app-accepted" && s m "app" == id),
           reason := (rej.map (fun m => s m "reason")).getD "" }
  | "alloc" | "ask" | "bind" =>
    let x ← jRAlloc j
    pure { item := if kind == "ask" then .ask { x with node := "" } else .alloc x, kind := kind, id := x.key,
           accepted := !(msgs.any (fun m => s m "t" == "alloc-rejected" && s m "key" == x.key)), bind := kind == "bind" }
  | "foreign" =>
    let key ← (fld j "key") >>= jStr
    pure { item := .foreign key (sD "node") (← (fld j "res") >>= jRes), kind := kind, id := key,
           accepted := !(msgs.any (fun m => s m "t" == "alloc-rejected" && s m "key" == key)) }
  | _ => throw s!"unknown replay item kind {kind}"

/-- P1: everything the shim may replay is accepted, whatever the quotas.  An item is excused when the order gave the core
    no chance (its node / application was not replayed before it) or when its application was not force-created. -/
def acceptClauses (ans : List RAnswer) : List String :=
  let rec go (rest : List RAnswer) (nodes apps rejectedForced : List String) (acc : List String) : List String :=
    match rest with
    | [] => acc.reverse
    | r :: t =>
      match r.item with
      | .node id _ _ =>
        if r.accepted then go t (id :: nodes) apps rejectedForced acc
        else go t nodes apps rejectedForced ((if nodes.contains id then acc else s!"C12.rejected-node {id}" :: acc))
      | .app a =>
        if r.accepted then go t nodes (a.id :: apps) rejectedForced acc
        else if !a.forced || apps.contains a.id then go t nodes apps rejectedForced acc
        else
          let cls := if hasSub r.reason "larger than max queue allocation" then "C12.forced-app-rejected-taskgroup-quota"
                     else if hasSub r.reason "unsupported sort type" then "C12.forced-app-rejected-taskgroup-sort"
                     else "C12.forced-app-rejected"
          go t nodes apps (a.id :: rejectedForced) (s!"{cls} {a.id} queue={a.queue}: {r.reason}" :: acc)
      | .alloc x =>
        if r.accepted then go t nodes apps rejectedForced acc
        else if apps.contains x.app && nodes.contains x.node then go t nodes apps rejectedForced (s!"C12.rejected-allocation {x.key} {x.app}@{x.node}" :: acc)
        else if rejectedForced.contains x.app then go t nodes apps rejectedForced (s!"C12.rejected-allocation+forced-app-rejected {x.key} {x.app}@{x.node}" :: acc)
        else go t nodes apps rejectedForced acc
      | .ask x =>
        if r.accepted then go t nodes apps rejectedForced acc
        else if apps.contains x.app then go t nodes apps rejectedForced (s!"C12.rejected-ask {x.key} {x.app}" :: acc)
        else if rejectedForced.contains x.app then go t nodes apps rejectedForced (s!"C12.rejected-ask+forced-app-rejected {x.key} {x.app}" :: acc)
        else go t nodes apps rejectedForced acc
      | .foreign key node _ =>
        if r.accepted then go t nodes apps rejectedForced acc
        else if nodes.contains node then go t nodes apps rejectedForced (s!"C12.rejected-foreign {key}@{node}" :: acc)
        else go t nodes apps rejectedForced acc
      | .undrain _ => go t nodes apps rejectedForced acc
  go ans [] [] [] []

/-- the replay on the model, item by item, as long as model and implementation give the same answer -/
def modelReplay (init : Core) (ans : List RAnswer) : Core × Option String :=
  ans.foldl (fun (acc : Core × Option String) r =>
    match acc.2 with
    | some _ => acc
    | none =>
      let (s', ok) := match r.bind, r.item with
        | true, .alloc x => acc.1.recPlaced x
        | _, it => acc.1.rstep it
      if ok == r.accepted then (s', none)
      else (acc.1, some s!"diff recover.accept {r.kind} {r.id} model={ok} impl={r.accepted} {r.reason}")) (init, none)

def dedupS (l : List String) : List String := l.foldl (fun acc x => if acc.contains x then acc else acc ++ [x]) []

def recoverReset (j : Json) : Except String (RecoverSt × String) := do
  let st ← match j.getObjVal? "st" with
    | .ok d => pure d
    | .error _ => return ({}, "ok unmodelled configuration refused by the restarted core")
  let a ← (fld st "a") >>= jCore
  let b0 ← (fld st "b0") >>= jCore
  let b ← (fld st "b") >>= jCore
  let ans ← (fld st "items") >>= jListOf jRAnswer
  -- the queue tree of the restarted core: configured queues as loaded, queues created during the replay empty
  let tree := b.queues.map (fun q => (b0.findQueue q.path).getD q)
  let init := Core.fresh tree
  let (m, acceptDiff) := modelReplay init ans
  let diff : Option String := acceptDiff.orElse fun _ => (ledgerDiff m b).map (fun e => "diff recover.replay " ++ e)
  -- what the core holds after the replay: a key replayed as an ask and reported as bound later counts as the allocation
  let boundLater := (ans.filter (fun r => r.accepted && r.bind)).map (·.id)
  let accepted := ((ans.filter (fun r => r.accepted && !(r.kind == "ask" && boundLater.contains r.id)))).map (·.item)
  let tag (p : String) (o : Option String) : List String := match o with | some e => [p ++ e] | none => []
  -- P2: the books of the restarted core are balanced
  let p2 := (conservedAll b).map (fun e => "C12.B-" ++ e) ++ tag "C12.B-" (nodeLedger b) ++ tag "C12.B-" (usageOK b)
  -- P3: every total is the total recomputed from what was accepted
  let p3 := tag "C12.totals-" (totalsOK b accepted)
  -- P4: old against new, where the old core's own books are balanced
  let aOK := (conservedAll a).isEmpty && (nodeLedger a).isNone && (usageOK a).isNone
  let p4 := if aOK then tag "C12.differs-" (agreeOK a b accepted) else []
  let fails := acceptClauses ans ++ p2 ++ p3 ++ p4
  -- the shim view for the operations that follow
  let view : ShimView := {
    nodes := accepted.filterMap (fun | .node id _ _ => some id | _ => none),
    apps := (appsOf accepted).map (·.id),
    asks := (asksOf accepted).map (fun x => (x.key, x.app)),
    bound := (allocsOf accepted).map (fun x => (x.key, x.app, x.node)) }
  let st' : RecoverSt := { core := { prev := some b, shim := view, everBound := (allocsOf accepted).map (·.key),
                                     rmPlaced := (allocsOf accepted).map (·.key) } }
  let note := if !aOK then " old-core-books-unbalanced" else if viewDiffers a accepted then " shim-view-differs" else ""
  match diff, fails.isEmpty with
  | none, true => return (st', if note == "" then "ok" else "ok" ++ note)
  | some d, true => return (st', d)
  | none, false => return (st', "inv " ++ " ;; ".intercalate fails)
  | some d, false => return (st', d ++ " ;; " ++ " ;; ".intercalate fails)

/-- scheduling on the restarted core: the full-stack clauses about capacity (C01), quota (C02, C05) and accounting
    (C03) are C12's "scheduling afterwards still respects …" -/
def recoverStep (st : RecoverSt) (j : Json) : Except String (RecoverSt × String) := do
  let op ← (fld j "op") >>= jStr
  if op == "reset" then
    -- a line that cannot be read must not leave the state of the previous history behind
    match recoverReset j with
    | .ok r => return r
    | .error e => return ({}, "bad-op " ++ e)
  if st.core.prev.isNone then return (st, "ok unmodelled no restarted core")
  let (c', v) ← coreStep st.core j
  let st' := { st with core := c' }
  if v == "ok" || v.startsWith "ok " then return (st', v)
  let body := if v.startsWith "inv " then (v.drop 4).toString else v
  let parts := (body.splitOn " ;; ").filterMap (fun p =>
    if p.startsWith "C01." || p.startsWith "C02." || p.startsWith "C03." || p.startsWith "C05." then some ("C12.after-" ++ p)
    else if p.startsWith "diff " then some p
    else none)
  if parts.isEmpty then return (st', "ok other-properties " ++ body)
  let diffs := parts.filter (·.startsWith "diff ")
  let invs := parts.filter (fun p => !p.startsWith "diff ")
  match diffs, invs with
  | [], _ => return (st', "inv " ++ " ;; ".intercalate invs)
  | d :: _, [] => return (st', d)
  | d :: _, _ => return (st', d ++ " ;; " ++ " ;; ".intercalate invs)

end YkDrv
