/- driver: C05 user/group quotas.  Every line carries one operation on the real ugm.Manager, its answer and the complete
   manager state afterwards.  The driver (1) steps the model from the PREVIOUS state dumped by the implementation and
   compares answer and state, (2) evaluates the clauses of the property on the implementation's state:
     C05.enforce-res / C05.enforce-apps   an admitted ask stays within every limit on the path
     C05.usage-ne-sum.* / C05.apps-ne-live tracked usage = sum of the live allocations
     C05.group-changed                     the group resolved for a tracked application is stable
     C05.limits.*                          the limits in force are those of the latest configuration -/
import YkDrv.Util
import YkModel.Ugm
open Lean Yk Yk.Ugm

namespace YkDrv

/-- a live allocation as the driver books it from the operations -/
structure UgAlloc where
  user : String
  app : String
  q : Path
  res : Res

structure UgmSt where
  m : Mgr := {}
  cfg : Option Cfg := none
  live : List UgAlloc := []
  offc : Bool := false          -- an off-contract call happened: accounting clauses are off for the rest of the case
  groupDrop : Bool := false     -- a reload took a limit of a group tracker away while it tracked applications
  hypOk : Bool := true          -- every reload of the case met the hypotheses of limits_follow_config_reload_partial
  -- a reload of the case met the documented precondition of a known class (KNOWN_FINDINGS.txt): a difference is attributed
  -- to the class only then, otherwise it is reported under a class of its own
  f17 : Bool := false           -- a queue lost its wildcard user limit while users are named on it before and after (F17)
  f18u : Bool := false          -- a user lost the limit of a queue and keeps / gets one in its subtree (F18)
  f18g : Bool := false          -- the same for a group (group-lost)

def ugList {α} (f : Json → Except String α) (j : Json) : Except String (List α) := do
  let a ← jArr j
  a.toList.mapM f

def ugStrs (j : Json) : Except String (List String) := ugList jStr j

def ugPath (s : String) : Path := s.splitOn "."
def ugShowPath (p : Path) : String := ".".intercalate p

def ugLimit (j : Json) : Except String Limit := do
  pure { maxRes := ← jORes (fldD j "res" .null), maxApps := ← (fld j "apps") >>= jNat }

def ugNode (j : Json) : Except String (Path × Node) := do
  pure (ugPath (← (fld j "path") >>= jStr),
        { usage := ← jORes (fldD j "usage" .null), apps := ← (fld j "apps") >>= ugStrs, maxRes := ← jORes (fldD j "max" .null),
          maxApps := ← (fld j "maxApps") >>= jNat, wild := ← (fld j "wild") >>= jBool })

def ugPair {α} (f : Json → Except String α) (j : Json) : Except String (String × α) := do
  let a ← jArr j
  if a.size != 2 then throw "bad pair"
  pure (← jStr a[0]!, ← f a[1]!)

def ugUser (j : Json) : Except String (String × UT) := do
  let ag ← (fld j "appGroups") >>= ugList (ugPair jStr)
  pure (← (fld j "name") >>= jStr,
        { qt := ← (fld j "nodes") >>= ugList ugNode, appGroups := ag.map (fun e => (e.1, if e.2 == "" then none else some e.2)) })

def ugGroup (j : Json) : Except String (String × GT) := do
  pure (← (fld j "name") >>= jStr, { qt := ← (fld j "nodes") >>= ugList ugNode, apps := ← (fld j "apps") >>= ugList (ugPair jStr) })

def ugMgr (j : Json) : Except String Mgr := do
  let p1 {α} (f : Json → Except String α) (j : Json) : Except String (Path × α) := do
    let e ← ugPair f j
    pure (ugPath e.1, e.2)
  pure { users := ← (fld j "users") >>= ugList ugUser, groups := ← (fld j "groups") >>= ugList ugGroup,
         userWild := ← (fld j "userWild") >>= ugList (p1 ugLimit), groupWild := ← (fld j "groupWild") >>= ugList (p1 ugLimit),
         confGroups := ← (fld j "confGroups") >>= ugList (p1 ugStrs),
         userLimits := ← (fld j "userLimits") >>= ugList (p1 (ugList (ugPair ugLimit))),
         groupLimits := ← (fld j "groupLimits") >>= ugList (p1 (ugList (ugPair ugLimit))) }

/-- the nested queue configuration, flattened in the order internalProcessConfig visits it -/
partial def ugCfg (parent : Path) (j : Json) : Except String Cfg := do
  let name ← (fld j "name") >>= jStr
  let p := parent ++ [name]
  let ls ← (fldD j "limits" (.arr #[])) |> ugList (fun l => do
    -- NewResourceFromConf never returns nil
    let r ← jORes (fldD l "res" .null)
    pure ({ users := ← (fld l "users") >>= ugStrs, groups := ← (fld l "groups") >>= ugStrs, maxRes := some (r.getD []),
            maxApps := ← (fld l "apps") >>= jNat } : LimitEntry))
  let qs ← jArr (fldD j "queues" (.arr #[]))
  let rest ← qs.toList.mapM (ugCfg p)
  pure ((p, ls) :: rest.flatten)

/-! ### canonical form (Go maps have no order) -/

def ugInsBy {α} (lt : α → α → Bool) (x : α) : List α → List α
  | [] => [x]
  | a :: t => if lt x a then x :: a :: t else a :: ugInsBy lt x t
def ugSortBy {α} (lt : α → α → Bool) (l : List α) : List α := l.foldl (fun acc x => ugInsBy lt x acc) []

def ugKey {β} (l : List (String × β)) : List (String × β) := ugSortBy (fun a b => a.1 < b.1) l
def ugKeyP {β} (l : List (Path × β)) : List (Path × β) := ugSortBy (fun a b => ugShowPath a.1 < ugShowPath b.1) l

def ugCanonNode (n : Node) : Node :=
  { n with usage := n.usage.map sortRes, maxRes := n.maxRes.map sortRes, apps := ugSortBy (· < ·) n.apps }
def ugCanonTree (t : Tree) : Tree := ugKeyP (t.map (fun e => (e.1, ugCanonNode e.2)))
def ugCanonLimit (l : Limit) : Limit := { l with maxRes := l.maxRes.map sortRes }

def ugCanon (m : Mgr) : Mgr :=
  { users := ugKey (m.users.map (fun e => (e.1, { qt := ugCanonTree e.2.qt, appGroups := ugKey e.2.appGroups }))),
    groups := ugKey (m.groups.map (fun e => (e.1, { qt := ugCanonTree e.2.qt, apps := ugKey e.2.apps }))),
    userWild := ugKeyP (m.userWild.map (fun e => (e.1, ugCanonLimit e.2))),
    groupWild := ugKeyP (m.groupWild.map (fun e => (e.1, ugCanonLimit e.2))),
    confGroups := ugKeyP m.confGroups,
    userLimits := ugKeyP (m.userLimits.map (fun e => (e.1, ugKey (e.2.map (fun l => (l.1, ugCanonLimit l.2)))))),
    groupLimits := ugKeyP (m.groupLimits.map (fun e => (e.1, ugKey (e.2.map (fun l => (l.1, ugCanonLimit l.2)))))) }

def ugShowNode (n : Node) : String :=
  s!"usage={showORes n.usage} apps={n.apps} max={showORes n.maxRes} maxApps={n.maxApps} wild={n.wild}"

def ugTreeDiff (kind name : String) (a b : Tree) : Option String :=
  if a.map (·.1) != b.map (·.1) then
    some s!"{kind}[{name}].queues model={a.map (fun e => ugShowPath e.1)} impl={b.map (fun e => ugShowPath e.1)}"
  else (a.zip b).findSome? (fun e => if e.1.2 == e.2.2 then none else
    some s!"{kind}[{name}].{ugShowPath e.1.1} model=({ugShowNode e.1.2}) impl=({ugShowNode e.2.2})")

/-- first difference between two canonical manager states -/
def ugDiff (a b : Mgr) : Option String :=
  if a == b then none else
  if a.users.map (·.1) != b.users.map (·.1) then some s!"users model={a.users.map (·.1)} impl={b.users.map (·.1)}"
  else if a.groups.map (·.1) != b.groups.map (·.1) then some s!"groups model={a.groups.map (·.1)} impl={b.groups.map (·.1)}"
  else match (a.users.zip b.users).findSome? (fun e => ugTreeDiff "user" e.1.1 e.1.2.qt e.2.2.qt) with
  | some d => some d
  | none => match (a.groups.zip b.groups).findSome? (fun e => ugTreeDiff "group" e.1.1 e.1.2.qt e.2.2.qt) with
  | some d => some d
  | none => match (a.users.zip b.users).findSome? (fun e => if e.1.2.appGroups == e.2.2.appGroups then none else
        some s!"appGroups[{e.1.1}] model={repr e.1.2.appGroups} impl={repr e.2.2.appGroups}") with
  | some d => some d
  | none => match (a.groups.zip b.groups).findSome? (fun e => if e.1.2.apps == e.2.2.apps then none else
        some s!"groupApps[{e.1.1}] model={e.1.2.apps} impl={e.2.2.apps}") with
  | some d => some d
  | none =>
    if a.userLimits != b.userLimits then some "userLimits"
    else if a.groupLimits != b.groupLimits then some "groupLimits"
    else if a.userWild != b.userWild then some "userWildCardLimitsConfig"
    else if a.groupWild != b.groupWild then some "groupWildCardLimitsConfig"
    else if a.confGroups != b.confGroups then some s!"configuredGroups model={a.confGroups} impl={b.confGroups}"
    else some "state"

/-! ### clauses on the implementation's state -/

def ugDedup (l : List String) : List String := l.foldl (fun acc s => if acc.contains s then acc else acc ++ [s]) []
def ugDedupP (l : List Path) : List Path := l.foldl (fun acc s => if acc.contains s then acc else acc ++ [s]) []

def ugShowLim (l : ORes × Nat) : String := s!"(max={showORes l.1},apps={l.2})"
def ugLimEq (a b : ORes × Nat) : Bool := oresEq a.1 b.1 && a.2 == b.2

/-- "limits follow the configuration", with the class of the first difference -/
def ugLimitsClause (m : Mgr) (c : Cfg) (f17 f18u f18g : Bool) : List String :=
  let paths := ugDedupP (c.map (·.1) ++ m.userWild.map (·.1) ++ (m.users.map (fun e => e.2.qt.map (·.1))).flatten
                         ++ (m.groups.map (fun e => e.2.qt.map (·.1))).flatten)
  let users := ugDedup (m.users.map (·.1) ++ (c.map (fun q => (q.2.map (·.users)).flatten)).flatten ++ ["some-other-user"])
  let users := users.filter (fun u => u != "*" && u != "")
  let groups := ugDedup (m.groups.map (·.1) ++ (c.map (fun q => (q.2.map (·.groups)).flatten)).flatten)
  let groups := groups.filter (· != "")
  let ub := users.flatMap (fun u => paths.filterMap (fun p =>
    let want := configuredUser c u p
    let have_ := inForceUser m u p
    if ugLimEq want have_ then none else
    let node := (aget m.users u).bind (fun ut => aget ut.qt p)
    let named := ((c.filter (fun q => q.1 == p)).flatMap (·.2)).any (fun l => l.users.contains u)
    let wildHere := ((c.filter (fun q => q.1 == p)).flatMap (·.2)).any (fun l => l.users.contains "*")
    -- F18 needs a reload that dropped a limit above a kept one; F17 a reload that dropped a wildcard limit beside named
    -- users, and the configuration has no wildcard limit on the queue (a tracker that is NOT under a wildcard limit the
    -- latest configuration does set is another matter: wildcard-not-applied / wildcard-differs)
    let namedLost := if f18u then "C05.limits.named-lost" else "C05.limits.named-not-in-force"
    let cls :=
      match node with
      | some n =>
        if named then
          -- the named limit is gone (nothing, or the wildcard limit took its place when the tracker was re-created)
          if n.wild || ugLimEq have_ (none, 0) then namedLost else "C05.limits.named-differs"
        else if n.wild then                                          -- a wildcard limit of an earlier configuration is kept
          if f17 && !wildHere then "C05.limits.stale-wildcard" else if wildHere then "C05.limits.wildcard-differs" else "C05.limits.wildcard-kept"
        else if ugLimEq have_ (none, 0) then "C05.limits.wildcard-not-applied"
        else "C05.limits.stale-named"
      | none => if named then namedLost else "C05.limits.wildcard-not-applied"
    some s!"{cls} user={u} queue={ugShowPath p} configured={ugShowLim want} inForce={ugShowLim have_}"))
  let gb := groups.flatMap (fun g => paths.filterMap (fun p =>
    let want := configuredGroup c g p
    let have_ := inForceGroup m g p
    if ugLimEq want have_ then none else
    let cls := if ugLimEq have_ (none, 0) then (if f18g then "C05.limits.group-lost" else "C05.limits.group-not-in-force") else "C05.limits.group-stale"
    some s!"{cls} group={g} queue={ugShowPath p} configured={ugShowLim want} inForce={ugShowLim have_}"))
  -- one representative per class
  (ub ++ gb).foldl (fun acc s => if acc.any (fun t => (t.splitOn " ").head! == (s.splitOn " ").head!) then acc else acc ++ [s]) []

def ugResKeys (l : List UgAlloc) : List String := ugDedup ((l.map (fun a => a.res.keys)).flatten)

/-- "tracked usage = sum of the live allocations" for users (usage and running applications) and groups (usage of the
    applications linked to the group) -/
def ugUsageClause (m : Mgr) (live : List UgAlloc) (groupDrop : Bool) : List String :=
  let sumOf (sel : UgAlloc → Bool) (p : Path) (k : String) : Int :=
    (live.filter (fun a => sel a && p.isPrefixOf a.q)).foldl (fun acc a => acc + a.res.getD k) 0
  let ub := m.users.findSome? (fun e =>
    let mine := live.filter (fun a => a.user == e.1)
    let paths := ugDedupP (e.2.qt.map (·.1) ++ (mine.map (fun a => prefixes a.q)).flatten)
    paths.findSome? (fun p =>
      let keys := ugDedup (ugResKeys mine ++ (match aget e.2.qt p with | some n => (n.usage.getD []).keys | none => []))
      match keys.findSome? (fun k =>
        let want := sumOf (fun a => a.user == e.1) p k
        let have_ := usageAt e.2.qt p k
        if want == have_ then none else some s!"C05.usage-ne-sum.user user={e.1} queue={ugShowPath p} type={k} tracked={have_} live={want}") with
      | some b => some b
      | none =>
        let wantApps := ugSortBy (· < ·) (ugDedup ((mine.filter (fun a => p.isPrefixOf a.q)).map (·.app)))
        let haveApps := ugSortBy (· < ·) (match aget e.2.qt p with | some n => n.apps | none => [])
        if wantApps == haveApps then none else some s!"C05.apps-ne-live user={e.1} queue={ugShowPath p} tracked={haveApps} live={wantApps}"))
  let missing := live.findSome? (fun a => if ahas m.users a.user then none else some s!"C05.usage-ne-sum.user user={a.user} has live allocations and no tracker")
  let linked (g : String) (a : UgAlloc) : Bool :=
    match aget m.users a.user with | some ut => aget ut.appGroups a.app == some (some g) | none => false
  let gb := m.groups.findSome? (fun e =>
    let mine := live.filter (linked e.1)
    let paths := ugDedupP (e.2.qt.map (·.1) ++ (mine.map (fun a => prefixes a.q)).flatten)
    paths.findSome? (fun p =>
      let keys := ugDedup (ugResKeys mine ++ (match aget e.2.qt p with | some n => (n.usage.getD []).keys | none => []))
      keys.findSome? (fun k =>
        let want := sumOf (linked e.1) p k
        let have_ := usageAt e.2.qt p k
        if want == have_ then none else
        let cls := if groupDrop then "C05.usage-ne-sum.group-after-limit-drop" else "C05.usage-ne-sum.group"
        some s!"{cls} group={e.1} queue={ugShowPath p} type={k} tracked={have_} live={want}")))
  [ub, missing, gb].filterMap id

/-- an admitted ask stays within the limits of every tracker on the path (types the limit defines; provided it was within before) -/
def ugEnforceClause (pre post : Tree) (who : String) (q : Path) (res : Res) (first : Bool) : Option String :=
  (prefixes q).findSome? (fun p =>
    match aget post p with
    | none => some s!"C05.enforce-res {who} queue={ugShowPath p} has no tracker after the allocation"
    | some n =>
      let r := if isZero n.maxRes then none else
        res.findSome? (fun e =>
          let mx := (n.maxRes.getD [])
          if mx.has e.1 && decide (usageAt pre p e.1 ≤ mx.getD e.1) && decide (usageAt post p e.1 > mx.getD e.1) then
            some s!"C05.enforce-res {who} queue={ugShowPath p} type={e.1} usage={usageAt post p e.1} max={mx.getD e.1}"
          else none)
      match r with
      | some b => some b
      | none => if first && n.maxApps != 0 && n.apps.length > n.maxApps then
          some s!"C05.enforce-apps {who} queue={ugShowPath p} running={n.apps.length} max={n.maxApps}" else none)

def ugTreeOfUser (m : Mgr) (u : String) : Tree := match aget m.users u with | some ut => ut.qt | none => []
def ugTreeOfGroup (m : Mgr) (g : String) : Tree := match aget m.groups g with | some gt => gt.qt | none => []

def ugGroupStable (pre post : Mgr) : Option String :=
  pre.users.findSome? (fun e => e.2.appGroups.findSome? (fun ag =>
    -- "while it is tracked": the application is among the running applications of the user
    if !(match aget e.2.qt rootPath with | some n => n.apps.contains ag.1 | none => false) then none else
    match aget post.users e.1 with
    | none => some s!"C05.group-changed user={e.1} app={ag.1} tracker removed"
    | some ut => if aget ut.appGroups ag.1 == some ag.2 then none else
        some s!"C05.group-changed user={e.1} app={ag.1} before={ag.2} after={aget ut.appGroups ag.1}"))

/-- the reload takes a limit away from an existing group tracker (resetGroupEarlierUsage runs) -/
def ugDropsGroupLimit (pre : Mgr) (c : Cfg) : Bool :=
  (dropped pre.groupLimits (processConfig pre c).2.groupLimits).any (fun e => ahas pre.groups e.2)

/-- all orders of a short list; rotations and their reversals of a longer one -/
def ugPerms {α} : List α → List (List α)
  | [] => [[]]
  | x :: t => (ugPerms t).flatMap (fun p => (List.range (p.length + 1)).map (fun i => p.take i ++ [x] ++ p.drop i))

def ugOrders {α} (l : List α) : List (List α) :=
  if l.length ≤ 4 then ugPerms l
  else (List.range l.length).flatMap (fun i => [l.rotateLeft i, (l.rotateLeft i).reverse])

def ugmStep (st : UgmSt) (j : Json) : Except String (UgmSt × String) := do
  let op ← (fld j "op") >>= jStr
  if op == "nondet" then
    let at_ := (jNat (fldD j "at" (.num 0))).toOption.getD 0
    let nm := (jStr (fldD j "opname" (.str ""))).toOption.getD ""
    return (st, s!"inv C05.map-order-dependent operation {at_} ({nm}) of the case gives different states on identical re-runs")
  let impl ← (fld j "st") >>= ugMgr
  let implC := ugCanon impl
  if op == "reset" then
    return ({ m := impl }, if ugDiff (ugCanon {}) implC |>.isSome then "diff reset.state" else "ok")
  let pre := st.m
  let q := ugPath ((jStr (fldD j "q" (.str "root"))).toOption.getD "root")
  let app := (jStr (fldD j "app" (.str ""))).toOption.getD ""
  let u := (jStr (fldD j "user" (.str ""))).toOption.getD ""
  let ugs := (ugStrs (fldD j "groups" (.arr #[]))).toOption.getD []
  let res ← jRes (fldD j "res" (.arr #[]))
  let rm := (jBool (fldD j "rm" (.bool false))).toOption.getD false
  let first := (jBool (fldD j "first" (.bool false))).toOption.getD false
  let offc := st.offc || (jBool (fldD j "offc" (.bool false))).toOption.getD false
  let out := fldD j "out" .null
  let mut cfg := st.cfg
  let mut live := st.live
  let mut groupDrop := st.groupDrop
  let mut hypOk := st.hypOk
  let mut f17 := st.f17
  let mut f18u := st.f18u
  let mut f18g := st.f18g
  let mut resultDiff : Option String := none
  let mut admitted := false
  let mut orderDep := false
  let mut model : Mgr := pre
  match op with
  | "conf" =>
    let c ← (fld j "cfg") >>= ugCfg []
    groupDrop := groupDrop || ugDropsGroupLimit pre c
    -- the hypotheses of the partial reload theorem, on the implementation's state before the reload
    let n2 := parseCfg c
    hypOk := hypOk && properCfgB c && noWildcardDropBesideNamed pre n2 &&
      noDropAboveKept pre.userLimits n2.userLimits && noDropAboveKept pre.groupLimits n2.groupLimits &&
      singleDrop pre.userLimits n2.userLimits && singleDrop pre.groupLimits n2.groupLimits
    f17 := f17 || !noWildcardDropBesideNamed pre n2
    f18u := f18u || !noDropAboveKept pre.userLimits n2.userLimits
    f18g := f18g || !noDropAboveKept pre.groupLimits n2.groupLimits
    model := updateConfig pre c
    -- Go iterates the old limit maps in random order: accept the outcome of any order of the resets
    let s := processConfig pre c
    let cands := (ugOrders (dropped s.1.groupLimits s.2.groupLimits)).flatMap (fun gl =>
      (ugOrders (dropped s.1.userLimits s.2.userLimits)).map (fun ul => ugCanon (finishConfig s gl ul)))
    let distinct := cands.foldl (fun acc m => if acc.contains m then acc else acc ++ [m]) []
    if distinct.length > 1 then
      orderDep := true
      match distinct.find? (· == implC) with
      | some m => model := m
      | none => pure ()
    cfg := some c
    if out != .bool true then resultDiff := some s!"conf.result model=true impl={out.compress}"
  | "headroom" =>
    let r := headroomM pre q app u ugs
    model := r.1
    let o ← jORes out
    if !oresEq r.2 o then resultDiff := some s!"headroom.result model={showORes r.2} impl={showORes o}"
  | "canRun" =>
    let r := canRunM pre q app u ugs
    model := r.1
    if out != .bool r.2 then resultDiff := some s!"canRun.result model={r.2} impl={out.compress}"
  | "inc" =>
    model := increaseM pre q app res u ugs
    live := live ++ [{ user := u, app := app, q := q, res := res }]
  | "dec" =>
    model := decreaseM pre q app res u rm
    -- the ledger: drop one matching live allocation (on-contract releases always find theirs)
    let rec dropOne : List UgAlloc → List UgAlloc
      | [] => []
      | a :: t => if a.user == u && a.app == app && a.q == q && resEq a.res res then t else a :: dropOne t
    live := dropOne live
  | "sched" =>
    let r1 := if first then canRunM pre q app u ugs else (pre, true)
    let iCan := fldD out "canRun" .null
    let iFit := (jBool (fldD out "fit" (.bool false))).toOption.getD false
    if first && iCan != .bool r1.2 then resultDiff := some s!"sched.canRun model={r1.2} impl={iCan.compress}"
    model := r1.1
    if r1.2 then
      let r2 := headroomM r1.1 q app u ugs
      let iHr ← jORes (fldD out "hr" .null)
      if resultDiff.isNone && !oresEq r2.2 iHr then resultDiff := some s!"sched.headroom model={showORes r2.2} impl={showORes iHr}"
      let fit := fitInMaxUndef r2.2 (some res)
      if resultDiff.isNone && fit != iFit then resultDiff := some s!"sched.fit model={fit} impl={iFit}"
      model := if fit then increaseM r2.1 q app res u ugs else r2.1
    if iFit then
      admitted := true
      live := live ++ [{ user := u, app := app, q := q, res := res }]
  | _ => return (st, "bad-op")
  let st' : UgmSt := { m := impl, cfg := cfg, live := live, offc := offc, groupDrop := groupDrop, hypOk := hypOk, f17 := f17, f18u := f18u, f18g := f18g }
  -- model vs implementation
  let diff : Option String := match resultDiff with
    | some d => some s!"diff {d}"
    | none => (ugDiff (ugCanon model) implC).map (fun d => s!"diff {op}.{d}")
  -- the property's clauses on the implementation's state
  let mut bad : List String := []
  if orderDep then
    bad := bad ++ ["C05.map-order-dependent the state after this reload depends on the order in which the dropped limits of the old configuration are reset (Go map iteration)"]
  match j.getObjVal? "dao" with
  | .ok d => bad := bad ++ [s!"C05.dao-mismatch {d.compress}"]
  | .error _ => pure ()
  if admitted then
    match ugEnforceClause (ugTreeOfUser pre u) (ugTreeOfUser impl u) s!"user={u}" q res first with
    | some b => bad := bad ++ [b]
    | none => pure ()
    let g := groupForApp impl u app
    if g != "" && ahas impl.groups g then
      match ugEnforceClause (ugTreeOfGroup pre g) (ugTreeOfGroup impl g) s!"group={g}" q res first with
      | some b => bad := bad ++ [b]
      | none => pure ()
  if op != "conf" && !(op == "dec" && rm) then
    match ugGroupStable pre impl with
    | some b => bad := bad ++ [b]
    | none => pure ()
  if !offc then bad := bad ++ ugUsageClause impl live groupDrop
  match cfg with
  | some c =>
    let lb := ugLimitsClause impl c f17 f18u f18g
    bad := bad ++ lb
    -- limits_follow_config_reload_partial: no limit may be off while every reload met its hypotheses
    if hypOk && !lb.isEmpty then
      bad := bad ++ ["C05.reload-partial-violated every reload of this case met the hypotheses of limits_follow_config_reload_partial and a limit in force differs from the configuration"]
  | none => pure ()
  match diff with
  | some df => return (st', " ;; ".intercalate (df :: bad))
  | none =>
    if bad.isEmpty then return (st', "ok")
    return (st', "inv " ++ " ;; ".intercalate bad)

end YkDrv
