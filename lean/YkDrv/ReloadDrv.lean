/- driver: C16 configuration reload.  Every line carries the complete dump of the real core plus, per partition, the
   queue tree with its configuration-derived fields.  For a reload line the model (YkModel/Reload.lean) is stepped from
   the implementation's previous state with the annotated configuration and compared with the implementation's new
   state; the model's fresh load is compared with the fresh load the real code builds (its dry-run partition); the
   property clauses (rejected = nothing changed, accepted = running state preserved, configured queues carry what a
   fresh load gives them, missing queues drain, shape of the tree) are evaluated on the implementation's dumps. -/
import YkDrv.Util
import YkDrv.CoreDrv
import YkModel.Reload
import YkModel.ReloadPlace
open Lean Yk Yk.Reload

namespace YkDrv

/-! ### parsing -/

def rlProps (j : Json) : Except String Props := do
  match j with
  | .null => pure []
  | _ => (← jArr j).toList.mapM (fun e => do
      let a ← jArr e
      if a.size != 2 then throw "bad property pair"
      pure (← jStr a[0]!, ← jStr a[1]!))

def rlState (s : String) : QState := if s == "Draining" then .draining else if s == "Stopped" then .stopped else .active

def rlTpl (j : Json) : Except String (Option Tpl) := do
  match j with
  | .null => pure none
  | _ => pure (some { maxApps := ← (fld j "apps") >>= jNat, props := ← rlProps (fldD j "props" .null),
                      max := ← jORes (fldD j "max" .null), guaranteed := ← jORes (fldD j "guar" .null) })

def rlSettings (j : Json) : Except String Settings := do
  pure { sort := ← (fld j "sort") >>= jStr, prioSort := ← (fld j "prioSort") >>= jBool, prioOffset := ← (fld j "prioOffset") >>= jInt,
         prioFence := ← (fld j "prioFence") >>= jBool, preempt := ← (fld j "preempt") >>= jStr,
         preemptDelay := ← (fld j "preemptDelay") >>= jNat, quotaDelay := ← (fld j "quotaDelay") >>= jNat,
         backoff := ← (fld j "backoff") >>= jNat, backoffDelay := ← (fld j "backoffDelay") >>= jNat }

def rlQueue (j : Json) : Except String RQ := do
  pure { path := ← (fld j "path") >>= jStr, parent := ← (fld j "parent") >>= jStr, leaf := ← (fld j "leaf") >>= jBool,
         managed := ← (fld j "managed") >>= jBool, state := rlState (← (fld j "state") >>= jStr),
         max := ← jORes (fldD j "max" .null), guaranteed := ← jORes (fldD j "guaranteed" .null), maxApps := ← (fld j "maxApps") >>= jNat,
         props := ← rlProps (fldD j "props" .null), set := ← (fld j "set") >>= rlSettings, tpl := ← rlTpl (fldD j "tpl" .null),
         allocated := ← (fld j "allocated") >>= jRes, pending := ← (fld j "pending") >>= jRes, preempting := ← (fld j "preempting") >>= jRes,
         apps := ← (fld j "apps") >>= jStrList, reserved := ← (fld j "reserved") >>= jListOf jPairSN,
         running := ← (fld j "running") >>= jNat, allocating := ← (fld j "allocating") >>= jStrList }

/-- node sorting policy (type, resource weights as printed), preemption flags, placement rules in force -/
def rlPSettings (j : Json) : Except String PSettings := do
  pure { nodeSort := ← (fld j "sort") >>= jStr,
         weights := ← (← jArr (fldD j "weights" (.arr #[]))).toList.mapM (fun e => do
           let a ← jArr e
           if a.size != 2 then throw "bad weight pair"
           pure (← jStr a[0]!, ← jStr a[1]!)),
         preemption := ← (fld j "preempt") >>= jBool, quotaPreemption := ← (fld j "quota") >>= jBool,
         ruleNames := ← (fld j "ruleNames") >>= jStrList, rules := ← (fld j "rules") >>= jStr }

def showPSettings (s : PSettings) : String :=
  s!"[nodesort={s.nodeSort},weights={s.weights},preemption={s.preemption},quotaPreemption={s.quotaPreemption},rules={s.ruleNames}]"

/-- first field on which the settings of two partitions differ -/
def psDiff (a b : PSettings) : Option String :=
  if a.nodeSort != b.nodeSort then some s!"nodesortpolicy.type {a.nodeSort} / {b.nodeSort}"
  else if a.weights != b.weights then some s!"nodesortpolicy.resourceweights {a.weights} / {b.weights}"
  else if a.preemption != b.preemption then some s!"preemption.enabled {a.preemption} / {b.preemption}"
  else if a.quotaPreemption != b.quotaPreemption then some s!"preemption.quotapreemptionenabled {a.quotaPreemption} / {b.quotaPreemption}"
  else if a.ruleNames != b.ruleNames then some s!"placementrules {a.ruleNames} / {b.ruleNames}"
  else if a.rules != b.rules then some s!"placementrules {a.rules} / {b.rules}"
  else none

def rlPart (j : Json) : Except String (String × Part) := do
  pure (← (fld j "name") >>= jStr, { tree := ← (fld j "queues") >>= jListOf rlQueue, settings := ← (fld j "settings") >>= rlPSettings, limits := "" })

/-! ### placement rules in force and submissions (YkModel/Place.lean through YkModel/ReloadPlace.lean) -/

/-- a rule as the harness reads it back from the rule DAOs: name, value (fixed: queue, tag: tag name), create, parent -/
partial def rlPRule (j : Json) : Except String Place.Rule := do
  let name := (← (fld j "name") >>= jStr).toLower
  let value := ((jStr (fldD j "value" (.str ""))).toOption.getD "").toLower.toList
  let create ← jBool (fldD j "create" (.bool false))
  let kind ← if name == "provided" then pure Place.Kind.provided
    else if name == "user" then pure Place.Kind.user
    else if name == "tag" then pure (Place.Kind.tag value)
    else if name == "fixed" then pure (Place.Kind.fixed value)
    else throw s!"unknown rule {name}"
  let parents ← match fldD j "parent" .null with
    | .null => pure []
    | p => rlPRule p
  pure ({ kind := kind, create := create, filter := Place.newFilter (fun _ => false) [] [] [] } :: parents)

/-- the rule list in force in the default partition of a dump (none: a rule outside the model, e.g. one with a filter) -/
def rlRulesInForce (st : Json) : Option (List Place.Rule) :=
  let parts := ((jArr (fldD st "parts" (.arr #[]))).toOption.getD #[]).toList
  match parts.find? (fun pj => (jStr (fldD pj "name" (.str ""))).toOption.getD "" == "[rm-verif]default") with
  | none => none
  | some pj =>
    if !((jBool (fldD pj "prulesModelled" (.bool false))).toOption.getD false) then none
    else match (jArr (fldD pj "prules" (.arr #[]))) with
      | .error _ => none
      | .ok a => (a.toList.mapM rlPRule).toOption

def showPKind : Place.Kind → String
  | .provided => "provided" | .user => "user" | .tag n => s!"tag({String.ofList n})" | .fixed v => s!"fixed({String.ofList v})" | .recovery => "recovery"

/-- a rule with its parent rules: `user+create<fixed(root.c)+create` -/
def showPRule (r : Place.Rule) : String :=
  "<".intercalate (r.map (fun nd => showPKind nd.kind ++ (if nd.create then "+create" else "")))

def rlTags (j : Json) : List (Place.Str × Place.Str) :=
  match j with
  | .obj kvs => kvs.toList.filterMap (fun (k, v) => match jStr v with | .ok x => some (k.toList, x.toList) | .error _ => none)
  | _ => []

def rlCluster (st : Json) : Except String Cluster := do (fld st "parts") >>= jListOf rlPart

/-- the limits handed to the user manager cannot be read back from the implementation: they are carried along -/
def withLimits (cl : Cluster) (lim : Cluster) : Cluster :=
  cl.map (fun (n, p) => (n, { p with limits := match lim.get n with | some x => x.limits | none => "" }))

/-- the fresh load the real code builds for each partition of a valid configuration: a partition or the error text -/
def rlFresh (j : Json) : Except String (List (String × Option Part)) := do
  match j with
  | .null => pure []
  | _ => (← jArr j).toList.mapM (fun e => do
      let n ← (fld e "name") >>= jStr
      match e.getObjVal? "error" with
      | .ok _ => pure (n, none)
      | .error _ => pure (n, some (← rlPart e).2))

def rlTplConf (j : Json) : Except String TplConf := do
  pure { maxApps := ← (fld j "apps") >>= jNat, props := ← rlProps (fldD j "props" .null), maxRaw := ← rlProps (fldD j "maxRaw" .null),
         guarRaw := ← rlProps (fldD j "guarRaw" .null), max := ← jRes (fldD j "max" .null), guaranteed := ← jRes (fldD j "guar" .null) }

/-- the configuration tree flattened in pre-order (the order updateQueues / addQueue visit it), names lower-cased -/
partial def rlFlatten (j : Json) (parent : String) : Except String (List QC) := do
  let name := (← (fld j "name") >>= jStr).toLower
  let path := if parent == "" then name else parent ++ "." ++ name
  let kids := (← jArr (fldD j "queues" (.arr #[]))).toList
  let c : QC := { path := path, parent := parent, name := name,
                  isParent := (← (fld j "parent") >>= jBool) || !kids.isEmpty,
                  max := ← jRes (fldD j "max" .null), guaranteed := ← jRes (fldD j "guar" .null), maxApps := ← (fld j "apps") >>= jNat,
                  props := ← rlProps (fldD j "props" .null), tpl := ← (fld j "tpl") >>= rlTplConf,
                  aclBad := ← (fld j "aclBad") >>= jBool, tplBad := ← (fld j "tplBad") >>= jBool, resBad := ← (fld j "resBad") >>= jBool }
  let rest ← kids.mapM (fun k => rlFlatten k path)
  pure (c :: rest.flatten)

/-- partitions of the annotated configuration; the settings text of a partition is the one the real fresh load shows -/
def rlConf (cfg : Json) (fresh : List (String × Option Part)) : Except String (List PC) := do
  (← jArr cfg).toList.mapM (fun p => do
    let n ← (fld p "name") >>= jStr
    let root := fldD p "root" .null
    let rootName ← match root with | .null => pure "" | r => (fld r "name") >>= jStr
    let qs ← match root with | .null => pure [] | r => rlFlatten r ""
    let settings : PSettings := match fresh.find? (fun e => e.1 == n) with | some (_, some fp) => fp.settings | _ => {}
    pure { name := n, rootName := rootName, queues := qs, settings := settings, limits := (jStr (fldD p "limits" (.str ""))).toOption.getD "",
           rulesBad := ← (fld p "rulesBad") >>= jBool })

/-! ### comparison -/

def insProp (p : String × String) : Props → Props
  | [] => [p]
  | q :: t => if p.1 < q.1 then p :: q :: t else q :: insProp p t
def sortProps (p : Props) : Props := p.foldl (fun acc e => insProp e acc) []
def propsEq (a b : Props) : Bool := sortProps a == sortProps b

def showProps (p : Props) : String := "{" ++ ",".intercalate ((sortProps p).map (fun e => s!"{e.1}={e.2}")) ++ "}"

def tplEq (a b : Option Tpl) : Bool :=
  match a, b with
  | none, none => true
  | some x, some y => x.maxApps == y.maxApps && propsEq x.props y.props && oresEq x.max y.max && oresEq x.guaranteed y.guaranteed
  | _, _ => false

def showTpl (t : Option Tpl) : String :=
  match t with
  | none => "nil"
  | some t => s!"[apps={t.maxApps},props={showProps t.props},max={showORes t.max},guar={showORes t.guaranteed}]"

def showState : QState → String
  | .active => "Active" | .draining => "Draining" | .stopped => "Stopped"

def showSet (s : Settings) : String :=
  s!"[sort={s.sort},prioSort={s.prioSort},prioOffset={s.prioOffset},prioFence={s.prioFence},preempt={s.preempt},preemptDelay={s.preemptDelay},quotaDelay={s.quotaDelay},backoff={s.backoff},backoffDelay={s.backoffDelay}]"

/-- first configuration-derived field on which two queues differ (the fields of `RQ.cfgView`) -/
def cfgDiff (a b : RQ) : Option (String × String × String) :=
  let va := a.cfgView
  let vb := b.cfgView
  if va.leaf != vb.leaf then some ("leaf", toString va.leaf, toString vb.leaf)
  else if va.managed != vb.managed then some ("managed", toString va.managed, toString vb.managed)
  else if va.state != vb.state then some ("state", showState va.state, showState vb.state)
  else if !oresEq va.max vb.max then some ("max", showORes va.max, showORes vb.max)
  else if !oresEq va.guaranteed vb.guaranteed then some ("guaranteed", showORes va.guaranteed, showORes vb.guaranteed)
  else if va.maxApps != vb.maxApps then some ("maxApps", toString va.maxApps, toString vb.maxApps)
  else if !propsEq va.props vb.props then some ("props", showProps va.props, showProps vb.props)
  else if va.set != vb.set then some ("settings", showSet va.set, showSet vb.set)
  else if !tplEq va.tpl vb.tpl then some ("tpl", showTpl va.tpl, showTpl vb.tpl)
  else none

/-- first runtime field on which two queues differ -/
def runtimeDiff (a b : RQ) : Option String :=
  if !resEq a.allocated b.allocated then some s!"allocated {showRes a.allocated} -> {showRes b.allocated}"
  else if !resEq a.pending b.pending then some s!"pending {showRes a.pending} -> {showRes b.pending}"
  else if !resEq a.preempting b.preempting then some s!"preempting {showRes a.preempting} -> {showRes b.preempting}"
  else if sortStrs a.apps != sortStrs b.apps then some s!"apps {sortStrs a.apps} -> {sortStrs b.apps}"
  else if a.reserved != b.reserved then some "reserved"
  else if a.running != b.running then some s!"running {a.running} -> {b.running}"
  else if sortStrs a.allocating != sortStrs b.allocating then some "allocating"
  else none

/-- all fields; the top queue's maximum follows the nodes, not the configuration -/
def queueDiff (m i : RQ) : Option String :=
  if m.parent != i.parent then some s!"parent[{m.path}] model={m.parent} impl={i.parent}"
  else match cfgDiff m i with
  | some (f, x, y) => some s!"{f}[{m.path}] model={x} impl={y}"
  | none =>
    if m.leaf && !tplEq m.tpl i.tpl then some s!"tpl[{m.path}] model={showTpl m.tpl} impl={showTpl i.tpl}"
    else if m.parent == "" && !oresEq m.max i.max then some s!"max[{m.path}] model={showORes m.max} impl={showORes i.max}"
    else (runtimeDiff m i).map (fun d => s!"runtime[{m.path}] {d}")

def treeDiffR (m i : Tree) : Option String :=
  match m.findSome? (fun q => match i.find q.path with
      | none => some s!"queue {q.path} model=present impl=missing"
      | some x => queueDiff q x) with
  | some d => some d
  | none => i.findSome? (fun q => if (m.find q.path).isNone then some s!"queue {q.path} model=missing impl=present" else none)

def clusterDiff (m i : Cluster) : Option String :=
  match m.findSome? (fun (n, p) => match i.get n with
      | none => some s!"partition {n} model=present impl=missing"
      | some x =>
        if p.settings != x.settings then some s!"settings[{n}] {(psDiff p.settings x.settings).getD ""} model={showPSettings p.settings} impl={showPSettings x.settings}"
        else (treeDiffR p.tree x.tree).map (fun d => s!"[{n}] {d}")) with
  | some d => some d
  | none => i.findSome? (fun (n, _) => if (m.get n).isNone then some s!"partition {n} model=missing impl=present" else none)

/-! ### state of the driver -/

structure ReloadSt where
  prev : Option Json := none          -- previous dump (`st`)
  cl : Cluster := []                  -- its partitions
  text : String := ""                 -- configuration in force
  rules : String := "other"           -- placement rules of the default partition: provided-create | provided | other
  groupLimits : List String := []     -- group@path of every group limit handed to the user manager last
  inForce : List String := []         -- paths of the queues the configuration in force names in the default partition
  prules : Option (List Place.Rule) := none  -- placement rules in force in the default partition (read back from the rule DAOs)

def rlUsageOf (pre : String) (l : List (String × List UsageEntry)) : List (String × List (String × Res × List String)) :=
  l.map (fun (x : String × List UsageEntry) =>
    (pre ++ x.1, (x.2.filter (fun (e : UsageEntry) => !(e.usage.all (fun p => p.2 == 0)) || !e.apps.isEmpty)).map
      (fun (e : UsageEntry) => (e.path, sortRes (e.usage.filter (fun p => p.2 != 0)), sortStrs e.apps))))

def rlUsage (st : Json) : Except String (List (String × List (String × Res × List String))) := do
  let us ← (fld st "users") >>= jListOf jTracker
  let gs ← (fld st "groups") >>= jListOf jTracker
  pure ((rlUsageOf "user:" us ++ rlUsageOf "group:" gs).filter (fun e => !e.2.isEmpty))

def sameJ (a b : Json) (k : String) : Bool := (fldD a k .null).compress == (fldD b k .null).compress

/-- the clauses of an ACCEPTED reload, on the implementation's dumps: `pre`/`post` trees of one partition, the entries of
    its configuration, the fresh tree of the real code -/
def acceptedClauses (n : String) (pre post : Part) (pc : PC) (fresh : Option Part) : List String :=
  let confd (p : String) := configured pc.queues p
  -- configured queues carry what a fresh load gives them
  let applied : List String := match fresh with
    | none => [s!"C16.L0 accepted configuration has no fresh load [{n}]"]
    | some f =>
      (if post.settings != f.settings then [s!"C16.S1 partition settings [{n}] {(psDiff post.settings f.settings).getD ""} reload={showPSettings post.settings} fresh={showPSettings f.settings}"] else []) ++
      pc.queues.filterMap (fun c =>
        match post.tree.find c.path, f.tree.find c.path with
        | none, _ => some s!"C16.L0 configured queue missing after reload {c.path}"
        | _, none => some s!"C16.L0 configured queue missing in the fresh load {c.path}"
        | some q, some fq =>
          match cfgDiff q fq with
          | none => none
          | some (fldn, x, y) =>
            if (fldn == "max" || fldn == "guaranteed") && c.name == "root" then
              some s!"C16.L2 {c.path} (a queue NAMED root below the top queue) {fldn} reload={x} fresh={y}"
            else some s!"C16.L.{fldn} {c.path} reload={x} fresh={y}") ++
      -- ... and what the configuration itself says (type, limits): the fresh load is not the yardstick here
      pc.queues.filterMap (fun c =>
        match post.tree.find c.path with
        | none => none
        | some q =>
          let named := c.name == "root" && c.parent != ""
          if q.leaf == c.isParent then some s!"C16.V.leaf {c.path} is leaf={q.leaf}, configured parent={c.isParent}"
          else if c.parent == "" then (if q.maxApps != c.maxApps then some s!"C16.V.maxApps {c.path} maxApplications={q.maxApps} configured={c.maxApps}" else none)
          else if !oresEq q.max (setRes c.max) then
            some (if named then s!"C16.L2 {c.path} (a queue NAMED root below the top queue) max={showORes q.max} configured={showRes c.max}"
                  else s!"C16.V.max {c.path} max={showORes q.max} configured={showRes c.max}")
          else if !oresEq q.guaranteed (setRes c.guaranteed) then
            some (if named then s!"C16.L2 {c.path} (a queue NAMED root below the top queue) guaranteed={showORes q.guaranteed} configured={showRes c.guaranteed}"
                  else s!"C16.V.guaranteed {c.path} guaranteed={showORes q.guaranteed} configured={showRes c.guaranteed}")
          else if q.maxApps != c.maxApps then some s!"C16.V.maxApps {c.path} maxApplications={q.maxApps} configured={c.maxApps}"
          else none)
  -- managed queues the configuration does not name are draining; nothing disappears; running state untouched
  let missing : List String := post.tree.filterMap (fun q =>
    if q.managed && !confd q.path && q.state != .draining then some s!"C16.M1 managed queue {q.path} is not named by the configuration and is {showState q.state}" else none)
  let preserved : List String := pre.tree.filterMap (fun q =>
    match post.tree.find q.path with
    | none => some s!"C16.R1 queue {q.path} disappeared in a reload"
    | some x =>
      match runtimeDiff q x with
      | some d => some s!"C16.R1 {q.path} {d}"
      | none => if !q.managed && !confd q.path && q != x then some s!"C16.U1 dynamic queue {q.path} changed in a reload" else none)
  let fresh0 : List String := post.tree.filterMap (fun q =>
    if (pre.tree.find q.path).isNone && q.runtime != Runtime.zero then some s!"C16.R1 new queue {q.path} starts with usage" else none)
  -- shape: flips with content
  let shape : List String := post.tree.filterMap (fun q =>
    let was := pre.tree.find q.path
    if q.leaf && post.tree.hasChild q.path && !(match was with | some w => w.leaf && pre.tree.hasChild w.path | none => false) then
      some s!"C16.F2 {q.path} became a leaf and still has child queues {(post.tree.filter (fun x => x.parent == q.path)).map (·.path)}: the scheduler no longer reaches them"
    else if !q.leaf && !q.apps.isEmpty && !(match was with | some w => !w.leaf && !w.apps.isEmpty | none => false) then
      some s!"C16.F1 {q.path} became a parent and still holds applications {q.apps}: they are never scheduled again"
    else none)
  applied ++ missing ++ preserved ++ fresh0 ++ shape

/-- tree invariant the marking model relies on: a queue below an unmanaged queue is unmanaged -/
def shapeInv (t : Tree) : Option String :=
  t.findSome? (fun q => if !q.managed then none else
    match t.find q.parent with
    | some p => if !p.managed then some s!"C16.W0 managed queue {q.path} below the unmanaged queue {p.path}" else none
    | none => if q.parent == "" then none else some s!"C16.W0 queue {q.path} without parent {q.parent}")

def reloadStep (st : ReloadSt) (j : Json) : Except String (ReloadSt × String) := do
  let op ← (fld j "op") >>= jStr
  let hang := (jBool (fldD j "hang" (.bool false))).toOption.getD false
  if op == "reset" then
    match j.getObjVal? "st" with
    | .error _ => return ({}, "ok config-refused")
    | .ok d =>
      let cl ← rlCluster d
      let fresh ← rlFresh (fldD j "fresh" .null)
      let conf ← rlConf (← fld j "cfg") fresh
      let text ← (fld j "yaml") >>= jStr
      let rules := (jStr (fldD j "rules" (.str "other"))).toOption.getD "other"
      let cfgJ0 ← fld j "cfg"
      -- one user manager for all partitions: the limits of the partition loaded last are the ones in force
      let gl : List String := match ((jArr cfgJ0).toOption.getD #[]).toList.getLast? with
        | some p => (jStrList (fldD p "limitGroupPaths" (.arr #[]))).toOption.getD []
        | none => []
      let namedBy (conf : List PC) : List String := match conf.find? (fun pc => pc.name == "[rm-verif]default") with | some pc => pc.queues.map (·.path) | none => []
      let st' : ReloadSt := { prev := some d, cl := cl, text := text, rules := rules, groupLimits := gl, prules := rlRulesInForce d, inForce := namedBy conf }
      if !(conf.all (fun pc => confWF pc.queues)) then return (st', "bad-op configuration list not well-formed")
      -- the initial load is a fresh load of every partition
      match updateSchedulerConfig [] conf with
      | (_, some e) => return (st', s!"diff reset.accepted model=refused({repr e}) impl=loaded")
      | (m, none) =>
        let st' := { st' with cl := withLimits cl m }
        match clusterDiff m cl with
        | some dd => return (st', s!"diff reset.state {dd}")
        | none => return (st', "ok")
  if hang then
    -- only a reload that drops a partition is expected not to return (partitionManager.Stop under the context lock)
    if op == "reload" then
      let conf ← rlConf (← fld j "cfg") []
      let dropped := st.cl.filter (fun (n, _) => !(conf.any (fun pc => pc.name == n)))
      if !dropped.isEmpty then return ({}, s!"inv C16.P1 reload that drops partition {dropped.map (·.1)} does not return")
    return ({}, s!"hang {op}")
  let post ← fld j "st"
  let cl := withLimits (← rlCluster post) st.cl
  let pre := st.cl
  let some prevJ := st.prev | return ({ st with prev := some post, cl := cl, prules := rlRulesInForce post }, "ok no-previous-state")
  let base : ReloadSt := { st with prev := some post, cl := cl, prules := rlRulesInForce post }
  let inv0 : List String := (cl.filterMap (fun (_, p) => shapeInv p.tree)) ++
    -- the rest of the well-formedness the marking theorems are about (proved invariant for the model: `w0_reachable`)
    (cl.filterMap (fun (n, p) =>
      if !parentsFirst p.tree then some s!"C16.W1 [{n}] the dumped tree is not parents-first with distinct non-empty paths"
      else if !w0 p.tree then some s!"C16.W0 [{n}] a managed queue below an unmanaged one"
      else if !pathParents p.tree then some s!"C16.W2 [{n}] a queue does not name its parent by its path"
      else none))
  -- no application enters a queue that was draining
  let drainClause : List String := (pre.map (fun (n, p) => p.tree.filterMap (fun q =>
      if q.state != .draining then none else
      match (cl.get n).bind (fun x => x.tree.find q.path) with
      | some x => let added := x.apps.filter (fun a => !q.apps.contains a)
                  if added.isEmpty then none else some s!"C16.D1 draining queue {q.path} took new applications {added}"
      | none => none))).flatten
  -- what every parent offers to the scheduling cycle (the real sortQueues) against the model's `offered`: a draining
  -- child with pending resources is offered like an active one
  let offeredImpl : List (String × String × List String) := ((jArr (fldD post "parts" (.arr #[]))).toOption.getD #[]).toList.flatMap (fun pj =>
    let pn := (jStr (fldD pj "name" (.str ""))).toOption.getD ""
    ((jArr (fldD pj "queues" (.arr #[]))).toOption.getD #[]).toList.filterMap (fun qj =>
      match qj.getObjVal? "offered" with
      | .ok o => some (pn, (jStr (fldD qj "path" (.str ""))).toOption.getD "", (jStrList o).toOption.getD [])
      | .error _ => none))
  let offeredDiff : Option String := offeredImpl.findSome? (fun (pn, qp, impl) =>
    match cl.get pn with
    | none => none
    | some part =>
      let m := offered part.tree qp
      if sortStrs m == sortStrs impl then none
      else some s!"diff reload.offered [{pn}] {qp} offers model={sortStrs m} impl={sortStrs impl} to the scheduler")
  let finish (st' : ReloadSt) (diff : Option String) (fails : List String) (okTag : String) : ReloadSt × String :=
    let fails := fails ++ inv0 ++ drainClause
    let diff := match diff with | some d => some d | none => offeredDiff
    match diff, fails.isEmpty with
    | none, true => (st', okTag)
    | some d, true => (st', d)
    | none, false => (st', "inv " ++ " ;; ".intercalate fails)
    | some d, false => (st', d ++ " ;; " ++ " ;; ".intercalate fails)
  match op with
  | "reload" =>
    let valid ← (fld j "valid") >>= jBool
    let out ← (fld j "out") >>= jBool
    let viaEvent := (jStr (fldD j "via" (.str "direct"))).toOption.getD "direct" == "event"
    let text ← (fld j "yaml") >>= jStr
    let fresh ← rlFresh (fldD j "fresh" .null)
    let cfgJ ← fld j "cfg"
    let conf ← rlConf cfgJ fresh
    let partPairs : List (String × List String) := ((jArr cfgJ).toOption.getD #[]).toList.map (fun p =>
      ((jStr (fldD p "name" (.str ""))).toOption.getD "", (jStrList (fldD p "limitGroupPaths" (.arr #[]))).toOption.getD []))
    let allGroupLimits : List String := partPairs.flatMap (·.2)
    if valid && !(conf.all (fun pc => confWF pc.queues)) then return (base, "bad-op configuration list not well-formed")
    let s0 : CState := { cluster := pre, text := st.text }
    let (s1, merr) := configUpdate s0 viaEvent valid text conf
    let rules := (jStr (fldD j "rules" (.str "other"))).toOption.getD "other"
    -- partitions the model updates before it refuses a later one (known class A1): their placement rules are in force
    let failingPC (pc : PC) : Bool := (match pc.fresh with | .error _ => true | .ok _ => false) || ((pre.get pc.name).isSome && pc.rulesBad)
    let updatedBeforeRefusal := valid && merr.isSome && (conf.takeWhile (fun pc => !failingPC pc)).any (fun pc => pc.name == "[rm-verif]default")
    -- the partitions whose limits were handed to the user manager, in order: all of them when the update went through,
    -- those before the refused one otherwise
    let processed : List PC := if !valid || (viaEvent && text == st.text) then [] else if merr.isNone then conf else conf.takeWhile (fun pc => !failingPC pc)
    let effectiveLimits : List String := match processed.getLast? with
      | some pc => ((partPairs.find? (fun e => e.1 == pc.name)).map (·.2)).getD []
      | none => st.groupLimits
    -- every (group, queue) limit that some step of the walk over the partitions took out of force
    let removedLimits : List String := (processed.foldl (fun (acc : List String × List String) pc =>
        let eff := ((partPairs.find? (fun e => e.1 == pc.name)).map (·.2)).getD []
        (eff, acc.2 ++ acc.1.filter (fun gp => !eff.contains gp))) (st.groupLimits, [])).2
    let st' : ReloadSt := { base with cl := withLimits cl s1.cluster, text := if out then text else st.text,
                                      rules := if (out && !(viaEvent && text == st.text)) || updatedBeforeRefusal then rules else st.rules,
                                      groupLimits := effectiveLimits,
                                      inForce := if (out && !(viaEvent && text == st.text)) || updatedBeforeRefusal then
                                                   (match conf.find? (fun pc => pc.name == "[rm-verif]default") with | some pc => pc.queues.map (·.path) | none => st.inForce)
                                                 else st.inForce }
    -- model vs implementation: the answer, then the state
    let diffAns : Option String :=
      if merr.isNone != out then some s!"diff reload.accepted model={merr.isNone}{match merr with | some e => "(" ++ toString (repr e) ++ ")" | none => ""} impl={out} {(jStr (fldD j "error" (.str ""))).toOption.getD ""}"
      else none
    let diffState : Option String := (clusterDiff s1.cluster cl).map (fun d => "diff reload.state " ++ d)
    -- the model's fresh load against the fresh load of the real code (only what the real code could load)
    let diffFresh : Option String := if !valid then none else conf.findSome? (fun pc =>
      match fresh.find? (fun e => e.1 == pc.name) with
      | none => some s!"diff fresh.partition {pc.name} missing in the fresh loads"
      | some (_, none) => (match pc.fresh with | .error _ => none | .ok _ => some s!"diff fresh.accepted[{pc.name}] model=loaded impl=refused")
      | some (_, some fp) =>
        match pc.fresh with
        | .error e => some s!"diff fresh.accepted[{pc.name}] model=refused({repr e}) impl=loaded"
        | .ok mp => (treeDiffR mp.tree fp.tree).map (fun d => s!"diff fresh.state [{pc.name}] {d}"))
    -- the marking walk as the code performs it (`updateTreeRec`: MarkQueueForRemoval down through the children) on the
    -- implementation's previous tree, against the implementation's new tree
    let diffWalk : Option String :=
      if !out || (viaEvent && text == st.text) then none else conf.findSome? (fun pc =>
        match pre.get pc.name, cl.get pc.name with
        | some p0, some p1 =>
          (match updateTreeRec p0.tree pc.queues with
           | (tw, none) => (treeDiffR tw p1.tree).map (fun d => s!"diff reload.walk [{pc.name}] {d}")
           | (_, some _) => none)
        | _, _ => none)
    let diff := match diffAns, diffFresh, diffState, diffWalk with
      | some d, _, _, _ => some d
      | none, some d, _, _ => some d
      | none, none, some d, _ => some d
      | none, none, none, d => d
    -- clauses on the implementation
    let unchanged : Option String :=
      if post.compress == prevJ.compress then none else
      some (match clusterDiff pre cl with
        | some d => d
        | none => if !sameJ prevJ post "apps" then "applications" else if !sameJ prevJ post "nodes" then "nodes"
                  else if !sameJ prevJ post "users" || !sameJ prevJ post "groups" then "user/group trackers" else "other state")
    let clauses : List String :=
      if !out then
        (match unchanged with
         | none => []
         | some d =>
           -- known class: an earlier partition of the configuration was already updated (queues, settings, limits handed
           -- to the user manager again) when a later one was refused
           let failing (pc : PC) : Bool := (match pc.fresh with | .error _ => true | .ok _ => false) || ((pre.get pc.name).isSome && pc.rulesBad)
           let before := conf.takeWhile (fun pc => !failing pc)
           if valid && before.length < conf.length && before.any (fun pc => (pre.get pc.name).isSome) && (clusterDiff s1.cluster cl).isNone then
             [s!"C16.A1 rejected reload changed the state (partition {(before.map (·.name))} was updated before a later one was refused): {d}"]
           else [s!"C16.A0 rejected reload changed the state: {d}"])
      else if viaEvent && text == st.text then
        (match unchanged with | none => [] | some d => [s!"C16.A2 reload of the identical configuration changed the state: {d}"])
      else
        (conf.map (fun pc =>
          match pre.get pc.name, cl.get pc.name with
          | some p0, some p1 => acceptedClauses pc.name p0 p1 pc ((fresh.find? (fun e => e.1 == pc.name)).bind (·.2))
          | none, some _ => []          -- new partition
          | _, none => [s!"C16.L0 partition {pc.name} missing after the reload"])).flatten ++
        (if !sameJ prevJ post "apps" then ["C16.R2 a reload changed applications / asks / allocations / reservations"] else []) ++
        (if !sameJ prevJ post "nodes" then ["C16.R2 a reload changed nodes"] else []) ++
        (if !sameJ prevJ post "counters" || !sameJ prevJ post "foreign" || !sameJ prevJ post "total" then ["C16.R2 a reload changed partition counters"] else []) ++
        (match rlUsage prevJ, rlUsage post with
         | .ok a, .ok b =>
           let users (l : List (String × List (String × Res × List String))) := l.filter (fun e => e.1.startsWith "user:")
           -- a group is tracked only while a limit names it. The limits in force are those of the partition updated LAST
           -- (one user manager for all partitions). Known classes: G1 a limit the configuration still states was dropped
           -- because another partition came later; G2 a limit was really removed at one queue and the tracker wiped the
           -- whole path instead of subtracting
           let groupClass (name : String) (persists : Bool) : Option String :=
             let g := (name.drop 6).toString
             let removed := removedLimits.filter (fun gp => gp.startsWith (g ++ "@"))
             if removed.isEmpty then some s!"C16.R3 a reload changed the usage booked for {name}"
             else if removed.any (fun gp => allGroupLimits.contains gp) then
               some s!"C16.G1 the usage booked for {name} was dropped: its limits {removed.filter (fun gp => allGroupLimits.contains gp)} are still configured, but a partition of the configuration that does not state them handed its own limits to the one user manager (every partition replaces the whole limit configuration)"
             else if !persists && !(effectiveLimits.any (fun gp => gp.startsWith (g ++ "@"))) then none
             else some s!"C16.G2 the usage booked for {name} changed: its limit was removed at {removed} and the tracker wiped every queue on that path"
           (if users a == users b then [] else ["C16.R3 a reload changed the usage booked for users"]) ++
           -- a group is tracked only while a limit names it: a tracker may go with its limit, not otherwise
           (a.filterMap (fun e =>
             if !e.1.startsWith "group:" then none else
             match b.find? (fun x => x.1 == e.1) with
             | some x =>
               if x.2 == e.2 then none else
               groupClass e.1 true
             | none => groupClass e.1 false))
         | _, _ => ["C16.R3 user trackers unreadable"])
    return finish st' diff clauses "ok"
  | "clean" =>
    let m : Cluster := pre.map (fun (n, p) => (n, { p with tree := clean p.tree }))
    let diff := (clusterDiff m cl).map (fun d => "diff clean.state " ++ d)
    -- removed only when empty: no applications, no usage, no child left, draining or dynamic
    let clauses : List String := (pre.map (fun (n, p) => p.tree.filterMap (fun q =>
      match cl.get n with
      | none => some s!"C16.C0 partition {n} disappeared"
      | some x =>
        if (x.tree.find q.path).isSome then none
        else if !q.apps.isEmpty then some s!"C16.C1 queue {q.path} removed with applications {q.apps}"
        else if q.managed && q.state != .draining then some s!"C16.C2 managed queue {q.path} removed while {showState q.state}"
        else if x.tree.hasChild q.path then some s!"C16.C3 queue {q.path} removed before its children"
        else if !(q.allocated.all (fun e => e.2 == 0)) || !(q.pending.all (fun e => e.2 == 0)) then some s!"C16.C4 queue {q.path} removed with usage"
        else none))).flatten ++
      (if !sameJ prevJ post "apps" || !sameJ prevJ post "nodes" then ["C16.C5 the queue cleaner changed applications or nodes"] else [])
    return finish base diff clauses "ok"
  | _ =>
    -- every other operation: configuration-derived fields stay as they are; queues appear only as dynamic queues and
    -- never disappear (only the cleaner removes queues)
    let frame : List String := (pre.map (fun (n, p) =>
      match cl.get n with
      | none => [s!"C16.N0 partition {n} disappeared in {op}"]
      | some x =>
        p.tree.filterMap (fun q => match x.tree.find q.path with
          | none =>
            -- the partition manager's own cleaner runs every 10 s in the background: a queue it may remove is tolerated
            if removable p.tree q then none else some s!"C16.N1 queue {q.path} disappeared in {op}"
          | some y => match cfgDiff q y with
            | some (f, a, b) => some s!"C16.N2 {op} changed {f} of {q.path}: {a} -> {b}"
            | none => none) ++
        x.tree.filterMap (fun y => if (p.tree.find y.path).isNone && y.managed then some s!"C16.N3 {op} created the managed queue {y.path}" else none))).flatten
    -- submission through the provided rule: the model's answer (open ACLs, one rule)
    let hasDefault : Bool := match pre.get "[rm-verif]default" with | some p0 => (p0.tree.find "root.default").isSome | none => false
    -- the whole rule chain (YkModel/Place.lean on the tree of the reload model): the answer PartitionContext.AddApplication
    -- gives for the rule list in force — every configured rule, the recovery rule, the root.default fall-back of the last
    -- rule — against the recorded answer; and the clause itself on the recorded answer: never into a draining queue
    let subPlace : List String × Bool :=
      if op != "app-add" then ([], false) else
      match st.prules, pre.get "[rm-verif]default", j.getObjVal? "placed" with
      | some rules, some p0, .ok pj =>
        let id := (jStr (fldD j "id" (.str ""))).toOption.getD ""
        if p0.tree.any (fun x => x.apps.contains id) then ([], false) else
        let gang := match j.getObjVal? "phAsk" with | .ok _ => true | .error _ => false
        let a : Place.App := { user := { name := ((jStr (fldD j "user" (.str ""))).toOption.getD "").toList,
                                         groups := (((jStr (fldD j "groups" (.str ""))).toOption.getD "").splitOn " ").filterMap (fun g => if g.isEmpty then none else some g.toList) },
                               queue := ((jStr (fldD j "queue" (.str ""))).toOption.getD "").toList, tags := rlTags (fldD j "tags" .null) }
        let mo := Place.submit p0.tree rules a
        let acc := (jBool (fldD pj "acc" (.bool false))).toOption.getD false
        let iq := (jStr (fldD pj "queue" (.str ""))).toOption.getD ""
        let showM : String := match mo with | .accepted _ => s!"accepted({mo.queueText})" | .panic => "panic" | .rejected r => s!"rejected({(toString (repr r)).replace "Yk.Place.Reason." ""})"
        let showI : String := if acc then s!"accepted({iq})" else "rejected"
        let ctx := s!"{id} queue={(jStr (fldD j "queue" (.str ""))).toOption.getD ""} rules={rules.map showPRule}"
        let diff : List String := match mo with
          | .accepted _ => if acc && iq == mo.queueText then [] else if !acc && gang then [] else [s!"diff reload.place {ctx} model={showM} impl={showI}"]
          | .rejected _ => if acc then [s!"diff reload.place {ctx} model={showM} impl={showI}"] else []
          | .panic => [s!"diff reload.place {ctx} model={showM} impl={showI}"]
        let drain : List String :=
          if !acc then [] else match p0.tree.find iq with
            | some q => if q.state == .draining then [s!"C16.D2 application {ctx} was accepted into the draining queue {iq}"] else []
            | none => []
        -- … nor into a configured-type queue the configuration in force no longer names (it should be draining: e.g. the
        -- child of a parent that an update turned into a leaf)
        let gone : List String :=
          if !acc then [] else match p0.tree.find iq with
            | some q => if q.managed && q.state != .draining && !st.inForce.isEmpty && !st.inForce.contains iq then
                          [s!"C16.D3 application {ctx} was accepted into the managed queue {iq} ({showState q.state}) that the configuration in force does not name: it should be draining"] else []
            | none => []
        (diff ++ drain ++ gone, true)
      | _, _, _ => ([], false)
    let sub : List String × Bool :=
      -- the single provided rule against `admits` (no root.default: that rule list has no fall-back then)
      if op != "app-add" || st.rules == "other" || hasDefault || ((jStr (fldD j "queue" (.str ""))).toOption.getD "").isEmpty then ([], false) else
      let q0 := ((jStr (fldD j "queue" (.str ""))).toOption.getD "").toLower
      -- the provided rule qualifies a name that is not below root
      let q := if q0.startsWith "root." then q0 else "root." ++ q0
      let id := (jStr (fldD j "id" (.str ""))).toOption.getD ""
      let gang := match j.getObjVal? "phAsk" with | .ok _ => true | .error _ => false
      match pre.get "[rm-verif]default", cl.get "[rm-verif]default" with
      | some p0, some p1 =>
        let known := p0.tree.any (fun x => x.apps.contains id)
        if known then ([], false) else
        let want := admits p0.tree q (st.rules == "provided-create")
        let got := p1.tree.any (fun x => x.apps.contains id)
        if got && !want then ([s!"diff reload.submit {id} -> {q} model=refused impl=accepted"], true)
        else if !got && want && !gang then ([s!"diff reload.submit {id} -> {q} model=accepted impl=refused"], true)
        else ([], true)
      | _, _ => ([], false)
    let diffs := (subPlace.1 ++ sub.1).filter (fun s => s.startsWith "diff ")
    let placeClauses := subPlace.1.filter (fun s => !(s.startsWith "diff "))
    -- liveness probe: scheduling cycles ran to quiescence on a node with room for everything. A probe ask that is still
    -- pending although nothing the scheduler looks at stands in its way (application runnable, no back-off, queue and
    -- user headroom, room on the node) was starved. In a draining leaf / below a draining queue that breaks "existing
    -- applications keep running" (K1) — judged against the control group: some application of an active leaf got its
    -- probe ask in the same run. The flips keep their known classes.
    let probeClauses : List String :=
      if op != "probe" then [] else
      let ps := ((jArr (fldD j "probes" (.arr #[]))).toOption.getD #[]).toList
      let b (pj : Json) (k : String) : Bool := (jBool (fldD pj k (.bool false))).toOption.getD false
      let sv (pj : Json) (k : String) : String := (jStr (fldD pj k (.str ""))).toOption.getD ""
      let cycles := (jNat (fldD j "cycles" (.num 0))).toOption.getD 0
      let control := ps.filter (fun pj => b pj "alloc" && b pj "leaf" && sv pj "qstate" == "Active" && !b pj "ancDraining" && !b pj "ancLeaf")
      ps.filterMap (fun pj =>
        let starved := !b pj "alloc" && b pj "pending" && b pj "runnable" && !b pj "backoff" && b pj "qfit" && b pj "ufit" && b pj "nodeRoom" && !b pj "gang"
        if !starved then none
        else if !b pj "leaf" then some s!"C16.F1 (probe) {sv pj "app"} sits in the parent queue {sv pj "queue"}: its ask {sv pj "key"} is not allocated within {cycles} cycles"
        else if b pj "ancLeaf" then some s!"C16.F2 (probe) {sv pj "app"} in {sv pj "queue"} below a leaf: its ask {sv pj "key"} is not allocated within {cycles} cycles"
        else if sv pj "qstate" == "Draining" || b pj "ancDraining" then
          (if control.isEmpty then none
           else some s!"C16.K1 draining-queue-keeps-running: {sv pj "app"} in {sv pj "queue"} ({sv pj "qstate"}{if b pj "ancDraining" then ", below a draining queue" else ""}) has the pending ask {sv pj "key"} that fits the node, its queue and its user, and is not allocated within {cycles} cycles, while {control.map (fun c => sv c "app")} in active leaves were served")
        else none)
    return finish base diffs.head? (frame ++ placeClauses ++ probeClauses) (if sub.2 || subPlace.2 then "ok" else "ok unmodelled")

end YkDrv
