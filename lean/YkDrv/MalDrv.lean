/- driver: malformed SI stream (C13).  A line is either an operation of the valid history (the dumped state is kept as
   the state the next injected request meets) or an injected raw request `"op":"si"`: its items are classified by
   `Si.handle` on the implementation's previous state; the real answer (rejections with their reasons, acceptances,
   announcements) and the real next state are compared with the classification, and the property's own statement
   (`Si.invalid` ⇒ rejected where the protocol has a rejection ∧ accounting unchanged; no state clause newly broken) is
   evaluated on what the implementation did. -/
import YkDrv.Util
import YkDrv.CoreDrv
import YkModel.SiReq
open Lean Yk Yk.Core Yk.Si

namespace YkDrv

def jStrMap (j : Json) : Except String (Option StrMap) :=
  match j with
  | .null => pure none
  | .obj kvs => do
    let l ← kvs.toList.mapM (fun (p : String × Json) => do pure (p.1, ← jStr p.2))
    pure (some l)
  | _ => throw s!"bad map {j.compress}"

def sD (j : Json) (k : String) : String := (jStr (fldD j k (.str ""))).toOption.getD ""
def bD (j : Json) (k : String) : Bool := (jBool (fldD j k (.bool false))).toOption.getD false
def iD (j : Json) (k : String) : Int := (jInt (fldD j k (.num 0))).toOption.getD 0

def jSiAlloc (j : Json) : Except String Alloc := do
  let pp : Option (Bool × Bool) := match j.getObjVal? "pp" with
    | .ok (.obj _) => some (bD (fldD j "pp" .null) "self", bD (fldD j "pp" .null) "other")
    | _ => none
  pure { key := sD j "key", app := sD j "app", node := sD j "node", part := sD j "part", tg := sD j "tg", ph := bD j "ph",
         res := ← jORes (fldD j "res" .null), tags := ← jStrMap (fldD j "tags" .null), pp := pp, prio := iD j "prio" }

def jSiRelease (j : Json) : Except String Release := do
  pure { part := sD j "part", app := sD j "app", key := sD j "key", ttype := iD j "type" }

def jSiAppNew (j : Json) : Except String AppNew := do
  let ugi : Option Ugi ← match j.getObjVal? "ugi" with
    | .ok (.obj _) => do
      let u := fldD j "ugi" .null
      let gs ← jStrList (fldD u "groups" (.arr #[]))
      pure (some { user := sD u "user", groups := gs })
    | _ => pure none
  pure { id := sD j "id", queue := sD j "queue", part := sD j "part", ugi := ugi, tags := ← jStrMap (fldD j "tags" .null),
         phAsk := ← jORes (fldD j "phAsk" .null) }

def jSiNode (j : Json) : Except String NodeInfo := do
  pure { id := sD j "id", action := iD j "action", attrs := ← jStrMap (fldD j "attrs" .null), res := ← jORes (fldD j "res" .null) }

def jItems (req : Json) : Except String (List Item) := do
  let arr (k : String) : List Json := ((jArr (fldD req k (.arr #[]))).toOption.getD #[]).toList
  match sD req "t" with
  | "alloc" => do
    let a ← (arr "allocs").mapM jSiAlloc
    let r ← (arr "rel").mapM jSiRelease
    pure (a.map Item.alloc ++ r.map Item.release)
  | "app" => do
    let a ← (arr "new").mapM jSiAppNew
    let r := (arr "remove").map (fun j => Item.appRemove { id := sD j "id", part := sD j "part" })
    pure (a.map Item.appNew ++ r)
  | "node" => do
    let n ← (arr "nodes").mapM jSiNode
    pure (n.map Item.node)
  -- a configuration update that carries the configuration in force: no item, nothing may change, it must be answered
  | "conf" => pure []
  | t => throw s!"unknown request type {t}"

/-- configs.UserRegExp `^[_a-zA-Z][a-zA-Z0-9:#/_.@-]*[$]?$` -/
def userRegexOK (u : String) : Bool :=
  match u.toList with
  | [] => false
  | c :: rest =>
    let body := if rest.getLast? == some '$' then rest.dropLast else rest
    (c == '_' || c.isAlpha) && body.all (fun x => x.isAlphanum || ":#/_.@-".toList.contains x)

def contains (s sub : String) : Bool := (s.splitOn sub).length > 1

/-- the reason text of a rejection → the check that fired -/
def whyOfReason (t reason : String) : Option Why :=
  match t with
  | "alloc-rejected" =>
    if contains reason "Failed to find partition" then some .partition
    else if contains reason "placeholder without a task group" then some .placeholderNoTaskGroup
    else if contains reason "has a negative resource" then some .negativeResource
    else if contains reason "foreign request" then some .foreignNotAllocated
    else if contains reason "node ID is empty" then some .foreignNotAllocated
    else if contains reason "failed to find node" && contains reason " for allocation " then some .foreignNode
    else if contains reason "failed to find node" then some .node
    else if contains reason "failed to find application" then some .application
    else if contains reason "contains no resources" then some .zeroResource
    else if contains reason "contains negative resources" then some .negativeResource
    else none
  | "app-rejected" =>
    if contains reason "partition doesn't exist" then some .partition
    else if contains reason "empty user" then some .userEmpty
    else if contains reason "invalid username" then some .userInvalid
    else if contains reason "already existed" then some .duplicateApp
    else some .placement
  | "node-rejected" =>
    if contains reason "failed to find partition" then some .nodePartition
    else if contains reason "without a node ID" then some .emptyId
    else if contains reason "failure while adding new node" then some .nodeDuplicate
    else none
  | _ => none

def normWhy : Why → Why
  | .existingNode => .node
  | w => w

/-- (kind, id, id2, why) signature of answers that are compared exactly -/
def msgSigModel : Msg → Option String
  | .rejectedAlloc k a w => some s!"alloc-rejected {k}/{a} {repr (normWhy w)}"
  | .rejectedApp i w => some s!"app-rejected {i} {repr w}"
  | .rejectedNode i w => some s!"node-rejected {i} {repr w}"
  | .acceptedApp i => some s!"app-accepted {i}"
  | .acceptedNode i => some s!"node-accepted {i}"
  | .newAlloc _ _ _ => none

def msgSigImpl (m : Json) : Option String :=
  let t := sD m "t"
  let why := match whyOfReason t (sD m "reason") with | some w => toString (repr w) | none => "unknown-reason:" ++ sD m "reason"
  match t with
  | "alloc-rejected" => some s!"alloc-rejected {sD m "key"}/{sD m "app"} {why}"
  | "app-rejected" => some s!"app-rejected {sD m "app"} {why}"
  | "node-rejected" => some s!"node-rejected {sD m "node"} {why}"
  | "app-accepted" => some s!"app-accepted {sD m "app"}"
  | "node-accepted" => some s!"node-accepted {sD m "node"}"
  | _ => none

def insStrM (p : String) : List String → List String
  | [] => [p]
  | q :: t => if p < q then p :: q :: t else q :: insStrM p t
def sortStr (l : List String) : List String := l.foldl (fun acc p => insStrM p acc) []

def itemKind : Item → String
  | .alloc _ => "alloc" | .release _ => "release" | .appNew _ => "app-new" | .appRemove _ => "app-remove" | .node _ => "node"

def itemHuge : Item → Bool
  | .alloc a => (resOf a.res).any (fun p => p.2.natAbs ≥ 1099511627776)
  | .appNew a => (resOf a.phAsk).any (fun p => p.2.natAbs ≥ 1099511627776)
  | .node n => (resOf n.res).any (fun p => p.2.natAbs ≥ 1099511627776)
  | _ => false

/-- every state clause of CoreState, each as "<id> detail" -/
def stateClauses (c : Core) : List String :=
  let tag (o : Option String) : List String := match o with | some e => [e] | none => []
  conservedAll c ++ tag (nodeLedger c) ++ tag (resOK c) ++ tag (lifecycleOK c) ++ tag (countersOK c) ++
  tag (usageOK c) ++ tag (idleOK c) ++ tag (rootMaxOK c) ++
  -- foreign allocations: occupied = Σ foreign allocations on the node, every one of them known to the partition
  tag (c.nodes.findSome? (fun n =>
    let fs := n.allocs.filter (·.foreign)
    if !sparseEq n.occupied (sumRes (fs.map (·.res))) then some s!"occupied≠Σforeign {n.id}"
    else match fs.find? (fun a => !c.foreign.contains a.key) with
      | some a => some s!"foreign-ghost {a.key}@{n.id}"
      | none => none))

def clauseId (e : String) : String := (e.splitOn " ").head!

structure MalSt where
  prev : Option Core := none
  sat : Bool := false            -- a quantity near the int64 range has entered the ledgers: exact-arithmetic clauses are muted
  taint : Option String := none  -- an item of a known gap class was accepted earlier in this history

/-- common.GetNormalizedPartitionName -/
def normPart (name rm : String) : String :=
  let n := if name == "" then "default" else name
  if n.startsWith "[" then n else "[" ++ rm ++ "]" ++ n

def malEnv (place : AppNew → Bool) : Env :=
  { rm := "rm-verif", isPart := fun p => normPart p "rm-verif" == "[rm-verif]default", userOK := userRegexOK, place := place }

def gapName (g : Gap) : String := toString (repr g) |>.replace "Yk.Si.Gap." ""
def whyName (w : Why) : String := toString (repr w) |>.replace "Yk.Si.Why." ""

def malSi (st : MalSt) (pre post : Core) (j : Json) : Except String (MalSt × String) := do
  let req ← fld j "req"
  let items ← jItems req
  let rm := sD req "rm"
  let msgs := ((jArr (fldD j "msgs" (.arr #[]))).toOption.getD #[]).toList
  let proxyErr := (j.getObjVal? "err").toOption.isSome
  -- placement oracle: the implementation's own answer for that application (property C17 models placement)
  let place (a : AppNew) : Bool :=
    !(msgs.any (fun m => sD m "t" == "app-rejected" && sD m "app" == a.id && whyOfReason "app-rejected" (sD m "reason") == some .placement))
  let env := malEnv place
  let implSigs := sortStr (msgs.filterMap msgSigImpl)
  let huge := items.any itemHuge
  let sat := st.sat || huge
  -- ---------------------------------------------------------------- model vs implementation
  let (diffs, modelled) : List String × Bool :=
    match handleAll env rm pre items with
    | .error p => ([s!"diff mal.si panic model={repr p} impl=no-panic"], false)
    | .ok (mst, results) =>
      let newIds := items.filterMap (fun i => match i with | .appNew a => some a.id | _ => none)
      let complete := (results.length == items.length || rm != env.rm) && newIds.eraseDups.length == newIds.length
      let modelSigs := sortStr ((results.map (fun r => r.2.msgs.filterMap msgSigModel)).flatten)
      let d1 : List String :=
        if proxyErr != (rm != env.rm) then [s!"diff mal.si proxy-error model={rm != env.rm} impl={proxyErr}"]
        else if complete then
          (if modelSigs != implSigs then [s!"diff mal.si answers model={modelSigs} impl={implSigs} verdicts={results.map (fun r => repr r.2.verdict)}"] else [])
        else
          (match modelSigs.find? (fun m => !implSigs.contains m) with
           | some m => [s!"diff mal.si answer-missing model={m} impl={implSigs}"]
           | none => [])
      -- announcements of RM-placed allocations
      let d2 : List String := (results.map (fun r => r.2.msgs.filterMap (fun m => match m with
          | .newAlloc k a n => if msgs.any (fun x => sD x "t" == "alloc" && sD x "key" == k && sD x "app" == a && sD x "node" == n) then none
                               else some s!"diff mal.si announcement-missing model={k}/{a}@{n} impl=none"
          | _ => none))).flatten
      -- nothing but rejections / silence predicted: the core must not have announced or released anything
      let quiet := complete && results.all (fun r => match r.2.verdict with | .accept _ => false | _ => true)
      let d3 : List String := if quiet && msgs.any (fun x => sD x "t" == "alloc" || sD x "t" == "release") then
          ["diff mal.si unexpected-traffic model=none impl=" ++ toString (msgs.filterMap (fun x => if sD x "t" == "alloc" || sD x "t" == "release" then some (sD x "t" ++ " " ++ sD x "key") else none))] else []
      let d4 : List String := match mst with
        | some m => if !complete || sat then [] else
            if quiet then [] -- every item refused or ignored: "accounting as it was" is judged by the clauses below
            else
            (match ledgerDiff m post with
             | some e => [s!"diff mal.si state {e} verdicts={results.map (fun r => repr r.2.verdict)}"]
             | none => [])
        | none => []
      -- the stepped model does not follow the damage an item of a known gap class does
      let gapItem := rm == env.rm && items.any (fun i => (gapOf env pre i).isSome)
      -- … nor a ledger that was already inconsistent before the request (the code then refuses e.g. to take more off a queue than it holds)
      (d1 ++ d2 ++ d3 ++ (if gapItem || st.taint.isSome || !(stateClauses pre).isEmpty then [] else d4), complete && mst.isSome)
  -- ---------------------------------------------------------------- the property's statement on the implementation
  let trace := acctDiff pre post
  let single : Option Item := match items with | [i] => if rm == env.rm then some i else none | _ => none
  let gaps : List Gap := if rm == env.rm then items.filterMap (gapOf env pre) else []
  let gap : Option Gap := gaps.head?
  let how : String := match single with
    | some it => (match handle env pre it with
      | .ok r => (match r.verdict with
        | .accept h => (toString (repr h)).replace "Yk.Si.How." ""
        | .reject _ => "rejected"
        | .ignore _ => "ignored")
      | .error _ => "panic")
    | none => "multi"
  let specFails : List String := match single with
    | none => []
    | some it =>
      match invalid env pre it with
      | none => []
      | some w =>
        let noRej : List String := match rejection it with
          | none => []
          | some mkMsg => (match msgSigModel (mkMsg w) with
            | some sig =>
              let head := (sig.splitOn " ").take 2
              if implSigs.any (fun s => (s.splitOn " ").take 2 == head) then [] else [s!"C13.invalid-not-rejected.{itemKind it}.{whyName w}"]
            | none => [])
        let changed : List String := match trace with
          | some e => [s!"C13.invalid-changes-state.{itemKind it}.{whyName w} {e}"]
          | none => []
        noRej ++ changed
  -- a rejected item leaves no trace (single item: the trace is its own)
  let rejected := msgs.any (fun m => sD m "t" == "alloc-rejected" || sD m "t" == "app-rejected" || sD m "t" == "node-rejected")
  let traceFails : List String := match single, trace with
    | some it, some e =>
      if rejected && specFails.isEmpty then
        [s!"C13.rejected-leaves-trace.{itemKind it}{if e.startsWith "queue" then ".queue" else ""} {e}"] else []
    | _, _ => []
  -- every item of the request refused or ignored by the implementation (no acceptance, announcement or release): no trace
  let onlyRefusals := !msgs.any (fun m => sD m "t" == "alloc" || sD m "t" == "release" || sD m "t" == "app-accepted" || sD m "t" == "node-accepted" || sD m "t" == "app-state")
  let traceFails := if traceFails.isEmpty && specFails.isEmpty && single.isNone && rejected && onlyRefusals &&
      items.all (fun i => (invalid env pre i).isSome) then
      (match trace with
       | some e =>
         -- (a rejected application whose tags changed the limits of its dynamic queue: the class of the single-item case)
         if e.startsWith "queue" && items.any (fun i => match i with | .appNew _ => invalid env pre i == some .placement | _ => false)
         then [s!"C13.invalid-changes-state.app-new.placement {e}"] else [s!"C13.refused-leaves-trace.multi {e}"]
       | none => []) else traceFails
  -- a request the proxy refused must not reach the core
  let proxyFails : List String := if proxyErr && (trace.isSome || !msgs.isEmpty) then ["C13.proxy-refused-but-processed"] else []
  -- no state clause newly broken
  let before := (stateClauses pre).map clauseId
  let newly := if sat then [] else (stateClauses post).filter (fun e => !before.contains (clauseId e))
  -- the real half of a replacement in flight on another node, orphaned by the removal of its ask / application: C03.I7r
  let keyOf (f : String) : String := ((f.splitOn " ").getLast!.splitOn "@").head!
  let inflight := (pre.liveApps.map (fun a => (a.items.filter (·.inflightReal)).map (·.key))).flatten
  let newly := newly.map (fun e => if clauseId e == "I7" && inflight.contains (keyOf e) then "I7r " ++ e else e)
  -- a Failing application that leaves the partition with real allocations still on their nodes: C03.I7t and its consequences
  let newly := if newly.any (fun e => clauseId e == "I7t") then newly.filter (fun e => clauseId e == "I7t") else newly
  let newly := if newly.any (fun e => clauseId e == "I7r") then newly.filter (fun e => clauseId e == "I7r") else newly
  -- an item of the request (alone or among others) changes the size of an allocation that is marked for preemption
  let resizesPreempted := items.any (fun i => match i with
    | .alloc a => (match pre.findApp a.app with
      | some app => app.items.any (fun x => x.key == a.key && x.bound && x.preempted && !(sameRes (resOf a.res) x.res))
      | none => false)
    | _ => false)
  -- the release (any termination type; the only item of the request, nothing pending) of a bound allocation by key that makes its application idle (→ Completing) also
  -- takes the application off its user's running applications (removeAllocationInternal: removeApp goes with CompleteApplication)
  let stillTracked : List String := items.filterMap (fun i => match i with
    | .release r =>
      if r.key == "" then none else
      (match pre.findApp r.app, post.findApp r.app with
       | some a, some b =>
         if items.length == 1 && isZero (some a.pending) &&
            a.state != "Completing" && b.state == "Completing" && a.items.any (fun x => x.key == r.key && x.bound) &&
            post.users.any (fun u => u.1 == b.user && u.2.any (fun e => e.apps.contains b.id))
         then some s!"completing-still-tracked {b.id} {b.user}" else none
       | _, _ => none)
    | _ => none)
  let newly := newly ++ (if sat then [] else stillTracked)
  let stateFails := newly.map (fun e =>
    if clauseId e == "I7r" || clauseId e == "I7t" then "C13.state." ++ clauseId e ++ " " ++ e
    else if clauseId e == "I11" && resizesPreempted then "C13.state.I11/resize " ++ e
    else "C13.state." ++ clauseId e ++ "/" ++ how ++ " " ++ e)
  -- a live application that was moved to the completed list although it is not terminated and the request does not name
  -- it: the terminated callback of an EARLIER application object with the same id (PartitionContext.moveTerminatedApp
  -- looks the application up by id) ran late, in its own goroutine, after the id had been submitted again
  let removedIds := items.filterMap (fun i => match i with | .appRemove r => some r.id | _ => none)
  let terminal := ["Completed", "Failed", "Expired", "Rejected"]
  let moved := pre.liveApps.filter (fun a => !(post.liveApps.any (·.id == a.id)) && !removedIds.contains a.id &&
      !terminal.contains a.state &&
      post.apps.any (fun b => !b.live && b.id == a.id && b.state == a.state && b.queue == a.queue))
  let movedFails := moved.map (fun a => s!"C13.stale-terminated-callback {a.id} {a.state}")
  let fails := if movedFails.isEmpty then specFails ++ traceFails ++ proxyFails ++ stateFails else movedFails
  -- known gap classes: everything this item breaks is one finding; later damage in the same history is its consequence
  let changedByGap := gap.isSome && (trace.isSome || !fails.isEmpty)
  let fails : List String := match gap with
    | some g => if fails.isEmpty then [] else [s!"C13.G-{gapName g} " ++ "; ".intercalate fails]
    | none => match st.taint with
      | some t => fails.map (fun f => if f.startsWith "C13.state." then s!"C13.G-later (after {t}) " ++ f else f)
      | none =>
        -- a ledger that was already inconsistent before the request (damage done by an operation of the valid history on
        -- a state an earlier injected request prepared, or a known finding of C03): further clauses failing are its consequence
        match (stateClauses pre).head? with
        | some d => fails.map (fun f => if f.startsWith "C13.state." then s!"C13.G-later (state already damaged: {clauseId d}) " ++ f else f)
        | none => fails
  let taint := match st.taint, gap with
    | some t, _ => some t
    | none, some g => if changedByGap then some (gapName g) else none
    | none, none => none
  let st' : MalSt := { prev := some post, sat := sat, taint := taint }
  let okTag := if modelled then "ok" else "ok unmodelled"
  let diffs := if movedFails.isEmpty then diffs else []
  match diffs, fails with
  | [], [] => pure (st', okTag)
  | d :: _, [] => pure (st', d)
  | [], _ => pure (st', "inv " ++ " ;; ".intercalate fails)
  | d :: _, _ => pure (st', d ++ " ;; " ++ " ;; ".intercalate fails)

def malStep (st : MalSt) (j : Json) : Except String (MalSt × String) := do
  let op ← (fld j "op") >>= jStr
  if (j.getObjVal? "hang").toOption.isSome then
    return ({ prev := none }, s!"hang mal.{op} the request did not return within 10 s")
  if op == "reset" then return ({}, "ok")
  if op != "si" then
    -- an operation of the valid history (the line carries the operation only): judged by the checks of the other
    -- properties (component core); a panic in it is reported by the dispatcher
    return (st, "ok unmodelled")
  let pre ← (fld j "pre") >>= jCore
  let post ← (fld j "st") >>= jCore
  malSi st pre post j

end YkDrv
