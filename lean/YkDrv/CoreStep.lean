/- driver, full stack: which operation of the stepped Core model (YkModel/CoreOps.lean) an input line corresponds to.
   `steppedModel pre post op j msgs` steps the model from the implementation's previous dumped state `pre`; `none` means the
   operation is outside the stepped model (the line is then counted as `ok unmodelled`; the clauses of CoreState are
   evaluated on it all the same).  The scheduler's decisions (which ask on which node) are read from the messages the
   core sent (`msgs`), never predicted; `post` is only consulted to recognise situations the model does not cover. -/
import YkDrv.Util
import YkModel.CoreState
import YkModel.CoreOps
import YkModel.CoreOps2
import YkModel.CoreRun
open Lean Yk Yk.Core

namespace YkDrv

/-- the in-flight replacement a placeholder release of a scheduling cycle announces: the real item of the application
    (in the state after the cycle) that is linked to placeholder `phKey` -/
def swapDecision (post : Core) (app phKey : String) : Option (String × String) :=
  (post.findApp app).bind (fun a => (a.items.find? (fun i => !i.ph && i.release == some phKey)).map (fun i => (i.key, i.node)))

/-- The operations of the stepped model (YkModel/CoreRun.lean) an input line corresponds to; `none`: outside the stepped
    model. -/
def stepOps (pre post : Core) (op : String) (j : Json) (msgs : List Json) : Option (List Op) :=
  let sj (k : String) := (jStr (fldD j k (.str ""))).toOption.getD ""
  let msgT (m : Json) (k : String) := (jStr (fldD m k (.str ""))).toOption.getD ""
  let fired := (jBool (fldD j "out" (.bool false))).toOption.getD false
  -- a scheduling cycle interrupted by an RM request between decision and confirmation is outside the stepped model
  if (j.getObjVal? "interrupt").toOption.isSome then none else
  match op with
  | "node" =>
    (match sj "action" with
     | "create" => (jRes (fldD j "res" .null)).toOption.map (fun r => [.nodeCreate (sj "id") r true])
     | "create-drain" => (jRes (fldD j "res" .null)).toOption.map (fun r => [.nodeCreate (sj "id") r false])
     | "update" => (jRes (fldD j "res" .null)).toOption.map (fun r => [.nodeUpdate (sj "id") r])
     | "drain" => some [.nodeSchedulable (sj "id") false]
     | "undrain" => some [.nodeSchedulable (sj "id") true]
     | "decommission" =>
       let order := (msgs.filter (fun m => msgT m "t" == "release")).map (fun m => (msgT m "app", msgT m "key"))
       let appsOn := ((pre.findNode (sj "id")).map (fun n => n.allocs.map (·.app))).getD []
       -- rounds of removeNodeAllocations that release nothing (a replacement that is rolled back) are not announced: the
       -- node's allocations are a Go map, such a round may have come before or after the announced ones; the order is
       -- read from the new state
       let rest := ((pre.findNode (sj "id")).map (fun n => ((n.allocs.filter (!·.foreign)).map (fun na => (na.app, na.key))).filter
                     (fun p => !(order.contains p)))).getD []
       let order := if rest.isEmpty || (ledgerDiff (pre.nodeRemove (sj "id") order) post).isNone then order else rest ++ order
       if appsOn.all (fun a => pre.queuesCover a) then some [.nodeRemove (sj "id") order] else none
     | _ => none)
  | "alloc" =>
    let foreign := (jBool (fldD j "foreign" (.bool false))).toOption.getD false
    let res := (jRes (fldD j "res" .null)).toOption.getD []
    if foreign then (if pre.foreign.contains (sj "key") then none else some [.foreignAdd (sj "key") (sj "node") res])
    else if sj "node" == "" then
      (match pre.findApp (sj "app") with
       | some a => if a.items.any (·.key == sj "key") then none
                   else some [.ask (sj "app") (sj "key") res ((jBool (fldD j "ph" (.bool false))).toOption.getD false) (sj "tg") (sj "reqNode")]
       | none => some [])
    else none
  | "release" =>
    let tt := TermType.ofName (sj "type")
    if sj "app" == "" then some [.foreignRemove (sj "key")]
    else if !(pre.queuesCover (sj "app")) then none   -- DecAllocatedResource would refuse: outside the stepped model
    else if sj "key" == "" then some [.releaseApp tt (sj "app")]
    else (match pre.findApp (sj "app") with
      | none => some []
      | some a => match a.items.find? (·.key == sj "key") with
        | none => some []
        | some i =>
          if tt == .replaced then
            -- a linked replacement whose real half is unknown to the application and to every node cannot be stepped
            (if i.bound && i.ph && i.release.isSome && (i.release.bind (findReal pre a)).isNone then none
             else some [.swapConfirm (sj "app") (sj "key")])
          else if tt == .stopped || tt == .unknown then
            -- the cases YkModel/CoreOps.releaseKey covers are stepped with it
            (if i.release.isSome || i.released || i.preempted || !i.inReq || !pre.reservations == 0 || a.items.any (fun x => x.release == some i.key)
             then some [.release tt (sj "app") (sj "key")] else some [.releaseKey (sj "app") (sj "key")])
          else some [.release tt (sj "app") (sj "key")])
  | "schedule" =>
    -- reservations the cycle made and cancelled are read from the two states (application, ask, node)
    let resvOf (c : Core) := (c.liveApps.map (fun a => a.reservations.map (fun r => (a.id, r.1, r.2)))).flatten
    let removed := (resvOf pre).filter (fun r => !((resvOf post).contains r))
    let added := (resvOf post).filter (fun r => !((resvOf pre).contains r))
    let start : Option (Core × List Op) := removed.foldl (fun acc r => acc.bind (fun (c, ops) =>
      let o : Op := .unreserve r.1 r.2.1 r.2.2
      (o.apply? c).map (fun c' => (c', ops ++ [o])))) (some (pre, []))
    let mid := msgs.foldl (fun (acc : Option (Core × List Op)) m => acc.bind (fun (c, ops) =>
        let next (o : Op) : Option (Core × List Op) := (o.apply? c).map (fun c' => (c', ops ++ [o]))
        if msgT m "t" == "alloc" then
          (match c.findApp (msgT m "app") with
           | some a => match a.items.find? (·.key == msgT m "key") with
             | some i => if i.release.isSome then none else next (.schedAlloc (msgT m "app") (msgT m "key") (msgT m "node"))
             | none => none
           | none => none)
        else if msgT m "t" == "release" then
          (if msgT m "type" == "PLACEHOLDER_REPLACED" then
             (swapDecision post (msgT m "app") (msgT m "key")).bind (fun d => next (.swapStart (msgT m "app") d.1 (msgT m "key") d.2))
           else next (.markReleased (msgT m "app") (msgT m "key") (msgT m "type" == "PREEMPTED_BY_SCHEDULER")))
        else some (c, ops))) start
    let fin := added.foldl (fun acc r => acc.bind (fun (c, ops) =>
      let o : Op := .reserve r.1 r.2.1 r.2.2
      (o.apply? c).map (fun c' => (c', ops ++ [o])))) mid
    -- the line is stepped only if the reservation bookkeeping of the model agrees with the implementation's as well
    fin.bind (fun (c, ops) => if resvAgree c post then some ops else none)
  | "app-remove" => if pre.queuesCover (sj "id") then some [.appRemove (sj "id")] else none
  | "ph-timeout" =>
    if !fired then some [] else
    let ev := (msgs.find? (fun m => msgT m "t" == "app-state" && msgT m "app" == sj "app")).map (fun m => msgT m "state")
    some [.phTimeout (sj "app") ev]
  | "state-timeout" =>
    if !fired then some [] else
    (match pre.findApp (sj "app") with
     | some _ => if pre.queuesCover (sj "app") then some [.stateTimeout (sj "app")] else none
     | none => some [])   -- an application on the completed / rejected list expires: no ledger is touched
  | "app-add" =>
    -- the placement decision (queue, possibly a new dynamic queue) is read from the new state
    (let newq := post.queues.filter (fun q => (pre.findQueue q.path).isNone)
     match post.findApp (sj "id"), pre.findApp (sj "id") with
     | some a, none => some [.appAdd (some a) newq]
     | _, _ => some [.appAdd none newq])   -- rejected (a dynamic queue created for it stays)
  | "cleanup" => some [.cleanup]
  | "drained" => some []
  | _ => none

/-- the stepped model from the implementation's previous state: `run?` of the operations of the line -/
def steppedModel (pre post : Core) (op : String) (j : Json) (msgs : List Json) : Option Core :=
  (stepOps pre post op j msgs).bind (run? pre)

end YkDrv
