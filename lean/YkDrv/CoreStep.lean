/- driver, full stack: which operation of the stepped Core model (YkModel/CoreOps.lean) an input line corresponds to.
   `steppedModel pre post op j msgs` steps the model from the implementation's previous dumped state `pre`; `none` means the
   operation is outside the stepped model (the line is then counted as `ok unmodelled`; the clauses of CoreState are
   evaluated on it all the same).  The scheduler's decisions (which ask on which node) are read from the messages the
   core sent (`msgs`), never predicted; `post` is only consulted to recognise situations the model does not cover. -/
import YkDrv.Util
import YkModel.CoreState
import YkModel.CoreOps
open Lean Yk Yk.Core

namespace YkDrv

def steppedModel (pre post : Core) (op : String) (j : Json) (msgs : List Json) : Option Core :=
  let sj (k : String) := (jStr (fldD j k (.str ""))).toOption.getD ""
  let msgT (m : Json) (k : String) := (jStr (fldD m k (.str ""))).toOption.getD ""
  match op with
  | "node" =>
    (match sj "action" with
     | "create" => (jRes (fldD j "res" .null)).toOption.map (fun r => pre.nodeCreate (sj "id") r true)
     | "create-drain" => (jRes (fldD j "res" .null)).toOption.map (fun r => pre.nodeCreate (sj "id") r false)
     | "update" => (jRes (fldD j "res" .null)).toOption.map (fun r => pre.nodeUpdate (sj "id") r)
     | "drain" => some (pre.nodeSchedulable (sj "id") false)
     | "undrain" => some (pre.nodeSchedulable (sj "id") true)
     | _ => none)
  | "alloc" =>
    let foreign := (jBool (fldD j "foreign" (.bool false))).toOption.getD false
    let res := (jRes (fldD j "res" .null)).toOption.getD []
    if foreign then (if pre.foreign.contains (sj "key") then none else some (pre.foreignAdd (sj "key") (sj "node") res))
    else if sj "node" == "" then
      (match pre.findApp (sj "app") with
       | some a => if a.items.any (·.key == sj "key") then none
                   else some (pre.ask (sj "app") (sj "key") res ((jBool (fldD j "ph" (.bool false))).toOption.getD false) (sj "tg") (sj "reqNode")).1
       | none => some pre)
    else none
  | "release" =>
    if sj "app" == "" then some (pre.foreignRemove (sj "key"))
    else if sj "key" == "" then none
    else if sj "type" != "STOPPED_BY_RM" && sj "type" != "UNKNOWN" then none
    else (match pre.findApp (sj "app") with
      | none => some pre
      | some a => match a.items.find? (·.key == sj "key") with
        | none => some pre
        | some i => if i.release.isSome || i.released || i.preempted || (i.bound && !i.inReq) || !pre.reservations == 0 || a.items.any (fun x => x.release == some i.key) then none
                    else some (pre.releaseKey (sj "app") (sj "key")))
  | "schedule" =>
    if msgs.any (fun m => msgT m "t" == "release") || pre.reservations != post.reservations then none
    else
      let allocs := msgs.filter (fun m => msgT m "t" == "alloc")
      allocs.foldl (fun (acc : Option Core) m => acc.bind (fun c =>
        match c.findApp (msgT m "app") with
        | some a => match a.items.find? (·.key == msgT m "key") with
          | some i => if i.release.isSome || !c.reservations == 0 then none else c.schedAlloc (msgT m "app") (msgT m "key") (msgT m "node")
          | none => none
        | none => none)) (some pre)
  | _ => none

end YkDrv
