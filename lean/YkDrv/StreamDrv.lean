/- driver: C20 stream set-up interleavings -/
import YkDrv.Util
import YkDrv.RingDrv
import YkModel.Stream
open Lean Yk

namespace YkDrv

def streamStep (j : Json) : Except String String := do
  let count ← (fld j "count") >>= jNat
  let cap ← (fld j "cap") >>= jNat
  let sch ← (fld j "sched") >>= jArr
  let steps ← sch.toList.mapM (fun e => do
    match (← jStr e) with
    | "add" => pure SStep.add
    | "pub" => pure SStep.pub
    | "reg" => pure SStep.reg
    | "hist" => pure SStep.hist
    | s => throw s!"bad step {s}")
  let outJ ← (fld j "out") >>= jArr
  let out ← outJ.toList.mapM jNat
  match srun count cap {} steps with
  | none => pure "bad-op invalid schedule"
  | some s =>
    let m := consumerOut s
    if m != out then pure s!"diff stream model={m} impl={out}"
    else
      -- the statement evaluated on what the implementation delivered
      let ok := match s.history with
        | none => true
        | some h => strictlyIncreasing out && h.isPrefixOf out && s.localQ.all (fun e => out.contains e)
      if !ok then
        let w := window s
        let eff := min count cap
        -- known class (KNOWN_FINDINGS C20): an event published to the new stream is older than the oldest event of the history that was read
        if 0 < eff && s.localQ.any (fun e => decide (e + eff ≤ s.histLen)) then pure s!"spec stream-order-history-shorter-than-window count={count} cap={cap} window={w} out={out}"
        else pure s!"spec stream-order count={count} cap={cap} window={w} out={out}"
      else pure "ok"

end YkDrv
