/- driver: C19 scheduling order.  Each line carries one candidate set, two presentations (permutations) of it and the
   order the implementation produced for each. -/
import YkDrv.Util
import YkDrv.CoreDrv
import YkModel.Sort
open Lean Yk

namespace YkDrv

def jQKey (j : Json) : Except String QKey := do
  pure { id := ← (fld j "id") >>= jStr, prio := ← (fld j "prio") >>= jInt, share := ← (fld j "share") >>= jInt, pending := ← (fld j "pending") >>= jRes }

def jAKey (j : Json) : Except String AKey := do
  pure { id := ← (fld j "id") >>= jStr, prio := ← (fld j "prio") >>= jInt, submit := ← (fld j "submit") >>= jInt, share := ← (fld j "share") >>= jInt }

def jAskKey (j : Json) : Except String AskKey := do
  pure { key := ← (fld j "key") >>= jStr, prio := ← (fld j "prio") >>= jInt, ctime := ← (fld j "ctime") >>= jInt }

/-- x before y in l -/
def before (l : List String) (x y : String) : Bool :=
  match l.idxOf? x, l.idxOf? y with
  | some i, some j => i < j
  | _, _ => false

/-- generic check of one sort case: cands with ids, two input orders, two outputs -/
def sortCheck {α} (what : String) (lt : α → α → Bool) (idOf : α → String) (cands : List α) (in1 in2 out1 out2 : List String)
    (tiebreakClass : Option String) : String :=
  let find (id : String) := cands.find? (fun c => idOf c == id)
  let order (ids : List String) := ids.filterMap find
  let m1 := (stableSort lt (order in1)).map idOf
  let m2 := (stableSort lt (order in2)).map idOf
  let swo := isSWO lt cands
  -- the statement: for every pair the policy distinguishes, the same relative order whatever the presentation
  let bad := cands.findSome? (fun x => cands.findSome? (fun y =>
      if lt x y && !(before out1 (idOf x) (idOf y) && before out2 (idOf x) (idOf y)) then some s!"{idOf x}<{idOf y}" else none))
  let complete := out1.length == cands.length && out2.length == cands.length && cands.all (fun c => out1.contains (idOf c) && out2.contains (idOf c))
  if !complete then s!"inv C19.{what}-lost-candidate out1={out1} out2={out2}"
  else if swo && (m1 != out1 || m2 != out2) then s!"diff {what} model={m1}|{m2} impl={out1}|{out2}"
  else match bad with
    | some b =>
      (match tiebreakClass with
       | some c => if !swo then s!"inv C19.{c} {b} out1={out1} out2={out2}" else s!"inv C19.{what}-order {b} out1={out1} out2={out2}"
       | none => s!"inv C19.{what}-order {b} out1={out1} out2={out2}")
    | none => "ok"

def sortStep (j : Json) : Except String String := do
  let kind ← (fld j "kind") >>= jStr
  match kind with
  | "queues" =>
    let cands ← (fld j "cands") >>= jListOf jQKey
    let in1 ← (fld j "in1") >>= jStrList
    let in2 ← (fld j "in2") >>= jStrList
    let out1 ← (fld j "out1") >>= jStrList
    let out2 ← (fld j "out2") >>= jStrList
    let policy ← (fld j "policy") >>= jStr
    let prio ← (fld j "prio") >>= jBool
    if policy == "fair" then
      let lt := if prio then qLessPrioFair else qLessFairPrio
      pure (sortCheck "queues" lt (·.id) cands in1 in2 out1 out2 (some "queues-pending-tiebreak-not-weak-order"))
    else if prio then pure (sortCheck "queues" qLessPrio (·.id) cands in1 in2 out1 out2 none)
    else
      -- no sorting at all: the candidates stay as presented
      pure (if out1 == in1 && out2 == in2 then "ok" else s!"diff queues-unsorted impl={out1}|{out2}")
  | "apps" =>
    let cands ← (fld j "cands") >>= jListOf jAKey
    let in1 ← (fld j "in1") >>= jStrList
    let in2 ← (fld j "in2") >>= jStrList
    let out1 ← (fld j "out1") >>= jStrList
    let out2 ← (fld j "out2") >>= jStrList
    let policy ← (fld j "policy") >>= jStr
    let prio ← (fld j "prio") >>= jBool
    let lt := match policy, prio with
      | "fair", true => aLessPrioFair
      | "fair", false => aLessFairPrio
      | _, true => aLessPrioSubmit
      | _, false => aLessSubmitPrio
    pure (sortCheck "apps" lt (·.id) cands in1 in2 out1 out2 none)
  | "asks" =>
    -- a history of inserts / removes; `out` is the list after the last operation
    let ops ← (fld j "ops") >>= jArr
    let out ← (fld j "out") >>= jStrList
    let (m, all) ← ops.toList.foldlM (fun (acc : List AskKey × List AskKey) o => do
      if (← (fld o "op") >>= jStr) == "insert" then
        let a ← jAskKey o
        pure (askInsert acc.1 a, a :: acc.2)
      else pure (askRemove acc.1 (← (fld o "key") >>= jStr), acc.2)) (([] : List AskKey), ([] : List AskKey))
    let keys := m.map (·.key)
    if keys != out then pure s!"diff asks model={keys} impl={out}"
    else
      let live := out.filterMap (fun k => all.find? (·.key == k))
      -- every pair the documented order distinguishes is in that order
      match live.findSome? (fun x => live.findSome? (fun y => if askBefore x y && !before out x.key y.key then some s!"{x.key}<{y.key}" else none)) with
      | some b => pure s!"inv C19.asks-order {b} out={out}"
      | none => pure "ok"
  | "nodes" =>
    -- after every operation: registered nodes, the two iteration orders, fresh score ranks and reservation flags
    let reg ← (fld j "registered") >>= jStrList
    let full ← (fld j "full") >>= jStrList
    let unres ← (fld j "unreserved") >>= jStrList
    let reserved ← (fld j "reserved") >>= jStrList
    let ranks ← (fld j "ranks") >>= jListOf jPairSN
    let rank (n : String) := (ranks.lookup n).getD 0
    let sortedReg := sortStrs reg
    if sortStrs full != sortedReg then pure s!"inv C19.nodes-visit-once registered={sortedReg} full={full}"
    else if unres != full.filter (fun n => !reserved.contains n) then pure s!"inv C19.nodes-unreserved-view full={full} reserved={reserved} unreserved={unres}"
    else
      -- reflects current utilisation: ascending fresh score, ties by node id — for every pair of nodes
      let tainted ← jStrList (fldD j "tainted" (.arr #[]))
      let wrong (a b : String) := !(rank a < rank b || (rank a == rank b && a < b))
      let pairs := (List.range full.length).flatMap (fun i => (List.range full.length).filterMap (fun k =>
          if i < k then (match full[i]?, full[k]? with | some a, some b => some (a, b) | _, _ => none) else none))
      let badClean := pairs.find? (fun p => wrong p.1 p.2 && !tainted.contains p.1 && !tainted.contains p.2)
      let badTainted := pairs.find? (fun p => wrong p.1 p.2)
      let opn := (jStr (fldD j "op" (.str ""))).toOption.getD ""
      match badClean, badTainted with
      | some p, _ => pure s!"inv C19.nodes-stale-order {p.1}>{p.2} after={opn} full={full} ranks={ranks}"
      | none, some p => pure s!"inv C19.nodes-stale-after-unnotified-change {p.1}>{p.2} tainted={tainted} full={full} ranks={ranks}"
      | none, none => pure "ok"
  | _ => pure "bad-op"

end YkDrv
