/- driver: C19 scheduling order.  Each line carries one candidate set, two presentations (permutations) of it and the
   order the implementation produced for each. -/
import YkDrv.Util
import YkDrv.CoreDrv
import YkModel.Sort
open Lean Yk

namespace YkDrv

def jQKey (j : Json) : Except String QKey := do
  pure { id := ← (fld j "id") >>= jStr, prio := ← (fld j "prio") >>= jInt, share := ← (fld j "share") >>= jInt, pending := ← (fld j "pending") >>= jRes }

def jAKey (j : Json) : Except String AKey := do
  pure { id := ← (fld j "id") >>= jStr, prio := ← (fld j "prio") >>= jInt, submit := ← (fld j "submit") >>= jInt, share := ← (fld j "share") >>= jInt }

def jAskKey (j : Json) : Except String AskKey := do
  pure { key := ← (fld j "key") >>= jStr, prio := ← (fld j "prio") >>= jInt, ctime := ← (fld j "ctime") >>= jInt }

def jNodeKey (j : Json) : Except String (NodeKey × Res) := do
  pure ({ id := ← (fld j "id") >>= jStr, cap := ← (fld j "cap") >>= jRes, allocated := ← (fld j "allocated") >>= jRes,
          occupied := ← (fld j "occupied") >>= jRes }, ← (fld j "avail") >>= jRes)

/-- x before y in l -/
def before (l : List String) (x y : String) : Bool :=
  match l.idxOf? x, l.idxOf? y with
  | some i, some j => i < j
  | _, _ => false

/-- generic check of one sort case: cands with ids, two input orders, two outputs -/
def sortCheck {α} (what : String) (lt : α → α → Bool) (idOf : α → String) (cands : List α) (in1 in2 out1 out2 : List String)
    (tiebreakClass : Option String) : String :=
  let find (id : String) := cands.find? (fun c => idOf c == id)
  let order (ids : List String) := ids.filterMap find
  let m1 := (stableSort lt (order in1)).map idOf
  let m2 := (stableSort lt (order in2)).map idOf
  let swo := isSWO lt cands
  -- the statement: for every pair the policy distinguishes, the same relative order whatever the presentation
  let bad := cands.findSome? (fun x => cands.findSome? (fun y =>
      if lt x y && !(before out1 (idOf x) (idOf y) && before out2 (idOf x) (idOf y)) then some s!"{idOf x}<{idOf y}" else none))
  let complete := out1.length == cands.length && out2.length == cands.length && cands.all (fun c => out1.contains (idOf c) && out2.contains (idOf c))
  if !complete then s!"inv C19.{what}-lost-candidate out1={out1} out2={out2}"
  else if swo && (m1 != out1 || m2 != out2) then s!"diff {what} model={m1}|{m2} impl={out1}|{out2}"
  else match bad with
    | some b =>
      (match tiebreakClass with
       | some c => if !swo then s!"inv C19.{c} {b} out1={out1} out2={out2}" else s!"inv C19.{what}-order {b} out1={out1} out2={out2}"
       | none => s!"inv C19.{what}-order {b} out1={out1} out2={out2}")
    | none => "ok"

/-! ### op `children`: the candidates a REAL parent queue offers (Queue.sortQueues + GetFairMaxResource) -/

def jIntList (j : Json) : Except String (List Int) := do
  let a ← jArr j
  a.toList.mapM jInt

/-- an application as the harness reports it: [priority, allocated] entries; the model keeps the outstanding ones -/
def jAppEntries (j : Json) : Except String (List Int) := do
  let a ← jArr j
  let es ← a.toList.mapM (fun e => do let p ← jArr e; pure (← jInt p[0]!, ← jBool p[1]!))
  pure (outstanding es)

def jPrioLeaf (j : Json) : Except String PrioLeaf := do
  pure { fence := ← (fld j "fence") >>= jBool, offset := ← (fld j "offset") >>= jInt, apps := ← (fld j "apps") >>= jListOf jAppEntries }

def jPrioQueue (j : Json) : Except String PrioQueue := do
  pure { fence := ← (fld j "fence") >>= jBool, offset := ← (fld j "offset") >>= jInt, leaf := ← (fld j "leaf") >>= jBool,
         apps := ← (fld j "apps") >>= jListOf jAppEntries, kids := ← (fld j "kids") >>= jListOf jPrioLeaf }

/-- the priority key is computed by the model (policy, offset, ask priorities below); `GetCurrentPriority` is only compared -/
def jChild (j : Json) : Except String Child := do
  let pq ← (fld j "prioQueue") >>= jPrioQueue
  pure { name := ← (fld j "name") >>= jStr, max := ← (fld j "max") >>= jORes, guaranteed := ← (fld j "guaranteed") >>= jORes,
         allocated := ← (fld j "allocated") >>= jORes, pending := ← (fld j "pending") >>= jORes, prio := pq.value,
         stopped := (← (fld j "state") >>= jStr) == "Stopped" }

def jNamedORes (j : Json) : Except String (String × ORes) := do
  let a ← jArr j
  pure (← jStr a[0]!, ← jORes a[1]!)

structure ChRun where
  fair : Bool
  prio : Bool
  configured : Bool
  outs : List (List String)

def jChRun (j : Json) : Except String ChRun := do
  pure { fair := ← (fld j "fair") >>= jBool, prio := ← (fld j "prio") >>= jBool, configured := ← (fld j "configured") >>= jBool,
         outs := ← (fld j "outs") >>= jListOf jStrList }

/-- one run of sortQueues on one tree: the offered SET always, the ORDER for every pair the own-key comparator distinguishes -/
def childrenRunCheck (rootMax : ORes) (anc : List ORes) (present : List Child) (tree : Nat) (r : ChRun) : List String :=
  let cands := offeredCands present
  let want := sortStrs (cands.map (·.name))
  let lt := ownLess rootMax anc r.fair r.prio
  let share (c : Child) := fairShare c.allocated c.guaranteed (fairMaxOf rootMax anc c.max)
  let tag := s!"tree={tree} fair={r.fair} prio={r.prio}"
  r.outs.flatMap (fun out =>
    if sortStrs out != want then [s!"C19.children-offered-set {tag} model={want} impl={out}"]
    else
      let bad := cands.findSome? (fun x => cands.findSome? (fun y => if lt x y && !before out x.name y.name then some (x, y) else none))
      match bad with
      | some (x, y) =>
        -- the pending tie-break (a product order) is only reached inside a group of equal priority and equal share
        let group := cands.filter (fun z => z.prio == x.prio && shareEq (share z) (share x))
        if group.contains y && !isSWO lt group then
          [s!"C19.queues-pending-tiebreak-not-weak-order {tag} {x.name}<{y.name} out={out}"]
        else [s!"C19.children-own-fair-max {tag} {x.name}<{y.name} out={out}"]
      | none =>
        -- the model function itself, on the presentation the implementation returned (a sorted list is a fix point)
        let byName := out.filterMap (fun n => present.find? (·.name == n))
        let m := (offeredSorted rootMax anc r.fair r.prio (byName ++ present.filter (fun c => !out.contains c.name))).map (·.name)
        if isSWO lt cands && m != out then [s!"diff children-order {tag} model={m} impl={out}"] else [])

def childrenStep (j : Json) : Except String String := do
  if (j.getObjVal? "panic").toOption.isSome then return "inv C19.children-panic"
  let rootMax ← (fld j "rootMax") >>= jORes
  let anc ← (fld j "anc") >>= jListOf jORes
  let children ← (fld j "children") >>= jListOf jChild
  let prioProp ← (fld (← fld j "spec") "prioProp") >>= jStr
  let prioConfigured ← (fld j "prioConfigured") >>= jBool
  let trees ← (fld j "trees") >>= jArr
  let mut diffs : List String := []
  let mut invs : List String := []
  -- resetProperties: priority sorting is on unless the property says disabled
  if prioConfigured != (prioProp != "disabled") then diffs := diffs ++ [s!"diff children-prio-configured prop={prioProp} impl={prioConfigured}"]
  let mut ti := 0
  for t in trees.toList do
    let order ← (fld t "order") >>= jStrList
    let fms ← (fld t "fairMax") >>= jListOf jNamedORes
    let ranks ← (fld t "share") >>= jListOf jPairSN
    let prios ← (fld t "prios") >>= jListOf (fun e => do let a ← jArr e; pure (← jStr a[0]!, ← jInt a[1]!))
    let runs ← (fld t "runs") >>= jListOf jChRun
    let present := order.filterMap (fun n => children.find? (·.name == n))
    if present.length != order.length then throw "unknown child in tree"
    let share (c : Child) := fairShare c.allocated c.guaranteed (fairMaxOf rootMax anc c.max)
    for c in present do
      let mfm := fairMaxOf rootMax anc c.max
      match fms.lookup c.name with
      | some ifm => if !oresEq mfm ifm then diffs := diffs ++ [s!"diff children-fairmax tree={ti} {c.name} model={showORes mfm} impl={showORes ifm}"]
      | none => throw "fair max missing"
      if prios.lookup c.name != some c.prio then
        diffs := diffs ++ [s!"diff children-priority tree={ti} {c.name} model={c.prio} impl={prios.lookup c.name}"]
      let mrank := (present.filter (fun d => shareLt (share d) (share c))).length
      if ranks.lookup c.name != some mrank then
        diffs := diffs ++ [s!"diff children-share tree={ti} {c.name} model={mrank} impl={ranks.lookup c.name}"]
    for r in runs do
      -- a parent queue sorts its children with the fair policy; the priority flag comes from the property
      if r.configured && (!r.fair || r.prio != (prioProp != "disabled")) then diffs := diffs ++ ["diff children-configured-policy"]
      invs := invs ++ childrenRunCheck rootMax anc present ti r
    ti := ti + 1
  match diffs, invs with
  | d :: _, _ => pure d
  | [], [] => pure "ok"
  | [], l => pure ("inv " ++ " ;; ".intercalate (l.eraseDups.take 4))

def sortStep (j : Json) : Except String String := do
  let kind ← (fld j "kind") >>= jStr
  match kind with
  | "children" => childrenStep j
  | "queues" =>
    let cands ← (fld j "cands") >>= jListOf jQKey
    let in1 ← (fld j "in1") >>= jStrList
    let in2 ← (fld j "in2") >>= jStrList
    let out1 ← (fld j "out1") >>= jStrList
    let out2 ← (fld j "out2") >>= jStrList
    let policy ← (fld j "policy") >>= jStr
    let prio ← (fld j "prio") >>= jBool
    if policy == "fair" then
      let lt := if prio then qLessPrioFair else qLessFairPrio
      pure (sortCheck "queues" lt (·.id) cands in1 in2 out1 out2 (some "queues-pending-tiebreak-not-weak-order"))
    else if prio then pure (sortCheck "queues" qLessPrio (·.id) cands in1 in2 out1 out2 none)
    else
      -- no sorting at all: the candidates stay as presented
      pure (if out1 == in1 && out2 == in2 then "ok" else s!"diff queues-unsorted impl={out1}|{out2}")
  | "apps" =>
    let cands ← (fld j "cands") >>= jListOf jAKey
    let in1 ← (fld j "in1") >>= jStrList
    let in2 ← (fld j "in2") >>= jStrList
    let out1 ← (fld j "out1") >>= jStrList
    let out2 ← (fld j "out2") >>= jStrList
    let policy ← (fld j "policy") >>= jStr
    let prio ← (fld j "prio") >>= jBool
    let lt := match policy, prio with
      | "fair", true => aLessPrioFair
      | "fair", false => aLessFairPrio
      | _, true => aLessPrioSubmit
      | _, false => aLessSubmitPrio
    pure (sortCheck "apps" lt (·.id) cands in1 in2 out1 out2 none)
  | "asks" =>
    -- a history of inserts / removes; `out` is the list after the last operation
    let ops ← (fld j "ops") >>= jArr
    let out ← (fld j "out") >>= jStrList
    let (m, all) ← ops.toList.foldlM (fun (acc : List AskKey × List AskKey) o => do
      if (← (fld o "op") >>= jStr) == "insert" then
        let a ← jAskKey o
        pure (askInsert acc.1 a, a :: acc.2)
      else pure (askRemove acc.1 (← (fld o "key") >>= jStr), acc.2)) (([] : List AskKey), ([] : List AskKey))
    let keys := m.map (·.key)
    if keys != out then pure s!"diff asks model={keys} impl={out}"
    else
      let live := out.filterMap (fun k => all.find? (·.key == k))
      -- every pair the documented order distinguishes is in that order
      match live.findSome? (fun x => live.findSome? (fun y => if askBefore x y && !before out x.key y.key then some s!"{x.key}<{y.key}" else none)) with
      | some b => pure s!"inv C19.asks-order {b} out={out}"
      | none => pure "ok"
  | "nodes" =>
    -- after every operation: registered nodes, the two iteration orders, fresh score ranks and reservation flags
    let reg ← (fld j "registered") >>= jStrList
    let full ← (fld j "full") >>= jStrList
    let unres ← (fld j "unreserved") >>= jStrList
    let reserved ← (fld j "reserved") >>= jStrList
    let ranks ← (fld j "ranks") >>= jListOf jPairSN
    let rank (n : String) := (ranks.lookup n).getD 0
    let sortedReg := sortStrs reg
    if sortStrs full != sortedReg then pure s!"inv C19.nodes-visit-once registered={sortedReg} full={full}"
    else if unres != full.filter (fun n => !reserved.contains n) then pure s!"inv C19.nodes-unreserved-view full={full} reserved={reserved} unreserved={unres}"
    else
      -- reflects current utilisation: ascending score, ties by node id — for every pair of nodes. The score is computed
      -- by the MODEL from capacity, allocated, occupied and the weights of the policy in force (exact fractions); the
      -- implementation's fresh score enters only as a rank that is compared with the model's order.
      let tainted ← jStrList (fldD j "tainted" (.arr #[]))
      let keys ← (fld j "nodes") >>= jListOf jNodeKey
      let weights ← (fld j "weights") >>= jRes
      let bin := (← (fld j "policy") >>= jStr) == "binpacking"
      let opn := (jStr (fldD j "op" (.str ""))).toOption.getD ""
      if !keys.all (fun k => nodeModelled weights k.1) then pure "ok unmodelled-capacity"
      else
      let score (n : String) : Share := match keys.find? (fun k => k.1.id == n) with
        | some k => nodeScore bin weights k.1
        | none => ⟨0, 1⟩
      -- the available resource: total - allocated - occupied; the implementation prunes it on most updates only (a release
      -- can leave an explicit zero), a zero entry and a missing entry both read 0
      match keys.find? (fun k => !resEq (nodeAvail k.1) (prune k.2)) with
      | some k => pure s!"diff nodes-available {k.1.id} model={showRes (nodeAvail k.1)} impl={showRes k.2} after={opn}"
      | none =>
      -- the fresh score of the implementation orders the nodes as the model's score does (float ties of different fractions tolerated)
      let ids := keys.map (·.1.id)
      let badRank := ids.findSome? (fun a => ids.findSome? (fun b =>
          if shareLt (score a) (score b) && !(rank a < rank b) then some s!"{a}<{b}" else none))
      match badRank with
      | some b => pure s!"diff nodes-score {b} policy={if bin then "binpacking" else "fair"} weights={showRes weights} ranks={ranks} after={opn}"
      | none =>
      -- a before b is wrong when b's score is smaller; on equal fractions the float rank decides, then the node id
      let wrong (a b : String) :=
        shareLt (score b) (score a) || (shareEq (score a) (score b) && (rank b < rank a || (rank a == rank b && b < a)))
      let pairs := (List.range full.length).flatMap (fun i => (List.range full.length).filterMap (fun k =>
          if i < k then (match full[i]?, full[k]? with | some a, some b => some (a, b) | _, _ => none) else none))
      let badClean := pairs.find? (fun p => wrong p.1 p.2 && !tainted.contains p.1 && !tainted.contains p.2)
      let badTainted := pairs.find? (fun p => wrong p.1 p.2)
      match badClean, badTainted with
      | some p, _ => pure s!"inv C19.nodes-stale-order {p.1}>{p.2} after={opn} full={full} ranks={ranks}"
      | none, some p => pure s!"inv C19.nodes-stale-after-unnotified-change {p.1}>{p.2} tainted={tainted} full={full} ranks={ranks}"
      | none, none =>
        -- the model's order function itself, when no fraction tie is broken by the floats
        let m := (nodeOrder bin weights (keys.map (·.1))).map (·.id)
        let floatTie := ids.any (fun a => ids.any (fun b => shareEq (score a) (score b) && rank a != rank b))
        if !floatTie && m != full then pure s!"diff nodes-order model={m} impl={full}" else pure "ok"
  | _ => pure "bad-op"

end YkDrv
