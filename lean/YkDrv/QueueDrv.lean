/- driver: C02 queue ledger / maximum, C11 running-application counters -/
import YkDrv.Util
import YkModel.Queue
import YkModel.ResSpec
open Lean Yk Yk.QTree

namespace YkDrv

structure QDump where
  q : Q
  headRoom : ORes
  maxHeadRoom : ORes
  effMax : ORes

structure QueueSt where
  tree : QTree := []

def jStrList (j : Json) : Except String (List String) := do
  let a ← jArr j
  a.toList.mapM jStr

def jOptNat (j : Json) : Except String (Option Nat) :=
  match j with
  | .null => pure none
  | _ => do let n ← jNat j; pure (some n)

def jQ (j : Json) : Except String Q := do
  pure { path := ← (fld j "path") >>= jStr, parent := ← jOptNat (fldD j "parent" .null),
         max := ← jORes (fldD j "max" .null), guaranteed := ← jORes (fldD j "guaranteed" .null),
         allocated := ← jRes (fldD j "allocated" (.arr #[])), maxApps := ← (fld j "maxApps") >>= jNat,
         running := ← jNat (fldD j "running" (.num 0)), allocating := ← jStrList (fldD j "allocating" (.arr #[])) }

def jQDump (j : Json) : Except String QDump := do
  pure { q := ← jQ j, headRoom := ← jORes (fldD j "headRoom" .null), maxHeadRoom := ← jORes (fldD j "maxHeadRoom" .null),
         effMax := ← jORes (fldD j "effMax" .null) }

def insStr (s : String) : List String → List String
  | [] => [s]
  | a :: t => if s < a then s :: a :: t else a :: insStr s t
def sortStrs (l : List String) : List String := l.foldl (fun acc s => insStr s acc) []

def showQ (q : Q) : String :=
  s!"{q.path}: max={showORes q.max} g={showORes q.guaranteed} alloc={showRes q.allocated} maxApps={q.maxApps} running={q.running} allocating={sortStrs q.allocating}"

def qDiff (t : QTree) (i : Nat) (m : Q) (d : QDump) : Option String :=
  let q := d.q
  if !oresEq m.max q.max then some s!"max[{m.path}] model={showORes m.max} impl={showORes q.max}"
  else if !oresEq m.guaranteed q.guaranteed then some s!"guaranteed[{m.path}] model={showORes m.guaranteed} impl={showORes q.guaranteed}"
  else if !resEq m.allocated q.allocated then some s!"allocated[{m.path}] model={showRes m.allocated} impl={showRes q.allocated}"
  else if m.maxApps != q.maxApps then some s!"maxApps[{m.path}] model={m.maxApps} impl={q.maxApps}"
  else if m.running != q.running then some s!"running[{m.path}] model={m.running} impl={q.running}"
  else if sortStrs m.allocating != sortStrs q.allocating then some s!"allocating[{m.path}] model={sortStrs m.allocating} impl={sortStrs q.allocating}"
  else if !oresEq (headRoom t i) d.headRoom then some s!"headRoom[{m.path}] model={showORes (headRoom t i)} impl={showORes d.headRoom}"
  else if !oresEq (maxHeadRoom t i) d.maxHeadRoom then some s!"maxHeadRoom[{m.path}] model={showORes (maxHeadRoom t i)} impl={showORes d.maxHeadRoom}"
  else if !oresEq (getMax t i) d.effMax then some s!"effMax[{m.path}] model={showORes (getMax t i)} impl={showORes d.effMax}"
  else none

def treeDiff (t : QTree) (ds : List QDump) : Option String :=
  if t.length != ds.length then some "tree-size" else
  (List.range t.length).findSome? (fun i => match t[i]?, ds[i]? with
    | some m, some d => qDiff t i m d
    | _, _ => some "index")

/-- le on the types `p` defines: `c[k] ≤ p[k]` -/
def leOnDefined (c p : ORes) : Bool :=
  match p with
  | none => true
  | some p => match c with
    | none => p.isEmpty   -- child unlimited while the parent is limited
    | some c => p.all (fun e => c.has e.1 && decide (c.getD e.1 ≤ e.2))

def allKeysOf (ds : List QDump) (extra : Res) : List String :=
  extra.keys ++ (ds.map (fun d => d.q.allocated.keys ++ (orZero d.q.max).keys)).flatten

/-- statement clauses evaluated on the implementation's dumped tree -/
def staticInv (ds : List QDump) : Option String :=
  (List.range ds.length).findSome? (fun i => match ds[i]? with
    | none => none
    | some d => match d.q.parent with
      | none => none
      | some p => match ds[p]? with
        | none => some "parent-index"
        | some pd =>
          if !leOnDefined d.effMax pd.effMax then some s!"effective-max-le-parent {d.q.path} child={showORes d.effMax} parent={showORes pd.effMax}"
          else if !leOnDefined d.headRoom pd.headRoom then some s!"headroom-le-parent {d.q.path} child={showORes d.headRoom} parent={showORes pd.headRoom}"
          else none)

def queueStep (st : QueueSt) (j : Json) : Except String (QueueSt × String) := do
  let op ← (fld j "op") >>= jStr
  let dsJ ← (fld j "st") >>= jArr
  let ds ← dsJ.toList.mapM jQDump
  let pre := st.tree
  if op == "reset" then
    let qsJ ← (fld j "queues") >>= jArr
    let qs ← qsJ.toList.mapM jQ
    -- creation applies the setResources rule to the configured values
    let t : QTree := qs.map (fun q => { q with
      max := if strictlyGreaterThanZero q.max then q.max else none,
      guaranteed := if strictlyGreaterThanZero q.guaranteed then q.guaranteed else none })
    match treeDiff t ds with
    | some f => return ({ tree := t }, s!"diff reset.{f}")
    | none => return ({ tree := t }, "ok")
  let i ← jNat (fldD j "i" (.num 0))
  let res ← jRes (fldD j "res" (.arr #[]))
  let app := (jStr (fldD j "app" (.str ""))).toOption.getD ""
  let out := (jBool (fldD j "out" (.bool true))).toOption.getD true
  let (t, mout) : QTree × Bool := match op with
    | "tryInc" => match tryInc pre i res with | some t => (t, true) | none => (pre, false)
    | "inc" => (inc pre i res, true)
    | "dec" => match dec pre i res with | some t => (t, true) | none => (pre, false)
    | "setRes" => (updAt (setMax pre i ((jORes (fldD j "max" .null)).toOption.getD none)) i (fun q =>
        let g := (jORes (fldD j "guaranteed" .null)).toOption.getD none
        { q with guaranteed := if strictlyGreaterThanZero g then g else none }), true)
    | "setRootMax" => (setMax pre 0 ((jORes (fldD j "max" .null)).toOption.getD none), true)
    | "canRun" => (pre, canRunApp pre i app)
    | "incRun" => (incRunningApps pre i app, true)
    | "decRun" => (decRunningApps pre i, true)
    | "setAllocating" => (setAllocatingAccepted pre i app, true)
    | "setMaxApps" => (updAt pre i (fun q => { q with maxApps := (jNat (fldD j "n" (.num 0))).toOption.getD 0 }), true)
    | _ => (pre, true)
  let st' : QueueSt := { tree := t }
  if !(["tryInc", "inc", "dec", "setRes", "setRootMax", "canRun", "incRun", "decRun", "setAllocating", "setMaxApps"].contains op) then
    return (st', "bad-op")
  if mout != out then return (st', s!"diff {op}.result model={mout} impl={out}")
  match treeDiff t ds with
  | some f => return (st', s!"diff {op}.{f}")
  | none => pure ()
  -- the statement on the implementation's tree
  match staticInv ds with
  | some f => return (st', s!"inv {f}")
  | none => pure ()
  -- the running count exceeds a configured maximum only after that maximum was lowered below it (setMaxApps / reload)
  if op != "setMaxApps" then
    let bad := (List.range ds.length).findSome? (fun jx => match ds[jx]?, pre[jx]? with
      | some d, some pq =>
        if d.q.maxApps != 0 && d.q.running > d.q.maxApps && !(pq.maxApps != 0 && pq.running > pq.maxApps) then some d.q.path else none
      | _, _ => none)
    match bad with
    | some b => return (st', s!"inv running-le-max {b}")
    | none => pure ()
  if op == "tryInc" then
    -- a scheduling decision never creates usage above a maximum (on a type the maximum defines)
    let keys := allKeysOf ds res
    let bad := (List.range ds.length).findSome? (fun jx => match ds[jx]?, pre[jx]? with
      | some d, some pq => keys.findSome? (fun k => if overMax d.q k && !overMax pq k then some s!"{d.q.path}/{k}" else none)
      | _, _ => none)
    match bad with
    | some b => return (st', s!"inv sched-no-new-overmax {b} alloc={showRes res}")
    | none => pure ()
  if op == "canRun" && out then
    -- the gate: room for one more on every ancestor that configures a maximum
    let bad := (chain pre i).findSome? (fun jx => match ds[jx]? with
      | some d => if d.q.maxApps != 0 && !d.q.allocating.contains app && d.q.running + d.q.allocating.length + 1 > d.q.maxApps
                  then some d.q.path else none
      | none => none)
    match bad with
    | some b => return (st', s!"inv gate {b} app={app}")
    | none => pure ()
  return (st', "ok")

end YkDrv
