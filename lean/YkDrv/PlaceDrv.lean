/- driver: C17 placement — rule chain, ACLs, AddApplication / createQueue -/
import YkDrv.Util
import YkModel.Place
import YkModel.PlaceSpec
import YkDrv.ReloadDrv
open Lean Yk.Place

namespace YkDrv

structure PlaceSt where
  tree : Tree := []
  rules : List Rule := []
  active : Bool := false

def toS (s : Str) : String := String.ofList s
def showName (n : QName) : String := toS (joinDot n)

def jS (j : Json) : Except String Str := do pure (← jStr j).toList
def jSList (j : Json) : Except String (List Str) := do
  match j with
  | .null => pure []
  | _ => (← jArr j).toList.mapM jS

def containsSub (hay needle : Str) : Bool :=
  (List.range (hay.length + 1)).any (fun i => needle.isPrefixOf (hay.drop i))

/-- rules of the configuration (nested parent) -/
partial def jRule (compiles : Str → Bool) (j : Json) : Except String Rule := do
  let name := lower (← jS (← fld j "name"))
  let value := lower (← jS (fldD j "value" (.str "")))
  let create ← jBool (fldD j "create" (.bool false))
  let f := fldD j "filter" .null
  let filter ← match f with
    | .null => pure (newFilter compiles [] [] [])
    | _ => do
      pure (newFilter compiles (← jS (fldD f "type" (.str ""))) (← jSList (fldD f "users" .null)) (← jSList (fldD f "groups" .null)))
  let kind ← if name = "provided".toList then pure Kind.provided
    else if name = "user".toList then pure Kind.user
    else if name = "tag".toList then pure (Kind.tag value)
    else if name = "fixed".toList then pure (Kind.fixed value)
    else throw s!"unknown rule {toS name}"
  let parents ← match fldD j "parent" .null with
    | .null => pure []
    | p => jRule compiles p
  pure ({ kind := kind, create := create, filter := filter } :: parents)

def jPQueue (j : Json) : Except String Queue := do
  let sacl ← match newACL (← jS (← fld j "sacl")) with | some a => pure a | none => throw "submit ACL does not parse"
  let aacl ← match newACL (← jS (← fld j "aacl")) with | some a => pure a | none => throw "admin ACL does not parse"
  pure { path := splitDot (← jS (← fld j "p")), leaf := ← jBool (← fld j "leaf"), managed := ← jBool (← fld j "man"),
         draining := ← jBool (← fld j "drain"), sacl := sacl, aacl := aacl, tpl := ← jS (← fld j "tpl"), cfg := ← jS (← fld j "cfg"),
         tplProps := ← rlProps (fldD j "tprops" .null), set := ← (fld j "set") >>= rlSettings }

def jPTree (j : Json) : Except String Tree := do (← jArr j).toList.mapM jPQueue

def insPQ (q : Queue) : Tree → Tree
  | [] => [q]
  | a :: t => if showName q.path < showName a.path then q :: a :: t else a :: insPQ q t
def sortPTree (t : Tree) : Tree := t.foldl (fun acc q => insPQ q acc) []

def showPQ (q : Queue) : String :=
  s!"{showName q.path}[leaf={q.leaf},managed={q.managed},draining={q.draining},tpl={toS q.tpl},cfg={toS q.cfg}]"

/-- the template properties and the effective settings of a queue -/
def showPSet (q : Queue) : String := s!"{showName q.path} tplProps={q.tplProps} settings={showSet q.set}"

def placeTreeDiff (m impl : Tree) : Option String :=
  let a := sortPTree m
  let b := sortPTree impl
  if a.length != b.length then some s!"tree-size model={a.map (fun q => showName q.path)} impl={b.map (fun q => showName q.path)}"
  else (a.zip b).findSome? (fun (x, y) =>
    if x = y then none
    -- only the derived settings / template properties differ: named so that the verdict says `place.settings`
    else if { x with set := y.set, tplProps := y.tplProps } = y then some s!"settings model={showPSet x} impl={showPSet y}"
    else some s!"queue model={showPQ x} impl={showPQ y}")

/-- verdict text of a tree difference: `diff place.settings …` when only effective settings differ -/
def treeVerdict (what : String) (d : String) : String :=
  if d.startsWith "settings " then "diff place.settings (" ++ what ++ ") " ++ (d.drop 9).toString else "diff place." ++ what ++ " " ++ d

def showReason : Reason → String
  | .noRule => "no-rule"
  | .ruleErr .invalidName => "rule-invalid-name"
  | .ruleErr .parentLeaf => "rule-parent-leaf"
  | .notLeaf => "not-leaf"
  | .createIllegal => "create-illegal"
  | .createDenied => "create-denied"
  | .createParentLeaf => "create-parent-leaf"
  | .createInvalidName => "create-invalid-name"
  | .createRecoveryName => "create-recovery-name"
  | .createDraining => "create-draining"

def showOutcome : Outcome → String
  | .accepted q => s!"accepted({showName q})"
  | .rejected r => s!"rejected({showReason r})"
  | .panic => "panic"

/-- class of the implementation's rejection text -/
def reasonOf (msg : Str) : Option Reason :=
  let has (s : String) := containsSub msg s.toList
  if has "no placement rule matched" then some .noRule
  else if has "parent rule returned a leaf queue" then some (.ruleErr .parentLeaf)
  else if has "failed to create rule based queue" then
    (if has "parent is already a leaf" then some .createParentLeaf
     else if has "dynamic queue cannot be root.@recovery@" then some .createRecoveryName
     else if has "marked for deletion" then some .createDraining
     else if has "submit access to queue" then some .createDenied
     else if has "illegal queue name" then some .createIllegal
     else if has "invalid queue name" then some .createInvalidName
     else none)
  else if has "failed to create recovery queue" then (if has "marked for deletion" then some .createDraining else none)
  else if has "failed to place application" && has "invalid queue name" then some (.ruleErr .invalidName)
  else if has "failed to find queue" then some .notLeaf
  else none

def oracleOf (j : Json) : Except String (Str → Str → Bool) := do
  let l ← (← jArr j).toList.mapM (fun e => do
    let a ← jArr e
    if a.size != 3 then throw "bad rx entry"
    pure ((← jS a[0]!, ← jS a[1]!), ← jBool a[2]!))
  pure (fun p n => match l.find? (fun e => e.1 = (p, n)) with | some e => e.2 | none => false)

def jTags (j : Json) : Except String (List (Str × Str)) :=
  match j with
  | .obj kvs => kvs.toList.mapM (fun (k, v) => do pure (k.toList, ← jS v))
  | .null => pure []
  | _ => throw "bad tags"

def placeStep (st : PlaceSt) (j : Json) : Except String (PlaceSt × String) := do
  let op ← (fld j "op") >>= jStr
  match op with
  | "reset" =>
    match j.getObjVal? "error" with
    | .ok _ => pure ({ tree := [], rules := [], active := false }, "ok config-rejected")
    | .error _ =>
      let comp ← (← jArr (fldD j "rxc" (.arr #[]))).toList.mapM (fun e => do
        let a ← jArr e
        pure (← jS a[0]!, ← jBool a[1]!))
      let compiles : Str → Bool := fun p => match comp.find? (fun e => e.1 = p) with | some e => e.2 | none => false
      let conf ← (← jArr (fldD j "rules" (.arr #[]))).toList.mapM (jRule compiles)
      let tree ← jPTree (← fld j "st")
      -- a rule the constructors refuse (fixed value with an invalid part, …) leaves the placement manager without any
      -- rule ("Placement manager created without rules: not active"): not even the recovery rule
      let wf := conf.all Rule.wf
      pure ({ tree := tree, rules := if wf then buildRules conf else [], active := true }, if wf then "ok" else "ok rules-not-active")
  | "rules" =>
    if !st.active then pure (st, "ok skipped") else
    -- configuration reload with a new rule list: a rejected reload keeps the old rules; a rule list the constructors
    -- refuse makes the reload fail as well (UpdateRules returns the error)
    let impl ← jPTree (← fld j "st")
    match j.getObjVal? "error" with
    | .ok _ => pure ({ st with tree := impl }, "ok reload-rejected")
    | .error _ =>
      let comp ← (← jArr (fldD j "rxc" (.arr #[]))).toList.mapM (fun e => do
        let a ← jArr e
        pure (← jS a[0]!, ← jBool a[1]!))
      let compiles : Str → Bool := fun p => match comp.find? (fun e => e.1 = p) with | some e => e.2 | none => false
      let conf ← (← jArr (fldD j "rules" (.arr #[]))).toList.mapM (jRule compiles)
      if !conf.all Rule.wf then pure ({ st with tree := impl }, "diff place.rules model=refused impl=reloaded")
      else
        -- queues named by the configuration are active again; the queue configuration is the same, so nothing else
        -- should change. Child templates of managed queues are taken from the implementation and judged by clause T1
        let tplOf (q : Queue) : Str := match findQ impl q.path with | some x => x.tpl | none => q.tpl
        let tplPropsOf (q : Queue) : Yk.Reload.Props := match findQ impl q.path with | some x => x.tplProps | none => q.tplProps
        let m := st.tree.map (fun q => if q.managed then { q with draining := false, tpl := tplOf q, tplProps := tplPropsOf q } else q)
        let lost := st.tree.filter (fun q => q.managed && tplOf q != q.tpl)
        let v := match placeTreeDiff m impl with
          | some d => treeVerdict "reload" d
          | none =>
            if lost.isEmpty then "ok"
            else s!"inv C17.T1 reload with an unchanged queue configuration changed the child template of {lost.map (fun q => showName q.path)}"
        pure ({ st with tree := impl, rules := buildRules conf }, v)
  | "drain" =>
    if !st.active then pure (st, "ok skipped") else
    let impl ← jPTree (← fld j "st")
    let q := lowerName (splitDot (← jS (← fld j "q")))
    let m := markForRemoval st.tree q
    let v := match placeTreeDiff m impl with | none => "ok" | some d => treeVerdict "drain" d
    pure ({ st with tree := impl }, v)
  | "acl" =>
    let u : User := { name := ← jS (← fld j "user"), groups := ← jSList (fldD j "groups" .null) }
    let err ← jBool (← fld j "err")
    let out ← jBool (← fld j "out")
    match newACL (← jS (← fld j "acl")) with
    | none => pure (st, if err then "ok" else "diff place.acl model=error impl=parsed")
    | some a =>
      if err then pure (st, "diff place.acl model=parsed impl=error")
      else pure (st, if a.check u = out then "ok" else s!"diff place.acl model={a.check u} impl={out}")
  | "submit" =>
    if !st.active then pure (st, "ok skipped") else
    let a : App := { user := { name := ← jS (← fld j "user"), groups := ← jSList (fldD j "groups" .null) },
                     queue := ← jS (fldD j "queue" (.str "")), tags := ← jTags (fldD j "tags" .null) }
    let rx ← oracleOf (fldD j "rx" (.arr #[]))
    let impl ← jPTree (← fld j "st")
    let out ← fld j "out"
    let acc ← jBool (← fld out "acc")
    let reason ← jS (fldD out "reason" (.str ""))
    let queue ← jS (fldD out "queue" (.str ""))
    let panicked := (j.getObjVal? "panic").toOption.isSome
    let mut diffs : List String := []
    -- ACL answers of the real queues before the submission
    for e in (← jArr (fldD j "acc" (.arr #[]))).toList do
      let p ← jArr e
      let path := splitDot (← jS p[0]!)
      let b ← jBool p[1]!
      if checkSubmit st.tree a.user path != b then
        diffs := diffs ++ [s!"diff place.checkSubmit {showName path} model={checkSubmit st.tree a.user path} impl={b}"]
    -- the implementation's answer as an outcome
    let implOut : Option Outcome :=
      if panicked then some .panic
      else if acc then some (.accepted (splitDot queue))
      else (reasonOf reason).map .rejected
    let (mt, mo) := addApp rx st.tree st.rules a
    match implOut with
    | none => diffs := diffs ++ [s!"diff place.reason model={showOutcome mo} impl=unclassified:{toS reason}"]
    | some io =>
      if io != mo then diffs := diffs ++ [s!"diff place.outcome model={showOutcome mo} impl={showOutcome io}"]
    match placeTreeDiff mt impl with
    | none => pure ()
    | some d => diffs := diffs ++ [treeVerdict "tree" d]
    -- the property clauses on the implementation's answer
    let mut inv : List String := []
    match implOut with
    | none => pure ()
    | some io =>
      let o : Observed := { outcome := io, after := impl }
      let chosen := match choose rx st.tree a st.rules with
        | some (r, n) => s!"rule#{(st.rules.idxOf r)} -> {showName n}"
        | none => "no rule"
      let ctx := s!"user={toS a.user.name} queue={toS a.queue} forced={a.forced} answer={showOutcome io} chosen={chosen}"
      if !acc && !panicked && reason.isEmpty then inv := inv ++ [s!"C17.N2 rejected without a reason {ctx}"]
      if !clauseP1 o then inv := inv ++ [s!"C17.P1 placement panicked {ctx}"]
      if !clauseL1 o then inv := inv ++ [s!"C17.L1 accepted into a queue that is not a leaf afterwards {ctx}"]
      if !clauseL2 st.tree a o then inv := inv ++ [s!"C17.L2 accepted into an existing queue that was not an active leaf {ctx}"]
      if !clauseL3 st.tree a o then inv := inv ++ [s!"C17.L3 forced application accepted into a draining recovery queue {ctx}"]
      if !clauseA1 st.tree a o then inv := inv ++ [s!"C17.A1 no submit/admin ACL on the queue or an ancestor admits the user {ctx}"]
      if !clauseR1 rx st.tree st.rules a o then inv := inv ++ [s!"C17.R1 not the queue of the first rule that passes {ctx}"]
      if !clauseF1 rx st.tree st.rules a o then inv := inv ++ [s!"C17.F1 not the answer of the rules with the filter types read as configured (deny in another capitalisation) {ctx}"]
      if !clauseN1 rx st.tree st.rules a o then inv := inv ++ [s!"C17.N1 no rule matched but not rejected as such {ctx}"]
      if !clauseC1 rx st.tree st.rules a o then inv := inv ++ [s!"C17.C1 queue creation outside the create clause {ctx} new={(newQueues st.tree impl).map showPQ}"]
      if !clauseC2 rx st.tree st.rules a o then inv := inv ++ [s!"C17.C2 created-queue-settings-follow-template: the effective settings of a created queue are not the ones derived from the child template {ctx} new={(newQueues st.tree impl).map showPSet}"]
      if !clauseV2 st.tree o then inv := inv ++ [s!"C17.V2 a queue was created at or below the recovery queue path that is not the recovery leaf {ctx} new={(newQueues st.tree impl).map showPQ}"]
      if !clauseV1 a o then inv := inv ++ [s!"C17.V1 recovery queue used by an application that is not forced {ctx}"]
    let all := diffs ++ inv
    let v := if all.isEmpty then "ok"
      else if diffs.isEmpty then "inv " ++ " ;; ".intercalate all
      else " ;; ".intercalate all
    -- one verdict per line: texts of the implementation may contain line breaks
    pure ({ st with tree := impl }, String.ofList (v.toList.map (fun c => if c = '\n' || c = '\r' then ' ' else c)))
  | _ => pure (st, "bad-op unknown place op")

end YkDrv
