/-
  Model of the event stream set-up race (pkg/events/event_streaming.go CreateEventStream vs the event loop
  of event_system.go): small-step interleaving of
     event loop :  add e₁ ; publish e₁ ; add e₂ ; publish e₂ ; …      (one goroutine)
     creator    :  register ; readHistory(count)                         (CreateEventStream)
  and the bridging goroutine's de-duplication (`seen`).
-/
import YkModel.Ring
namespace Yk

inductive SStep where
  | add | pub | reg | hist
  deriving Repr, DecidableEq

structure SState where
  added : List Ev := []            -- events in the ring buffer (all of them; the window is applied at read time)
  next : Nat := 1                  -- tag of the next event
  pending : Option Ev := none      -- added, not yet published
  registered : Bool := false
  history : Option (List Ev) := none
  histLen : Nat := 0               -- number of events in the buffer when the history was read
  localQ : List Ev := []           -- the "local" channel
  deriving Repr, DecidableEq

/-- last `k` elements -/
def lastN (k : Nat) (l : List Ev) : List Ev := l.drop (l.length - k)

def sstep (count cap : Nat) (s : SState) : SStep → Option SState
  | .add => match s.pending with
    | some _ => none
    | none => some { s with added := s.added ++ [s.next], pending := some s.next, next := s.next + 1 }
  | .pub => match s.pending with
    | none => none
    | some e => some { s with pending := none, localQ := if s.registered then s.localQ ++ [e] else s.localQ }
  | .reg => if s.registered then none else some { s with registered := true }
  | .hist => if s.registered && s.history.isNone then some { s with history := some (lastN (min count cap) s.added), histLen := s.added.length } else none

def srun (count cap : Nat) : SState → List SStep → Option SState
  | s, [] => some s
  | s, st :: rest => match sstep count cap s st with
    | none => none
    | some s' => srun count cap s' rest

/-- the bridging goroutine: skip events already sent as history until the first new one, then forward all -/
def bridge (seen : List Ev) : List Ev → List Ev
  | [] => []
  | e :: t => if seen.contains e then bridge seen t else e :: t

/-- what the consumer receives once everything has been forwarded -/
def consumerOut (s : SState) : List Ev :=
  match s.history with
  | none => []
  | some h => h ++ bridge h s.localQ

/-- strictly increasing tags = every event at most once and in order -/
def strictlyIncreasing : List Ev → Bool
  | [] => true
  | [_] => true
  | a :: b :: t => decide (a < b) && strictlyIncreasing (b :: t)

/-- the statement: history first, then every later event once and in order -/
def streamOK (s : SState) : Bool :=
  match s.history with
  | none => true
  | some h =>
    let out := consumerOut s
    strictlyIncreasing out && (h.isPrefixOf out) &&
    -- every published event that was not part of the history and came after it is delivered
    s.localQ.all (fun e => out.contains e)

/-- events that were published to the new stream although they were already in the buffer when the history
    was read (the overlap the `seen` map has to remove) -/
def window (s : SState) : Nat := (s.localQ.filter (fun e => decide (e ≤ s.histLen))).length

end Yk
