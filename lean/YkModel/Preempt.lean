/-
  Model of the preemption code of pkg/scheduler/objects (C07 victim eligibility, C08 guarantees):
    queue.go       findPreemptionFenceRoot, FindEligiblePreemptionVictims / findEligiblePreemptionVictims,
                   createPreemptionSnapshot, prunePreemptionSnapshots, setPreemptionTime, tryAcquirePreemption
    preemption.go  QueuePreemptionSnapshot (GetRemainingGuaranteedResource incl. the ask-queue special cases,
                   GetPreemptableResource, Add/RemoveAllocation), Preemptor.CheckPreconditions,
                   checkPreemptionQueueGuarantees, initWorkingState (no reservations), calculateVictimsByNode (both
                   passes), checkPreemptionPredicates, calculateAdditionalVictims, TryPreemption (final filter,
                   shortfall test, marking)
    required_node_preemptor.go  filterAllocations, SortAllocations, GetVictims
    quota_preemptor.go          setPreemptableResources, filterAllocations, preemptVictims (selection loop)
  The world is a list of queues (parents first), nodes, bound allocations and one ask. Arithmetic is exact
  (no quantity saturates; C18 owns saturation). Go map iteration orders that the code depends on are fixed here
  (sorted by queue path / allocation key); the generators give allocations distinct creation times, which makes
  every sort of the code total.
-/
import YkModel.Res
import YkModel.Reload
namespace Yk
namespace Pre
open Res

/-! ### exact-arithmetic versions of the resource helpers used by the preemption code -/

/-- SubOnlyExisting(base, delta): nil base or nil delta gives base -/
def subOE (base delta : ORes) : ORes :=
  match base, delta with
  | some b, some d => some (b.map (fun p => (p.1, p.2 - d.getD p.1)))
  | b, _ => b

/-- SubEliminateNegative(l, r) -/
def subElimNeg (l r : Res) : Res :=
  r.foldl (fun out p => out.set p.1 (max 0 (out.getD p.1 - p.2))) l

/-- total of a list of vectors, added up as `AddTo` does -/
def sumRes (l : List Res) : Res := l.foldl addX []

/-! ### the world -/

structure PQ where
  path : String
  parent : Option Nat
  leaf : Bool
  max : ORes                 -- maxResource as set
  effMax : ORes              -- GetMaxResource(): taken from the implementation (C02 owns it)
  guar : ORes
  ppol : Nat                 -- preemption.policy: 0 default, 1 fence, 2 disabled
  prFence : Bool             -- priority.policy = fence
  off : Int                  -- priority.offset
  delay : Int                -- preemption.delay (s)
  managed : Bool
  own : Reload.Props := []   -- the queue's OWN configured property texts (the four settings above derive from them)
  deriving Repr, DecidableEq

structure PAlloc where
  key : String
  app : String
  q : Nat                    -- leaf queue of the application
  node : Nat
  res : Res
  prio : Int
  released : Bool
  preempted : Bool
  req : Bool                 -- requires its node (daemon set)
  ph : Bool
  self : Bool                -- allowPreemptSelf
  orig : Bool
  ct : Int                   -- age: createTime = base - ct (larger = older)
  deriving Repr, DecidableEq

structure PAsk where
  key : String
  app : String
  q : Nat
  res : Res
  prio : Int
  other : Bool               -- allowPreemptOther
  self : Bool
  req : Option Nat           -- required node
  age : Int                  -- now - createTime (s)
  triggered : Bool
  deriving Repr, DecidableEq

structure PNode where
  id : String
  cap : Res
  avail : Res
  sched : Bool
  deriving Repr, DecidableEq

structure World where
  queues : List PQ
  nodes : List PNode
  allocs : List PAlloc       -- the bound allocations (Application.allocations of every application)
  ask : PAsk
  deriving Repr

/-- `[i, parent i, …, root]` -/
def chainAux (qs : List PQ) : Nat → Nat → List Nat
  | 0, _ => []
  | f + 1, i =>
    match qs[i]? with
    | none => []
    | some q => i :: (match q.parent with | none => [] | some p => chainAux qs f p)

def chain (w : World) (i : Nat) : List Nat := chainAux w.queues w.queues.length i

def inSubtree (w : World) (top i : Nat) : Bool := (chain w i).contains top

/-- allocatedResource of queue i: IncAllocatedResource on the leaf walks up -/
def allocatedOf (w : World) (i : Nat) : Res :=
  sumRes ((w.allocs.filter (fun a => inSubtree w i a.q)).map (·.res))

/-- preemptingResource of queue i: IncPreemptingResource for every allocation marked preempted -/
def preemptingOf (w : World) (i : Nat) : Res :=
  sumRes ((w.allocs.filter (fun a => a.preempted && inSubtree w i a.q)).map (·.res))

def pathOf (w : World) (i : Nat) : String := match w.queues[i]? with | some q => q.path | none => ""

def findAlloc (w : World) (k : String) : Option PAlloc := w.allocs.find? (fun a => a.key == k)

def resOfKey (w : World) (k : String) : Res := match findAlloc w k with | some a => a.res | none => []

/-! ### queue snapshots -/

structure Snap where
  path : String
  parent : Option String
  leaf : Bool
  alloc : Res
  preempting : Res
  max : ORes
  guar : ORes
  victims : List String
  askq : Bool                -- AskQueue != nil
  deriving Repr, DecidableEq

/-- what GetRemainingGuaranteedResource reads through the AskQueue pointer: always the ORIGINAL snapshot of the ask
    queue (Duplicate copies the pointer, not the snapshot) -/
structure AskInfo where
  path : String
  guar : ORes
  alloc : Res
  preempting : Res
  deriving Repr, DecidableEq

def findSnap (ss : List Snap) (p : String) : Option Snap := ss.find? (fun s => s.path == p)

/-- strings.HasPrefix(s, pre) -/
def hasPrefix (s pre : String) : Bool := pre.toList.isPrefixOf s.toList

/-- strings.HasPrefix(s, pre + configs.DOT): `pre` names a proper ancestor of the queue `s` -/
def hasPrefixDot (s pre : String) : Bool := (pre.toList ++ ['.']).isPrefixOf s.toList

/-- one level of GetRemainingGuaranteedResource: `parent` is the result for the parent snapshot -/
def remStep (ask : AskInfo) (s : Snap) (parent : ORes) : ORes :=
  if isEmpty parent && isEmpty s.guar then none else
  let used := subOE (some s.alloc) (some s.preempting)
  let rg := subOE s.guar used
  if s.askq then
    if ask.path == s.path && !isEmpty rg then mergeIfNotPresent rg parent else
    let askRem := subOE ask.guar (subOE (some ask.alloc) (some ask.preempting))
    if !isEmpty rg && hasPrefixDot ask.path s.path && !isEmpty askRem then none
    else componentWiseMin rg parent
  else componentWiseMin rg parent

/-- GetRemainingGuaranteedResource (fuel = number of snapshots) -/
def remainingAux (ask : AskInfo) (ss : List Snap) : Nat → Option String → ORes
  | 0, _ => none
  | _, none => none
  | f + 1, some p =>
    match findSnap ss p with
    | none => none
    | some s => remStep ask s (remainingAux ask ss f s.parent)

def remaining (ask : AskInfo) (ss : List Snap) (p : String) : ORes := remainingAux ask ss (ss.length + 1) (some p)

/-- one level of GetPreemptableResource -/
def preStep (s : Snap) (parent : ORes) : ORes :=
  if s.alloc.isEmpty then none else
  let actual := subOE (subOE (some s.alloc) (some s.preempting)) s.guar
  let pre : Res := (actual.getD []).filter (fun p => decide (p.2 > 0))
  if pre.isEmpty then some pre else componentWiseMinOnlyExisting (some pre) parent

def preemptableAux (ss : List Snap) : Nat → Option String → ORes
  | 0, _ => none
  | _, none => none
  | f + 1, some p =>
    match findSnap ss p with
    | none => none
    | some s => preStep s (preemptableAux ss f s.parent)

def preemptable (ss : List Snap) (p : String) : ORes := preemptableAux ss (ss.length + 1) (some p)

/-- paths `[p, parent p, …]` inside a snapshot set -/
def snapChainAux (ss : List Snap) : Nat → Option String → List String
  | 0, _ => []
  | _, none => []
  | f + 1, some p =>
    match findSnap ss p with
    | none => []
    | some s => p :: snapChainAux ss f s.parent

def snapChain (ss : List Snap) (p : String) : List String := snapChainAux ss (ss.length + 1) (some p)

/-- AddAllocation / RemoveAllocation: the snapshot and all its ancestors -/
def addAlloc (ss : List Snap) (p : String) (r : Res) : List Snap :=
  let c := snapChain ss p
  ss.map (fun s => if c.contains s.path then { s with alloc := addX s.alloc r } else s)

def removeAlloc (ss : List Snap) (p : String) (r : Res) : List Snap :=
  let c := snapChain ss p
  ss.map (fun s => if c.contains s.path then { s with alloc := subX s.alloc r } else s)

/-! ### findPreemptionFenceRoot / FindEligiblePreemptionVictims -/

/-- walk up from queue i: returns the fence root and the priority map (queue index ↦ relative ask priority) -/
def fenceRootAux (w : World) : Nat → Nat → Int → List (Nat × Int) → Option (Nat × List (Nat × Int))
  | 0, _, _, _ => none
  | f + 1, i, cur, pm =>
    match w.queues[i]? with
    | none => none
    | some q =>
      let cur' := if q.prFence then q.off else cur + q.off
      let pm' := (i, cur') :: pm
      let fenceByMax := match q.effMax with
        | some m => !m.isEmpty && !strictlyOnlyExisting (some m) (some (addX (allocatedOf w i) w.ask.res)) true
        | none => false
      match q.parent with
      | none => some (i, pm')
      | some p => if q.ppol == 1 || fenceByMax then some (i, pm') else fenceRootAux w f p cur' pm'

def fenceRoot (w : World) : Option (Nat × List (Nat × Int)) :=
  fenceRootAux w (w.queues.length + 1) w.ask.q w.ask.prio []

/-- snapshot of queue i as createPreemptionSnapshot builds it (AskQueue is set for every queue but the root) -/
def snapOf (w : World) (i : Nat) (victims : List String) : Option Snap :=
  match w.queues[i]? with
  | none => none
  | some q => some { path := q.path, parent := q.parent.map (pathOf w), leaf := q.leaf, alloc := allocatedOf w i,
                     preempting := preemptingOf w i, max := q.max, guar := q.guar, victims := victims,
                     askq := q.parent.isSome }

def askInfo (w : World) : AskInfo :=
  match w.queues[w.ask.q]? with
  | some q => { path := q.path, guar := q.guar, alloc := allocatedOf w w.ask.q, preempting := preemptingOf w w.ask.q }
  | none => { path := "", guar := none, alloc := [], preempting := [] }

/-- snapshots of every queue of the world (no victims): what the leaf test of findEligiblePreemptionVictims sees -/
def allSnaps (w : World) : List Snap := (List.range w.queues.length).filterMap (fun i => snapOf w i [])

def children (w : World) (i : Nat) : List Nat :=
  (List.range w.queues.length).filter (fun j => match w.queues[j]? with | some q => q.parent == some i | none => false)

/-- the per-allocation filter of findEligiblePreemptionVictims (leaf branch) -/
def eligibleAlloc (w : World) (leaf : Nat) (askPrio : Int) (fenced : Bool) (a : PAlloc) : Bool :=
  a.q == leaf && matchAny (some w.ask.res) (some a.res) false && !a.req && !a.released && !a.preempted &&
  (fenced || decide (a.prio ≤ askPrio))

def insStr (s : String) : List String → List String
  | [] => [s]
  | a :: t => if s < a then s :: a :: t else a :: insStr s t
def sortStrs (l : List String) : List String := l.foldl (fun acc s => insStr s acc) []

/-- the parent branch of findEligiblePreemptionVictims, for one child `c`: the (relative ask priority, fenced) pair the
    child is visited with. On the asker's own path the priority computed on the way up applies; elsewhere a
    priority-fenced child is skipped when its offset is above the ask priority and otherwise opens its whole subtree,
    any other child subtracts its offset. -/
def childStep (w : World) (pm : List (Nat × Int)) (c : Nat) (st : Int × Bool) : Option (Int × Bool) :=
  match w.queues[c]? with
  | none => none
  | some cq =>
    match pm.lookup c with
    | some cp => some (cp, st.2)
    | none => if cq.prFence then (if cq.off > st.1 then none else some (st.1, true)) else some (st.1 - cq.off, st.2)

/-- findEligiblePreemptionVictims: (leaf index, potential victims) for every leaf that contributes -/
def eligAux (w : World) (pm : List (Nat × Int)) : Nat → Nat → Int → Bool → List (Nat × List String)
  | 0, _, _, _ => []
  | f + 1, i, askPrio, fenced =>
    match w.queues[i]? with
    | none => []
    | some q =>
      if i == w.ask.q then [] else
      if q.leaf then
        if q.ppol == 2 then [] else
        let rem := remaining (askInfo w) (allSnaps w) q.path
        if rem.isSome && strictlyGreaterThanOrEquals rem (some []) then [] else
        let vs := (w.allocs.filter (eligibleAlloc w i askPrio fenced)).map (·.key)
        if vs.isEmpty then [] else [(i, sortStrs vs)]
      else
        (children w i).flatMap (fun c =>
          match childStep w pm c (askPrio, fenced) with
          | none => []
          | some st => eligAux w pm f c st.1 st.2)

def eligLeaves (w : World) : List (Nat × List String) :=
  match fenceRoot w with
  | none => []
  | some (fr, pm) =>
    match pm.lookup fr with
    | none => []
    | some p => eligAux w pm (w.queues.length + 1) fr p false

def insSnap (s : Snap) : List Snap → List Snap
  | [] => [s]
  | a :: t => if s.path < a.path then s :: a :: t else a :: insSnap s t
def sortSnaps (l : List Snap) : List Snap := l.foldl (fun acc s => insSnap s acc) []

/-- FindEligiblePreemptionVictims after pruning: the ask queue's chain plus the chain of every leaf with victims,
    sorted by path -/
def findEligible (w : World) : List Snap :=
  let leaves := eligLeaves w
  let keep := (chain w w.ask.q) ++ leaves.flatMap (fun l => chain w l.1)
  let idxs := (List.range w.queues.length).filter (fun i => keep.contains i)
  sortSnaps (idxs.filterMap (fun i => snapOf w i ((leaves.lookup i).getD [])))

/-! ### the eligibility rule, stated per allocation (independent of the traversal) -/

/-- relative ask priority at leaf `l`, walking DOWN the tree path from the fence root `fr`: on the asker's own path
    the values computed on the way up apply; elsewhere a priority-fenced queue either blocks the subtree (offset above
    the ask priority) or makes everything below it eligible, any other queue subtracts its offset.
    Result: `none` = not reachable, `some (p, fenced)`. -/
def downPrio (w : World) (pm : List (Nat × Int)) (fr l : Nat) : Option (Int × Bool) :=
  let c := chain w l
  if !c.contains fr then none else
  match pm.lookup fr with
  | none => none
  | some p0 => (c.takeWhile (· != fr)).reverse.foldl (fun acc d => acc.bind (childStep w pm d)) (some (p0, false))

/-- the clauses of C07 for one victim of queue preemption; returns the ids of the clauses that fail -/
def eligViolations (w : World) (a : PAlloc) : List String :=
  let leafOk := match w.queues[a.q]? with | some q => q.leaf | none => false
  let pol := match w.queues[a.q]? with | some q => q.ppol | none => 2
  (if decide (a ∈ w.allocs) then [] else ["C07.E1-bound"]) ++
  (if !a.released then [] else ["C07.E2-released"]) ++
  (if !a.preempted then [] else ["C07.E3-already-preempted"]) ++
  (if !a.req then [] else ["C07.E4-required-node"]) ++
  (if leafOk && a.q != w.ask.q then [] else ["C07.E5-other-leaf"]) ++
  (match fenceRoot w with
   | none => ["C07.E6-inside-fence"]
   | some (fr, pm) =>
     (if inSubtree w fr a.q then [] else ["C07.E6-inside-fence"]) ++
     (match downPrio w pm fr a.q with
      | none => ["C07.E9-priority"]
      | some (p, fenced) => if fenced || decide (a.prio ≤ p) then [] else ["C07.E9-priority"])) ++
  (if pol != 2 then [] else ["C07.E7-policy-disabled"]) ++
  (if matchAny (some w.ask.res) (some a.res) false then [] else ["C07.E8-shares-type"])

/-! ### CheckPreconditions -/

/-- `checked` = seconds since the last preemption check (none = never checked); `freq` = preemptAttemptFrequency -/
def checkPreconditions (ask : PAsk) (delay freq : Int) (checked : Option Int) : Bool :=
  ask.other && !ask.triggered && ask.req.isNone && decide (delay ≤ ask.age) &&
  (match checked with | none => true | some c => decide (freq ≤ c))

/-! ### TryPreemption -/

def isAskQueueUnderGuaranteed (askRes rem : Res) : Bool :=
  askRes.all (fun p => match rem.get? p.1 with | some v => decide (0 ≤ v) | none => true)

def isVictimQueueOverGuaranteed (askRes rem : Res) : Bool :=
  askRes.any (fun p => match rem.get? p.1 with | some v => decide (v < 0) | none => false)

/-- the test "queue stays a victim queue" used by calculateVictimsByNode / calculateAdditionalVictims:
    `rem` is the remaining guaranteed BEFORE the victim was removed, `pre` the preemptable resource AFTER -/
def victimOk (askRes : Res) (rem pre : ORes) : Bool :=
  strictlyGreaterThanOrEquals pre (some []) &&
  (match rem with | none => true | some r => isVictimQueueOverGuaranteed askRes r)

def queueOfVictim (ss : List Snap) (k : String) : Option String :=
  (ss.find? (fun s => s.victims.contains k)).map (·.path)

/-- checkPreemptionQueueGuarantees -/
def checkGuarantees (w : World) (ss : List Snap) : Bool :=
  let ai := askInfo w
  let old := remaining ai ss ai.path
  if findSnap ss ai.path |>.isNone then false else
  if old.isSome && fitInActual old (some w.ask.res) then true else
  let ss1 := addAlloc ss ai.path w.ask.res
  let vs := ss.flatMap (fun s => s.victims.map (fun k => (s.path, k)))
  (vs.foldl (fun (acc : List Snap × Bool) pv =>
      if acc.2 then acc else
      let ss' := removeAlloc acc.1 pv.1 (resOfKey w pv.2)
      match remaining ai ss' ai.path with
      | some r => (ss', isAskQueueUnderGuaranteed w.ask.res r)
      | none => (ss', false)) (ss1, false)).2

/-- order of sortVictimsForPreemption: allowPreemptSelf first, non-originators first, newest first -/
def victimLess (a b : PAlloc) : Bool :=
  if a.self && !b.self then true else
  if b.self && !a.self then false else
  if a.orig && !b.orig then false else
  if b.orig && !a.orig then true else
  decide (a.ct < b.ct)

def insBy (lt : PAlloc → PAlloc → Bool) (a : PAlloc) : List PAlloc → List PAlloc
  | [] => [a]
  | b :: t => if lt a b then a :: b :: t else b :: insBy lt a t
/-- stable insertion sort (sort.SliceStable with a total comparator) -/
def sortBy (lt : PAlloc → PAlloc → Bool) (l : List PAlloc) : List PAlloc :=
  l.foldr (fun a acc => insBy lt a acc) []

/-- initWorkingState (nodes without reservations): usable nodes and, per node, the sorted potential victims.
    `byNode` keeps an entry only for nodes that have potential victims and were not dropped. -/
def usableNode (w : World) (n : PNode) : Bool := n.sched && fitInStd (some n.cap) (some w.ask.res)

def potentialVictims (w : World) (ss : List Snap) : List PAlloc :=
  (ss.flatMap (·.victims)).filterMap (findAlloc w)

def victimsOnNode (w : World) (ss : List Snap) (ni : Nat) : List PAlloc :=
  sortBy victimLess ((potentialVictims w ss).filter (fun a => a.node == ni))

structure Pass1 where
  ss : List Snap
  nodeCur : Res
  head : List PAlloc
  tail : List PAlloc
  stop : Bool

/-- first pass of calculateVictimsByNode, one potential victim -/
def pass1Step (w : World) (ss0 : List Snap) (st : Pass1) (v : PAlloc) : Pass1 :=
  let ai := askInfo w
  let askRes := w.ask.res
  if st.stop then st else
  match queueOfVictim ss0 v.key with
  | none => st
  | some qp =>
    let rem := remaining ai st.ss qp
    let ss1 := removeAlloc st.ss qp v.res
    let pre := preemptable ss1 qp
    if victimOk askRes rem pre then
      let askRem := remaining ai ss1 ai.path
      if askRem.isSome && fitInActual askRem (some v.res) then
        let ss2 := addAlloc ss1 ai.path v.res
        let shortfall := subElimNeg askRes st.nodeCur
        let newShortfall := subElimNeg askRes (addX st.nodeCur v.res)
        if equalsOrEmpty (some shortfall) (some newShortfall) false then
          { st with ss := addAlloc (removeAlloc ss2 ai.path v.res) qp v.res, tail := st.tail ++ [v] }
        else
          { st with ss := ss2, nodeCur := addX st.nodeCur v.res, head := st.head ++ [v] }
      else { st with ss := addAlloc ss1 qp v.res, stop := true }
    else { st with ss := addAlloc ss1 qp v.res }

structure Pass2 where
  ss : List Snap
  nodeCur : Res
  results : List PAlloc
  index : Int

/-- second pass of calculateVictimsByNode, one victim of the merged list -/
def pass2Step (w : World) (ss0 : List Snap) (st : Pass2) (v : PAlloc) : Pass2 :=
  let ai := askInfo w
  let askRes := w.ask.res
  match queueOfVictim ss0 v.key with
  | none => st
  | some qp =>
    let rem := remaining ai st.ss qp
    let ss1 := removeAlloc st.ss qp v.res
    let pre := preemptable ss1 qp
    if victimOk askRes rem pre then
      let nodeCur' := addX st.nodeCur v.res
      let index' := if fitInStd (some nodeCur') (some askRes) && st.index < 0 then (st.results.length : Int) else st.index
      { ss := ss1, nodeCur := nodeCur', results := st.results ++ [v], index := index' }
    else { st with ss := addAlloc ss1 qp v.res }

/-- calculateVictimsByNode: (start index, victims); `none` = node not considered -/
def calcVictimsByNode (w : World) (ss0 : List Snap) (avail : Res) (pv : List PAlloc) : Option (Int × List PAlloc) :=
  if fitInStd (some avail) (some w.ask.res) then some (-1, []) else
  if (findSnap ss0 (askInfo w).path).isNone then none else
  let p1 := pv.foldl (pass1Step w ss0) { ss := ss0, nodeCur := avail, head := [], tail := [], stop := false }
  let head := p1.head ++ p1.tail
  if head.isEmpty then none else
  let p2 := head.foldl (pass2Step w ss0) { ss := ss0, nodeCur := avail, results := [], index := -1 }
  if p2.index < 0 then none else some (p2.index, p2.results)

structure Check where
  node : String
  ni : Nat
  start : Int
  victims : List PAlloc
  deriving Repr

def insCheck (c : Check) : List Check → List Check
  | [] => [c]
  | d :: t => if c.start < d.start || (c.start == d.start && c.node < d.node) then c :: d :: t else d :: insCheck c t

/-- tryNodes up to the predicate checks: the checks that are sent, sorted by (start index, node id), and the victim
    lists per node -/
def nodeChecks (w : World) (ss : List Snap) (nodesTried : Bool) : List Check :=
  let cs := (List.range w.nodes.length).filterMap (fun ni =>
    match w.nodes[ni]? with
    | none => none
    | some n =>
      if !usableNode w n then none else
      match calcVictimsByNode w ss n.avail (victimsOnNode w ss ni) with
      | none => none
      | some (idx, vs) => if !vs.isEmpty || !nodesTried then some { node := n.id, ni := ni, start := idx, victims := vs } else none)
  cs.foldl (fun acc c => insCheck c acc) []

/-- answer of the predicate plugin for one node: (success, index) -/
structure PluginRow where
  node : String
  ok : Bool
  extra : Int
  over : Bool
  deriving Repr

def pluginAnswer (rows : List PluginRow) (c : Check) : Bool × Int :=
  match rows.find? (fun r => r.node == c.node) with
  | none => (false, -1)
  | some r =>
    if !r.ok then (false, -1) else
    if c.victims.isEmpty then (true, -1) else
    let idx := c.start + r.extra
    let idx := if idx > (c.victims.length : Int) - 1 && !r.over then (c.victims.length : Int) - 1 else idx
    (true, idx)

def scoreUnfit : Nat := 2 ^ 35
def scoreOriginator : Nat := 2 ^ 33
def scoreNoPreempt : Nat := 2 ^ 34

/-- getSolutionScore: reads the first index+1 entries of allocationsByNode[node] (the sorted POTENTIAL victims of
    the node, not the filtered list the index refers to) -/
def solutionScore (w : World) (ss : List Snap) (c : Check) (ans : Bool × Int) : Nat :=
  if !ans.1 then scoreUnfit else
  let allocs := victimsOnNode w ss c.ni
  if allocs.isEmpty then scoreUnfit else     -- no entry in allocationsByNode
  if ans.2 < 0 then 0 else
  if ans.2 ≥ allocs.length then scoreUnfit else
  let pre := allocs.take (ans.2.toNat + 1)
  (if pre.any (·.orig) then scoreOriginator else 0) + (if pre.any (fun a => !a.self) then scoreNoPreempt else 0) + (ans.2.toNat + 1)

/-- result of the predicate step: (check, index) -/
def populate (c : Check) (idx : Int) : Option (Check × List PAlloc) :=
  if idx ≥ (c.victims.length : Int) then none else some (c, c.victims.take (idx + 1).toNat)

/-- no plugin registered: the first check wins with its start index -/
def pickNoPlugin (cs : List Check) : Option (Check × List PAlloc) :=
  match cs with
  | [] => none
  | c :: _ => populate c c.start

/-- with a plugin (one batch): the successful answers with the minimal score; which of several equally good
    answers wins depends on goroutine scheduling -/
def pluginCandidates (w : World) (ss : List Snap) (rows : List PluginRow) (cs : List Check) : List (Check × Int) :=
  let succ := cs.filterMap (fun c => let a := pluginAnswer rows c; if a.1 then some (c, a.2, solutionScore w ss c a) else none)
  match succ.map (fun x => x.2.2) |>.min? with
  | none => []
  | some m => (succ.filter (fun x => x.2.2 == m)).map (fun x => (x.1, x.2.1))

/-- compareAllocationLess -/
def allocScore (a : PAlloc) : Nat := (if a.orig then scoreOriginator else 0) + (if !a.self then scoreNoPreempt else 0)
def compareLess (a b : PAlloc) : Bool :=
  if allocScore a != allocScore b then decide (allocScore a < allocScore b) else decide (a.ct < b.ct)

structure AddSt where
  ss : List Snap
  victims : List PAlloc
  stop : Bool

/-- calculateAdditionalVictims, one further potential victim -/
def addStep (w : World) (ss0 : List Snap) (st : AddSt) (v : PAlloc) : AddSt :=
  let ai := askInfo w
  let askRes := w.ask.res
  if st.stop then st else
  match queueOfVictim ss0 v.key with
  | none => st
  | some qp =>
    let rem := remaining ai st.ss qp
    let ss1 := removeAlloc st.ss qp v.res
    let pre := preemptable ss1 qp
    if victimOk askRes rem pre then
      let askRem := remaining ai ss1 ai.path
      if askRem.isSome && fitInActual askRem (some v.res) then
        let ss2 := addAlloc ss1 ai.path v.res
        let askNew := remaining ai ss2 ai.path
        if !equalsOrEmpty askRem askNew false then { st with ss := ss2, victims := st.victims ++ [v] }
        else { st with ss := addAlloc (removeAlloc ss2 ai.path v.res) qp v.res }
      else { st with ss := addAlloc ss1 qp v.res, stop := true }
    else { st with ss := addAlloc ss1 qp v.res }

/-- calculateAdditionalVictims -/
def calcAdditional (w : World) (ss0 : List Snap) (nodeVictims : List PAlloc) : Option (List PAlloc) × Bool :=
  let ai := askInfo w
  if (findSnap ss0 ai.path).isNone then (none, false) else
  let ssA := nodeVictims.foldl (fun ss v => match queueOfVictim ss0 v.key with
    | some qp => removeAlloc ss qp v.res
    | none => ss) ss0
  let seen := nodeVictims.map (·.key)
  let pv := sortBy compareLess ((potentialVictims w ss0).filter (fun a => !seen.contains a.key))
  let r := pv.foldl (addStep w ss0) { ss := ssA, victims := [], stop := false }
  if r.victims.isEmpty then (none, true) else
  match remaining ai r.ss ai.path with
  | some fr => (some r.victims, isAskQueueUnderGuaranteed w.ask.res fr)
  | none => (some r.victims, false)

/-- the final victim filter of TryPreemption: (final victims, total of everything that passed the node filter) -/
def finalFilter (askRes : Res) (fitIn : Bool) (ni : Nat) (victims : List PAlloc) : List PAlloc × Res :=
  victims.foldl (fun (st : List PAlloc × Res) v =>
    if !fitIn && v.node != ni then st else
    let fin := if strictlyOnlyExisting (some askRes) (some st.2) false then st.1 ++ [v] else st.1
    (fin, addX st.2 v.res)) ([], [])

structure TryResult where
  node : String
  ni : Nat
  victims : List PAlloc       -- finalVictims: marked, booked as preempting, announced
  collected : List PAlloc     -- node victims ++ additional victims
  deriving Repr

/-- TryPreemption after the predicate step chose `c` with the node victims `nv` -/
def commitAfterPick (w : World) (ss : List Snap) (c : Check) (nv : List PAlloc) : Option TryResult :=
  match calcAdditional w ss nv with
  | (_, false) => none
  | (extra, true) =>
    let victims := nv ++ extra.getD []
    if victims.isEmpty then none else
    match w.nodes[c.ni]? with
    | none => none
    | some n =>
      let fitIn := fitInStd (some n.avail) (some w.ask.res)
      let (fin, total) := finalFilter w.ask.res fitIn c.ni victims
      if strictlyOnlyExisting (some w.ask.res) (some total) false then none
      else some { node := c.node, ni := c.ni, victims := fin, collected := victims }

/-- TryPreemption without a plugin -/
def tryPreemptionNoPlugin (w : World) (nodesTried : Bool) : Option TryResult :=
  let ss := findEligible w
  if !checkGuarantees w ss then none else
  match pickNoPlugin (nodeChecks w ss nodesTried) with
  | none => none
  | some (c, nv) => commitAfterPick w ss c nv

/-! ### TryPreemption, the marking of the final victims (a victim may have been released in the meantime) -/

/-- Allocation.SetReleased(true) on the allocations named by `late`, between the victim collection
    (initQueueSnapshots) and the marking loop; refused for an allocation that is marked preempted -/
def releaseLate (late : List String) (allocs : List PAlloc) : List PAlloc :=
  allocs.map (fun a => if late.contains a.key && !a.preempted then { a with released := true } else a)

/-- the allocation with its preempted flag set to `b` -/
def PAlloc.mark (a : PAlloc) (b : Bool) : PAlloc := { a with preempted := b }

/-- MarkPreempted (`b = true`; the caller looked at `released`) / MarkUnPreempted (`b = false`) on allocation `k` -/
def setPreempted (k : String) (b : Bool) (allocs : List PAlloc) : List PAlloc :=
  allocs.map (fun a => if a.key == k then a.mark b else a)

def isReleased (allocs : List PAlloc) (k : String) : Bool :=
  match allocs.find? (fun a => a.key == k) with | some a => a.released | none => false

/-- MarkUnPreempted on every victim marked so far -/
def unmarkAll (done : List String) (allocs : List PAlloc) : List PAlloc :=
  done.foldl (fun al d => setPreempted d false al) allocs

/-- the marking loop of TryPreemption as written: MarkPreempted on the final victims in order; `done` are the
    victims marked so far (`preemptedVictims`). The first victim that turns out to be released un-marks all of `done`
    and abandons the attempt. Result: the allocations, and whether every victim was marked. -/
def markLoop (allocs : List PAlloc) (done : List String) : List String → List PAlloc × Bool
  | [] => (allocs, true)
  | k :: t =>
    if isReleased allocs k then (unmarkAll done allocs, false)
    else markLoop (setPreempted k true allocs) (done ++ [k]) t

/-- what one TryPreemption leaves behind -/
structure TryLate where
  allocs : List PAlloc          -- every bound allocation with its flags after the attempt
  result : Option TryResult     -- `some` = committed (victims booked as preempting and announced, node reserved)
  released : Bool               -- abandoned because a final victim was released: "victims released" is logged on the ask
  triggered : Bool              -- the ask's preemptionTriggered flag
  deriving Repr

/-- the end of TryPreemption: `r` is the outcome up to the shortfall test (`none` = abandoned before),
    `late` the allocations released since the victims were collected -/
def finishTry (w : World) (late : List String) (r : Option TryResult) : TryLate :=
  let allocs0 := releaseLate late w.allocs
  match r with
  | none => { allocs := allocs0, result := none, released := false, triggered := w.ask.triggered }
  | some r =>
    let m := markLoop allocs0 [] (r.victims.map (·.key))
    if m.2 then { allocs := m.1, result := some r, released := false, triggered := true }
    else { allocs := m.1, result := none, released := true, triggered := w.ask.triggered }

/-- TryPreemption without a plugin with `late` released between victim collection and marking -/
def tryPreemptionLate (w : World) (nodesTried : Bool) (late : List String) : TryLate :=
  finishTry w late (tryPreemptionNoPlugin w nodesTried)

/-- specification side: the allocations with the preempted flag of every allocation whose key is in `ks` set to `b` -/
def markMap (ks : List String) (b : Bool) (allocs : List PAlloc) : List PAlloc :=
  allocs.map (fun a => if ks.contains a.key then a.mark b else a)

/-- keys of the allocations marked preempted -/
def markedKeys (allocs : List PAlloc) : List String := (allocs.filter (·.preempted)).map (·.key)

/-- the ask fits `free` on every type of the ask (missing type = 0) -/
def coversAsk (free ask : Res) : Bool := ask.all (fun p => decide (p.2 ≤ free.getD p.1))

/-- what the victims of a commit free on the chosen node, together with the node's free space -/
def freedOnNode (w : World) (r : TryResult) : Res :=
  match w.nodes[r.ni]? with
  | none => []
  | some n => addX n.avail (sumRes ((r.victims.filter (fun a => a.node == r.ni)).map (·.res)))

/-- C08 "committed only if the chosen victims together with the free space of the chosen node cover the ask",
    as a check of one TryPreemption run -/
def commitCovers (w : World) (nodesTried : Bool) : Bool :=
  match tryPreemptionNoPlugin w nodesTried with
  | none => true
  | some r => coversAsk (freedOnNode w r) w.ask.res

/-! ### the guarantee rule, stated on the world (independent of the snapshot arithmetic) -/

/-- C08: the queue of a victim of queue preemption is above its guaranteed share for a type the ask needs, in the
    world as it was before the attempt (necessary for "at the moment the victim is taken": earlier victims only lower
    usage). Judged only when a queue of the victim's path that is NOT an ancestor of the ask queue sets a guarantee
    (sharing between siblings below a common guaranteed ancestor is the design). -/
def overGuaranteeSomewhere (w : World) (leaf : Nat) (askTypesOnly : Bool) : Bool :=
  (chain w leaf).any (fun j => match w.queues[j]? with
    | none => false
    | some q => match q.guar with
      | none => false
      | some g =>
        let used := (subOE (some (allocatedOf w j)) (some (preemptingOf w j))).getD []
        g.any (fun p => (!askTypesOnly || w.ask.res.has p.1) && decide (used.getD p.1 > p.2)))

def privateGuarantee (w : World) (leaf : Nat) : Bool :=
  (chain w leaf).any (fun j => !(chain w w.ask.q).contains j &&
    (match w.queues[j]? with | some q => !isEmpty q.guar | none => false))

/-- C08 for one leaf that offers or loses victims: if a queue of its path that is not shared with the ask queue sets a
    guarantee, some queue of its path is above its guaranteed share -/
def guaranteeRespected (w : World) (leaf : Nat) (askTypesOnly : Bool) : Bool :=
  !privateGuarantee w leaf || overGuaranteeSomewhere w leaf askTypesOnly

/-- every leaf that offers potential victims respects the guarantee rule (checked for one world) -/
def offersRespectGuarantee (w : World) : Bool := (eligLeaves w).all (fun l => guaranteeRespected w l.1 false)

/-- well-formed worlds (what the real queue tree guarantees): parents come before children, the ask names a queue,
    queue paths identify queues, and a queue whose path plus "." is a prefix of the ask queue's path is an ancestor of it -/
def wellFormedB (w : World) : Bool :=
  let n := w.queues.length
  (List.range n).all (fun i => match w.queues[i]? with
    | none => true
    | some q => (match q.parent with | none => true | some p => decide (p < i)) &&
      (List.range n).all (fun j => match w.queues[j]? with
        | none => true
        | some q' => q'.path != q.path || j == i) &&
      (!hasPrefixDot (pathOf w w.ask.q) q.path || (chain w w.ask.q).contains i)) &&
  decide (w.ask.q < n)

/-! ### effective queue settings, computed from the configured property texts -/

/-- what the configuration says about one queue: its parent, whether it is a leaf, and its OWN property texts -/
structure QConf where
  parent : Option Nat
  leaf : Bool
  own : Reload.Props
  deriving Repr, DecidableEq

/-- sq.properties: the queue's own properties merged over the FILTERED properties of its parent (NewConfiguredQueue:
    applyConf, mergeProperties(parent.getProperties())); the root keeps its own -/
def mergedPropsAux (qs : List QConf) : Nat → Nat → Reload.Props
  | 0, _ => []
  | f + 1, i =>
    match qs[i]? with
    | none => []
    | some q =>
      match q.parent with
      | none => q.own
      | some p => Reload.mergeProps q.own (mergedPropsAux qs f p)

def mergedProps (qs : List QConf) (i : Nat) : Reload.Props := mergedPropsAux qs (i + 1) i

/-- UpdateQueueProperties on the merged properties -/
def effSettings (qs : List QConf) (i : Nat) : Reload.Settings :=
  match qs[i]? with
  | some q => Reload.deriveSettings q.leaf (mergedProps qs i)
  | none => Reload.deriveSettings false []

/-- the rule stated directly on the configuration: the preemption.policy text of the nearest queue on the path
    (the queue itself first) that configures one -/
def nearestPolicyAux (qs : List QConf) : Nat → Nat → Option String
  | 0, _ => none
  | f + 1, i =>
    match qs[i]? with
    | none => none
    | some q =>
      match q.own.get? "preemption.policy" with
      | some v => some v
      | none => match q.parent with
        | none => none
        | some p => nearestPolicyAux qs f p

/-- a property text reads `disabled` (the conversion is case-insensitive) -/
def readsDisabled (o : Option String) : Bool := match o with | some v => Reload.lower v == "disabled" | none => false

/-- preemption is disabled for queue i: the nearest configured preemption.policy on its path reads `disabled`
    (in any spelling) -/
def inheritedDisabled (qs : List QConf) (i : Nat) : Bool := readsDisabled (nearestPolicyAux qs (i + 1) i)

/-- the configuration view of a world's queues -/
def confOf (w : World) : List QConf := w.queues.map (fun q => { parent := q.parent, leaf := q.leaf, own := q.own })

def polNum (s : String) : Nat := if s == "fence" then 1 else if s == "disabled" then 2 else 0

/-- the four settings of queue i the preemption code reads, as UpdateQueueProperties derives them from the merged
    property texts: (preemption policy, priority fence, priority offset, preemption delay in s) -/
def derivedSettings (w : World) (i : Nat) : Nat × Bool × Int × Int :=
  let st := effSettings (confOf w) i
  (polNum st.preempt, st.prioFence, st.prioOffset, ((st.preemptDelay / 1000000000 : Nat) : Int))

/-- every queue of the world carries the settings its configuration derives -/
def settingsDerived (w : World) : Bool :=
  (List.range w.queues.length).all (fun i => match w.queues[i]? with
    | some q => (q.ppol, q.prFence, q.off, q.delay) == derivedSettings w i
    | none => true)

/-! ### quota change preemption: when it is due -/

/-- timing state of one queue (seconds on a virtual clock): the maximum and quota.preemption.delay in force
    (0 = none), the scheduled start, and — ghost — the time at which the pending start was first scheduled -/
structure QuotaT where
  max : ORes
  delay : Int
  start : Option Int
  base : Option Int
  deriving Repr, DecidableEq

/-- ApplyConf (new maximum, new delay) followed by UpdateQueueProperties → setPreemptionTime, at time `now`
    (quota preemption not running) -/
def setPreemptionTime (alloc : Res) (s : QuotaT) (newMax : ORes) (newDelay : Int) (now : Int) : QuotaT :=
  let s' : QuotaT := { s with max := newMax, delay := newDelay }
  let cleared : QuotaT := { s' with start := none, base := none }
  let shifted : QuotaT := if s.delay != newDelay then { s' with start := s.start.map (· + (newDelay - s.delay)) } else s'
  if newDelay == 0 then cleared else
  if isZero newMax then cleared else
  if strictlyOnlyExisting newMax (some alloc) true then cleared else
  if equals s.max newMax false then
    (match s.start with
     | none => if s.delay == 0 && newDelay > 0 then { s' with start := some (now + newDelay), base := some now } else s'
     | some _ => shifted)
  else if strictlyGreaterThan s.max newMax then
    (match s.start with
     | some _ => shifted
     | none => { s' with start := some (now + newDelay), base := some now })
  else if strictlyGreaterThan newMax s.max then
    (match s.start with
     | some _ => shifted
     | none => s')
  else s'

/-- tryAcquirePreemption at time `now` followed by the (synchronous) preemption run: new state and whether it fired -/
def tryAcquire (managed : Bool) (alloc : Res) (s : QuotaT) (now : Int) : QuotaT × Bool :=
  if !managed then (s, false) else
  if strictlyOnlyExisting s.max (some alloc) true then ({ s with start := none, base := none }, false) else
  match s.start with
  | none => (s, false)
  | some t => if now < t then (s, false) else ({ s with start := none, base := none }, true)

inductive QuotaStep where
  | conf (max : ORes) (delay : Int)
  | advance (d : Int)
  | try
  deriving Repr, DecidableEq

/-- one step of a quota history: (state, now) → (state, now, fired) -/
def quotaStep (managed : Bool) (alloc : Res) (st : QuotaT × Int) : QuotaStep → (QuotaT × Int) × Bool
  | .conf m d => ((setPreemptionTime alloc st.1 m d st.2, st.2), false)
  | .advance d => ((st.1, st.2 + d), false)
  | .try => let r := tryAcquire managed alloc st.1 st.2; ((r.1, st.2), r.2)

/-- a quota history from `st` -/
def runQuota (managed : Bool) (alloc : Res) (st : QuotaT × Int) (steps : List QuotaStep) : QuotaT × Int :=
  steps.foldl (fun st s => (quotaStep managed alloc st s).1) st

/-- C08 timing: a scheduled start is exactly (time the pending lowering was first scheduled) + (delay in force) -/
def timingOK (s : QuotaT) : Bool :=
  match s.start, s.base with
  | some t, some b => t == b + s.delay
  | none, none => true
  | _, _ => false

/-- the two maxima are comparable (equal, lower or higher as a vector): the cases setPreemptionTime handles -/
def comparableMax (a b : ORes) : Bool := equals a b false || strictlyGreaterThan a b || strictlyGreaterThan b a

/-- the configuration step does not change the delay of a pending start across an incomparable change of the maximum -/
def goodStep (s : QuotaT) : QuotaStep → Bool
  | .conf m d => s.start.isNone || comparableMax s.max m || s.delay == d
  | _ => true

def goodHist (managed : Bool) (alloc : Res) : QuotaT × Int → List QuotaStep → Bool
  | _, [] => true
  | st, s :: t => goodStep st.1 s && goodHist managed alloc (quotaStep managed alloc st s).1 t

/-! ### required node preemption -/

def reqFilter (askRes : Res) (askPrio : Int) (ni : Nat) (a : PAlloc) : Bool :=
  a.node == ni && !a.req && decide (a.prio ≤ askPrio) && !a.preempted && matchAny (some askRes) (some a.res) false && !a.released

def askType (a : PAlloc) : Nat := if a.orig then 3 else if !a.self then 2 else 1

/-- SortAllocations up to the creation-time key (creation times are distinct) -/
def sortAllocLess (a b : PAlloc) : Bool :=
  if askType a != askType b then decide (askType a < askType b) else
  if a.prio != b.prio then decide (a.prio < b.prio) else
  decide (a.ct < b.ct)

/-- GetVictims: prefix of the sorted candidates until their total covers the ask; useful only if total + free covers it -/
def reqVictims (askRes avail : Res) (cands : List PAlloc) : List PAlloc :=
  let r := cands.foldl (fun (st : Res × List PAlloc × Bool) a =>
    if st.2.2 then st else
    if !strictlyGreaterThanOrEquals (some st.1) (some askRes) then (addX st.1 a.res, st.2.1 ++ [a], false) else (st.1, st.2.1, true)) ([], [], false)
  if !r.2.1.isEmpty && strictlyGreaterThanOrEquals (some (addX r.1 avail)) (some askRes) then r.2.1 else []

def reqCandidates (w : World) (ni : Nat) : List PAlloc :=
  sortBy sortAllocLess (w.allocs.filter (reqFilter w.ask.res w.ask.prio ni))

/-! ### quota change preemption -/

/-- setPreemptableResources for queue i whose maximum is now `newMax`; `gp` = Queue.GetPreemptableResource() -/
def queueGuarPreemptable (w : World) (i : Nat) : Res :=
  (chain w i).reverse.foldl (fun (parent : Res) j =>
    match w.queues[j]? with
    | none => parent
    | some q =>
      let own : ORes := match q.guar with
        | none => some (allocatedOf w j)
        | some g => subOE (some g) (some (allocatedOf w j))
      (componentWiseMin own (some parent)).getD []) []

def quotaPreemptable (w : World) (i : Nat) (newMax : ORes) : ORes :=
  let used := subOE (some (allocatedOf w i)) (some (preemptingOf w i))
  if isEmpty newMax || isEmpty used then none else
  let actual := (subOE newMax used).getD []
  let net : Res := (actual.filter (fun p => decide (p.2 < 0))).map (fun p => (p.1, -p.2))
  let gp := queueGuarPreemptable w i
  let netParent : Res := (gp.filter (fun p => decide (p.2 < 0))).map (fun p => (p.1, -p.2))
  let pre := componentWiseMinOnlyExisting (some net) (some netParent)
  if isEmpty pre then none else pre

/-- QuotaPreemptionContext.filterAllocations for leaf queue `leaf` with planned resource `plan` -/
def quotaFilter (plan : Res) (leaf : Nat) (a : PAlloc) : Bool :=
  a.q == leaf && matchAny (some plan) (some a.res) false && !a.req && !a.released && !a.preempted

/-- preemptVictims: the selection loop over the sorted candidates (the sort key is float valued: any order) -/
def quotaSelect (plan : Res) (cands : List PAlloc) : List PAlloc × Res :=
  cands.foldl (fun (st : List PAlloc × Res) v =>
    if !fitInMaxUndef (some plan) (some v.res) then st else
    let total := addX st.2 v.res
    if strictlyOnlyExisting (some plan) (some total) true then (st.1 ++ [v], total) else st) ([], [])

/-- the marking loop of preemptVictims over the selected victims: MarkPreempted on each; a victim that was released since
    filterAllocations listed it is skipped (`continue`): not marked, not booked as preempting. (It stays in the list
    handed to notifyRMAllocationReleased.) -/
def quotaMarkLoop (allocs : List PAlloc) : List String → List PAlloc
  | [] => allocs
  | k :: t => if isReleased allocs k then quotaMarkLoop allocs t else quotaMarkLoop (setPreempted k true allocs) t

/-- the selected victims the loop marks -/
def quotaMarked (allocs : List PAlloc) (sel : List String) : List String := sel.filter (fun k => !isReleased allocs k)

/-- quota preemption with the allocations `late` released between filterAllocations and the marking loop and `sel` the
    selected victims (`quotaSelect` of every leaf that takes part): the allocations afterwards. IncPreemptingResource is
    called for exactly the victims marked here, so `preemptingOf` of the resulting world is the queues' preempting
    resource afterwards. -/
def quotaPreemptLate (w : World) (late sel : List String) : List PAlloc := quotaMarkLoop (releaseLate late w.allocs) sel

/-- specification side: the allocations of the subtree of queue `i` that an operation marked - named by `marked` and
    not marked before -/
def newlyMarked (w : World) (marked : List String) (i : Nat) : List PAlloc :=
  w.allocs.filter (fun a => (marked.contains a.key && !a.preempted) && inSubtree w i a.q)

/-- getChildQueuesPreemptableResource, first pass, one child: the usage of the child that counts as preemptable
    (`none` = child skipped: no usage, or usage within the guarantee). With a guarantee set only the types ABOVE the
    guarantee count, by the amount above it; without a guarantee the whole usage counts. The share of the parent's plan
    handed to the child only lists types of this vector. -/
def childPreemptableUsage (w : World) (c : Nat) : Option Res :=
  match w.queues[c]? with
  | none => none
  | some q =>
    let alloc := allocatedOf w c
    if alloc.isEmpty || strictlyOnlyExisting q.guar (some alloc) true then none else
    if isEmpty q.guar then some (alloc.map (fun p => (p.1, if p.2 < 0 then -p.2 else p.2)))
    else some ((((subOE q.guar (some alloc)).getD []).filter (fun p => decide (p.2 < 0))).map (fun p => (p.1, -p.2)))

/-- setPreemptionTime on a fresh queue (no start time, old delay 0) followed by tryAcquirePreemption after `waited`:
    does quota preemption fire for queue i? -/
def quotaFires (w : World) (i : Nat) (oldMax newMax : ORes) (delaySet waited : Bool) : Bool :=
  match w.queues[i]? with
  | none => false
  | some q =>
    let alloc := allocatedOf w i
    let below := strictlyOnlyExisting newMax (some alloc) true
    let startSet := delaySet && !isZero newMax && !below &&
      (equals oldMax newMax false || strictlyGreaterThan oldMax newMax)
    q.managed && !below && startSet && waited

end Pre
end Yk
