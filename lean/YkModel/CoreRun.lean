/-
  Histories of the stepped Core model: `Op` = one operation of YkModel/CoreOps.lean / CoreOps2.lean with the decisions of
  the implementation as parameters.  The driver (YkDrv/CoreStep.lean) translates every input line of the full-stack
  harness into a list of `Op`s and steps them with `Op.apply?` from the implementation's previous state; the theorems
  (YkProofs/Core2Run.lean, YkProps/C03.lean) are about the same `Op.apply`.
-/
import YkModel.CoreOps2
namespace Yk
open Res Core

/-- one operation of the stepped model -/
inductive Op where
  | nodeCreate (id : String) (cap : Res) (schedulable : Bool)
  | nodeUpdate (id : String) (cap : Res)
  | nodeSchedulable (id : String) (b : Bool)
  | nodeRemove (id : String) (order : List (String × String))
  | foreignAdd (key node : String) (res : Res)
  | foreignRemove (key : String)
  | appAdd (a : Option CApp) (newQueues : List CQueue)
  | appRemove (app : String)
  | ask (app key : String) (res : Res) (ph : Bool) (tg reqNode : String)
  | schedAlloc (app key node : String)
  | swapStart (app realKey phKey node : String)
  | swapConfirm (app phKey : String)
  | releaseKey (app key : String)
  | release (tt : TermType) (app key : String)
  | releaseApp (tt : TermType) (app : String)
  | markReleased (app key : String) (preempted : Bool)
  | phTimeout (app : String) (ev : Option String)
  | stateTimeout (app : String)
  | cleanup
  | reserve (app key node : String)
  | unreserve (app key node : String)
  deriving Repr

/-- the state after one operation; `none`: the model refuses the scheduling decision (ask not outstanding, does not fit) -/
def Op.apply? (s : Core) : Op → Option Core
  | .nodeCreate id cap b => some (s.nodeCreate id cap b)
  | .nodeUpdate id cap => some (s.nodeUpdate id cap)
  | .nodeSchedulable id b => some (s.nodeSchedulable id b)
  | .nodeRemove id order => some (s.nodeRemove id order)
  | .foreignAdd key node res => some (s.foreignAdd key node res)
  | .foreignRemove key => some (s.foreignRemove key)
  | .appAdd a nq => some (s.appAdd a nq)
  | .appRemove app => some (s.appRemove app)
  | .ask app key res ph tg reqNode => some (s.ask app key res ph tg reqNode).1
  | .schedAlloc app key node => s.schedAlloc app key node
  | .swapStart app realKey phKey node => s.swapStart app realKey phKey node
  | .swapConfirm app phKey => some (s.swapConfirm app phKey)
  | .releaseKey app key => some (s.releaseKey app key)
  | .release tt app key => some (s.releaseKeyT tt app key)
  | .releaseApp tt app => some (s.releaseApp tt app)
  | .markReleased app key p => some (Core.markReleased s app key p)
  | .phTimeout app ev => some (s.phTimeout app ev)
  | .stateTimeout app => some (s.stateTimeout app)
  | .cleanup => some s.cleanup
  | .reserve app key node => some (s.reserve app key node)
  | .unreserve app key node => some (s.unreserve app key node)

/-- the state after one operation (a refused scheduling decision leaves the state as it is) -/
def Op.apply (s : Core) (op : Op) : Core := (op.apply? s).getD s

/-- the state after a history -/
def run (s : Core) (ops : List Op) : Core := ops.foldl Op.apply s

/-- … strictly: `none` as soon as one decision is refused (what the driver compares with the implementation) -/
def run? (s : Core) (ops : List Op) : Option Core := ops.foldlM Op.apply? s

end Yk
