/-
  Model of pkg/events/event_ringbuffer.go (field for field) and pkg/events/event_store.go, and the
  abstract specification C20 states: a history (list of all events ever added, id = index) of which
  the ids [lowest, |hist|) are available.
  Arithmetic on Nat: the code's uint64 values are assumed below 2^63 (no id wrap); every subtraction
  below is guarded exactly where the (fixed) code guards it.
-/
namespace Yk

abbrev Ev := Nat   -- an event is identified by the tag the harness put into it

structure Ring where
  events : List (Option Ev)     -- the slice, length = capacity
  capacity : Nat
  head : Nat
  full : Bool
  id : Nat
  lowestId : Nat
  resizeOffset : Nat
  deriving Repr, DecidableEq

namespace Ring

def new (cap : Nat) : Ring :=
  { events := List.replicate cap none, capacity := cap, head := 0, full := false, id := 0, lowestId := 0, resizeOffset := 0 }

def add (e : Ring) (ev : Ev) : Ring :=
  { e with
    events := e.events.set e.head (some ev)
    full := if !e.full then e.head == e.capacity - 1 else true
    lowestId := if !e.full then e.lowestId else e.lowestId + 1
    head := (e.head + 1) % e.capacity
    id := e.id + 1 }

def lastId (e : Ring) : Nat := if e.id == 0 then 0 else e.id - 1

def id2pos (e : Ring) (id : Nat) : Option Nat :=
  if id < e.lowestId || id ≥ e.id then none else some ((id - e.resizeOffset) % e.capacity)

/-- `e.events[a:b]` copied (getEntriesFromRanges) -/
def slice (l : List (Option Ev)) (a b : Nat) : List (Option Ev) := (l.drop a).take (b - a)

def getEventsFromID (e : Ring) (id count : Nat) : List (Option Ev) × Nat × Nat :=
  match e.id2pos id with
  | none => ([], e.lowestId, e.lastId)
  | some pos =>
    let count := min count e.capacity
    if e.full && pos ≥ e.head then
      let r1 := slice e.events pos (min (pos + count) e.capacity)
      let r2 := if pos + count > e.capacity then slice e.events 0 (min (pos + count - e.capacity) e.head) else []
      (r1 ++ r2, e.lowestId, e.lastId)
    else
      (slice e.events pos (min (pos + count) e.head), e.lowestId, e.lastId)

def getRecentEvents (e : Ring) (count : Nat) : List (Option Ev) :=
  let last := e.lastId
  let start := if last < count then 0 else last - count + 1
  let start := max start e.lowestId
  (e.getEventsFromID start count).1

def resize (e : Ring) (newSize : Nat) : Ring :=
  if newSize == e.capacity then e else
  let n := min (e.id - e.lowestId) newSize
  let startIndex := (e.head + e.capacity - n) % e.capacity
  let newLowest := if e.capacity < newSize then e.lowestId
                   else if e.id - e.lowestId ≤ newSize then e.lowestId else e.id - newSize
  { events := (List.range n).map (fun i => (e.events.getD ((startIndex + i) % e.capacity) none)) ++ List.replicate (newSize - n) none
    capacity := newSize
    head := n % newSize
    full := n == newSize
    id := e.id
    lowestId := newLowest
    resizeOffset := newLowest }

end Ring

/-! ### Specification -/

structure Hist where
  all : List Ev      -- every event ever added; id = index
  lowest : Nat       -- ids [lowest, all.length) are available
  cap : Nat
  deriving Repr, DecidableEq

namespace Hist
def new (cap : Nat) : Hist := { all := [], lowest := 0, cap := cap }
def add (h : Hist) (ev : Ev) : Hist :=
  { h with all := h.all ++ [ev], lowest := if h.all.length + 1 - h.lowest > h.cap then h.lowest + 1 else h.lowest }
def resize (h : Hist) (n : Nat) : Hist :=
  { h with cap := n, lowest := max h.lowest (h.all.length - n) }
def last (h : Hist) : Nat := h.all.length - 1
/-- what a query for (start, count) must return -/
def get (h : Hist) (start count : Nat) : List Ev × Nat × Nat :=
  if start < h.lowest || start ≥ h.all.length then ([], h.lowest, h.last)
  else ((h.all.drop start).take (min count h.cap), h.lowest, h.last)
end Hist

inductive RingOp where
  | add (ev : Ev)
  | resize (n : Nat)
  deriving Repr, DecidableEq

def Ring.step (e : Ring) : RingOp → Ring
  | .add ev => e.add ev
  | .resize n => e.resize n

def Hist.step (h : Hist) : RingOp → Hist
  | .add ev => h.add ev
  | .resize n => h.resize n

/-! ### EventStore -/

structure Store where
  events : List (Option Ev)
  idx : Nat
  size : Nat
  lastSize : Nat
  deriving Repr, DecidableEq

namespace Store
def new (size : Nat) : Store := { events := List.replicate size none, idx := 0, size := size, lastSize := size }
def store (s : Store) (ev : Ev) : Store :=
  if s.idx == s.events.length then s else { s with events := s.events.set s.idx (some ev), idx := s.idx + 1 }
def collect (s : Store) : List (Option Ev) × Store :=
  (s.events.take s.idx,
   { events := if s.size != s.lastSize then List.replicate s.size none else s.events, idx := 0, size := s.size, lastSize := s.size })
def setSize (s : Store) (n : Nat) : Store := { s with size := n }
end Store

end Yk
