/-
  Model of pkg/common/configs/configvalidator.go (`Validate` and everything it calls) on a tree
  datatype, plus the failure points of loading a validated configuration
  (scheduler/partition.go `initialPartitionFromConfig` / `updatePartitionDetails`,
  objects/queue.go `applyConf`, security/acl.go `NewACL`, template.FromConf, placement `newRule`).

  The tree is what `yaml.Decoder.Decode` hands to `Validate` (decoding is trusted glue): maps are
  association lists sorted by key, `nil` and empty are kept apart where the code tells them apart.
  Every function mirrors one Go function, in the order of its statements, including the order in
  which the errors are found.  Regular expressions are written out as character-class recognisers;
  their literals are tied to the source by Generated/ConfConsts.lean (T5, see the end of this file).
  Core Lean only; everything is executable (the driver runs it against the implementation).
-/
import YkModel.Res
import YkModel.Quantity
import YkModel.Generated.ConfConsts
namespace Yk.Conf
open Yk Yk.Res

/-! ### the configuration tree -/

abbrev SMap := List (String × String)

structure Limit where
  label : String
  users : Option (List String)
  groups : Option (List String)
  maxRes : Option SMap
  maxApps : Nat
  deriving Repr, DecidableEq

structure Tmpl where
  maxApps : Nat
  props : Option SMap
  g : Option SMap
  m : Option SMap
  deriving Repr, DecidableEq

/-- the fields of a `QueueConfig` except the child queues -/
structure QD where
  name : String
  parent : Bool
  g : Option SMap          -- Resources.Guaranteed (nil = not set)
  m : Option SMap          -- Resources.Max
  maxApps : Nat
  props : Option SMap
  adminACL : String
  submitACL : String
  tmpl : Tmpl
  limits : List Limit
  deriving Repr, DecidableEq

inductive QC where
  | mk (d : QD) (qs : List QC)
  deriving Repr

namespace QC
def d : QC → QD | mk d _ => d
def qs : QC → List QC | mk _ qs => qs
end QC

/-- one element of a rule chain (`PlacementRule` without its parent pointer); `ure`/`gre`: the single
    entry of the filter's user / group list compiles as a regular expression (an input: RE2 syntax is not modelled) -/
structure RuleD where
  name : String
  create : Bool
  value : String
  ftype : String
  fusers : List String
  fgroups : List String
  ure : Bool
  gre : Bool
  deriving Repr, DecidableEq

/-- a placement rule as its chain: the rule itself, its parent, the parent's parent, … -/
abbrev Rule := List RuleD

structure Part where
  name : String
  queues : Option (List QC)
  rules : List Rule
  limits : List Limit
  nsp : String
  weights : List (String × Bool)     -- resource weight name, weight < 0
  deriving Repr

/-! ### strings -/

/-- strings.ToLower on ASCII -/
def toLower (s : String) : String := String.ofList (s.toList.map Char.toLower)
def lenS (s : String) : Nat := s.toList.length

/-- strings.HasPrefix -/
def hasPrefix (s p : String) : Bool := p.toList.isPrefixOf s.toList

/-- fixedRule.initialise: the (lower case) queue name is fully qualified: it is root or starts with "root." -/
def qualifiedRT (q : String) : Bool := q == "root" || hasPrefix q "root."

/-- strings.Split(s, "."): never empty -/
def splitDotsAux : List Char → List Char → List String → List String
  | [], cur, acc => (String.ofList cur.reverse :: acc).reverse
  | c :: t, cur, acc =>
    if c == '.' then splitDotsAux t [] (String.ofList cur.reverse :: acc) else splitDotsAux t (c :: cur) acc
def splitDots (s : String) : List String := splitDotsAux s.toList [] []

def isAlphaA (c : Char) : Bool := ('a' ≤ c && c ≤ 'z') || ('A' ≤ c && c ≤ 'Z')
def isAlnumA (c : Char) : Bool := isAlphaA c || ('0' ≤ c && c ≤ '9')

/-- QueueNameRegExp `^[a-zA-Z0-9_:#/@-]{1,64}$` -/
def queueNameChar (c : Char) : Bool :=
  isAlnumA c || c == '_' || c == ':' || c == '#' || c == '/' || c == '@' || c == '-'
def validQueueName (s : String) : Bool :=
  let cs := s.toList
  decide (1 ≤ cs.length) && decide (cs.length ≤ 64) && cs.all queueNameChar

/-- UserRegExp `^[_a-zA-Z][a-zA-Z0-9:#/_.@-]*[$]?$` -/
def userChar (c : Char) : Bool :=
  isAlnumA c || c == ':' || c == '#' || c == '/' || c == '_' || c == '.' || c == '@' || c == '-'
def validUser (s : String) : Bool :=
  match s.toList with
  | [] => false
  | c :: t => (c == '_' || isAlphaA c) &&
      (t.all userChar || (t.getLast? == some '$' && t.dropLast.all userChar))

/-- GroupRegExp `^[_a-zA-Z][a-zA-Z0-9:_.-]*$` -/
def groupChar (c : Char) : Bool := isAlnumA c || c == ':' || c == '_' || c == '.' || c == '-'
def validGroup (s : String) : Bool :=
  match s.toList with
  | [] => false
  | c :: t => (c == '_' || isAlphaA c) && t.all groupChar

/-- RuleNameRegExp `^[_a-zA-Z][a-zA-Z0-9_]*$` -/
def validRuleName (s : String) : Bool :=
  match s.toList with
  | [] => false
  | c :: t => (c == '_' || isAlphaA c) && t.all (fun c => isAlnumA c || c == '_')

/-- SpecialRegExp `[\^$*+?()\[{}|]` matches somewhere -/
def specialChar (c : Char) : Bool :=
  c == '^' || c == '$' || c == '*' || c == '+' || c == '?' || c == '(' || c == ')' || c == '[' ||
  c == '{' || c == '}' || c == '|'
def hasSpecial (s : String) : Bool := s.toList.any specialChar

/-- strings.Fields: maximal runs of non-space characters -/
def fieldsAux : List Char → List Char → List (List Char) → List (List Char)
  | [], cur, acc => (if cur.isEmpty then acc else cur.reverse :: acc).reverse
  | c :: t, cur, acc =>
    if isSpaceUni c then fieldsAux t [] (if cur.isEmpty then acc else cur.reverse :: acc)
    else fieldsAux t (c :: cur) acc
def fields (cs : List Char) : List (List Char) := fieldsAux cs [] []

/-! ### errors, in the vocabulary of the error messages -/

inductive VErr where
  | dupPartition | noQueues | rootResources | topNotRoot | partLimits | acl
  | limitEmpty | limitUser | limitDupUser | limitUserAfterWildcard | limitGroup | limitDupGroup
  | limitGroupAfterWildcard | limitOnlyWildcardGroup | limitZeroRes | limitAllNull | limitAppsGtQueue
  | limitQueueMaxParse | limitResGtQueue | queueName | dupChild | parse | gGtMax | maxGtParent
  | sumGGtParentG | sumGGtMax | ruleName | filterType | filterUsers | filterGroups | fixedQualified
  | ruleNotLeaf | ruleNonExisting | ruleLastLeaf | nodeSortPolicy | weightNeg | maxAppsGtParent
  | maxAppsZero | ulimResGtParent | ulimResGtWildcard | glimResGtParent | glimResGtWildcard
  | ulimAppsGtParent | ulimAppsGtWildcard | glimAppsGtParent | glimAppsGtWildcard
  deriving Repr, DecidableEq

abbrev V := Except VErr

/-! ### resources from the configuration -/

/-- resources.NewResourceFromConf (nil map gives the empty resource); `vcore` is parsed in milli units -/
def parseConfL : SMap → Res → V Res
  | [], acc => .ok acc
  | (k, s) :: t, acc =>
    match parseQ s (k == "vcore") with
    | .ok v => parseConfL t (acc.set k v)
    | .error _ => .error .parse

def parseConf (m : Option SMap) : V Res := parseConfL (m.getD []) []

def mapLen (m : Option SMap) : Nat := (m.getD []).length

/-! ### checkACL -/

def checkACL (acl : String) : V Unit :=
  let t := trimSpace acl.toList
  if t.isEmpty || t == ['*'] then .ok ()
  else if (fields t).length > 2 then .error .acl else .ok ()

/-! ### checkLimit / checkLimits -/

def checkLimitUsers : List String → List String → V (List String)
  | [], seen => .ok seen
  | name :: t, seen =>
    if name != "*" && !validUser name then .error .limitUser
    else if seen.contains name then .error .limitDupUser
    else
      let seen := name :: seen
      if seen.contains "*" && name != "*" then .error .limitUserAfterWildcard
      else checkLimitUsers t seen

def checkLimitGroups : List String → List String → V (List String)
  | [], seen => .ok seen
  | name :: t, seen =>
    if name != "*" && !validGroup name then .error .limitGroup
    else if seen.contains name then .error .limitDupGroup
    else
      let seen := name :: seen
      if seen.contains "*" && name != "*" then .error .limitGroupAfterWildcard
      else checkLimitGroups t seen

/-- the resources of a limit as checkLimit reads them: parsed and strictly positive if the map has entries, else empty -/
def limitResOf (l : Limit) : V Res :=
  if mapLen l.maxRes != 0 then do
    let r ← parseConf l.maxRes
    if !strictlyGreaterThanZero (some r) then throw .limitZeroRes
    pure r
  else pure []

/-- checkLimit; `su`/`sg` are the existingUserName / existingGroupName maps (as lists of their keys) -/
def checkLimit (l : Limit) (su sg : List String) (q : QD) : V (List String × List String) := do
  let users := l.users.getD []
  let groups := l.groups.getD []
  if users.isEmpty && groups.isEmpty then throw .limitEmpty
  let su ← checkLimitUsers users su
  let sg ← checkLimitGroups groups sg
  if sg.contains "*" && sg.length == 1 then throw .limitOnlyWildcardGroup
  let limitRes ← limitResOf l
  if l.maxApps == 0 && mapLen l.maxRes == 0 then throw .limitAllNull
  if q.maxApps != 0 && q.maxApps < l.maxApps then throw .limitAppsGtQueue
  if q.name != "root" then
    match parseConf q.m with
    | .error _ => throw .limitQueueMaxParse
    | .ok qm => if !fitInMaxUndef (some qm) (some limitRes) then throw .limitResGtQueue
  pure (su, sg)

def checkLimitsL : List Limit → List String → List String → QD → V Unit
  | [], _, _, _ => .ok ()
  | l :: t, su, sg, q => do
    let (su, sg) ← checkLimit l su sg q
    checkLimitsL t su sg q

def checkLimits (q : QD) : V Unit := checkLimitsL q.limits [] [] q

/-! ### checkQueues -/

/-- the name loop of checkQueues: every child name is valid and unique (lower case) on its level -/
def checkNames : List QC → List String → V Unit
  | [], _ => .ok ()
  | c :: t, seen =>
    if !validQueueName c.d.name then .error .queueName
    else if seen.contains (toLower c.d.name) then .error .dupChild
    else checkNames t (toLower c.d.name :: seen)

mutual
def checkQueues : QC → V Unit
  | .mk d qs => do
    checkACL d.adminACL
    checkACL d.submitACL
    checkLimits d
    checkNames qs []
    checkQueuesL qs
def checkQueuesL : List QC → V Unit
  | [] => .ok ()
  | q :: t => do
    checkQueues q
    checkQueuesL t
end

/-! ### checkQueueResource -/

/-- checkResourceConfig -/
def checkResourceConfig (d : QD) : V (Res × Res) := do
  let g ← parseConf d.g
  let m ← parseConf d.m
  if !fitInMaxUndef (some m) (some g) then throw .gGtMax
  pure (g, m)

mutual
/-- checkQueueResource: returns the guaranteed resource that counts for the parent's sum -/
def checkQueueResource : QC → ORes → V Res
  | .mk d qs, parentM => do
    let (curG, curM0) ← checkResourceConfig d
    if !fitInMaxUndef parentM (some curM0) then throw .maxGtParent
    let curM := componentWiseMin (some curM0) parentM
    let sumG ← checkQueueResourceL qs curM []
    if !fitInMaxUndef (some curG) (some sumG) then throw .sumGGtParentG
    if !fitInMaxUndef curM (some sumG) then throw .sumGGtMax
    if isZero (some curG) then pure sumG else pure curG
/-- the loop over the children: `sumG.AddTo(childG)` -/
def checkQueueResourceL : List QC → ORes → Res → V Res
  | [], _, sumG => .ok sumG
  | q :: t, curM, sumG => do
    let childG ← checkQueueResource q curM
    checkQueueResourceL t curM (add (some sumG) (some childG))
end

/-! ### placement rules -/

def checkPlacementFilter (r : RuleD) : V Unit :=
  if r.ftype != "" && toLower r.ftype != "allow" && toLower r.ftype != "deny" then .error .filterType
  else
    let uOk := match r.fusers with
      | [u] => validUser u || (r.ure && hasSpecial u)
      | _ => true
    if !uOk then .error .filterUsers
    else
      let gOk := match r.fgroups with
        | [g] => validGroup g || (r.gre && hasSpecial g)
        | _ => true
      if !gOk then .error .filterGroups else .ok ()

/-- checkPlacementRule on a chain: name, then the parent chain, then the filter -/
def checkPlacementRule : Rule → V Unit
  | [] => .ok ()
  | r :: parents => do
    if !validRuleName r.name then throw .ruleName
    checkPlacementRule parents
    checkPlacementFilter r

structure StaticPath where
  path : String
  create : Bool
  dynamic : Bool
  deriving Repr, DecidableEq

/-- the loop of getLongestStaticPath over getRuleChain (outermost parent first) -/
def longestStaticAux : List RuleD → String → Bool → V (String × Bool)
  | [], sp, dyn => .ok (sp, dyn)
  | r :: t, sp, dyn =>
    if dyn then longestStaticAux t sp dyn
    else if r.name != "fixed" then longestStaticAux t (if sp == "" then "<dynamic>" else sp) true
    else if hasPrefix r.value "root" then
      (if sp != "" then .error .fixedQualified else longestStaticAux t r.value dyn)
    else longestStaticAux t ((if sp == "" then "root" else sp) ++ "." ++ r.value) dyn

def longestStatic (rule : Rule) : V (String × Bool) := longestStaticAux rule.reverse "" false

/-- getLongestPlacementPaths: only paths that start with "root" are kept -/
def longestPaths : List Rule → V (List StaticPath)
  | [] => .ok []
  | rule :: t => do
    let (p, dyn) ← longestStatic rule
    let rest ← longestPaths t
    if hasPrefix p "root" then
      pure ({ path := p, create := (rule.head?.map (·.create)).getD false, dynamic := dyn } :: rest)
    else pure rest

inductive PRes where
  | ok | nonExisting | notLeaf | lastLeaf
  deriving Repr, DecidableEq

/-- checkQueueHierarchyForPlacement -/
def hierarchy : List String → Bool → Bool → List QC → Option QD → PRes
  | [], _, _, _, _ => .ok      -- not reached: strings.Split never returns an empty slice
  | name :: rest, create, dyn, conf, parentD =>
    if conf.isEmpty then
      match parentD with
      | some p => if !p.parent then .lastLeaf else if !create then .nonExisting else .ok
      | none => .ok            -- not reached: the top level always holds the root queue
    else
      match conf.find? (fun q => q.d.name == name) with
      | none => if !create then .nonExisting else .ok
      | some q =>
        if rest.isEmpty then
          (if dyn then (if q.d.parent then .ok else .notLeaf)
           else (if q.d.parent then .notLeaf else .ok))
        else hierarchy rest create dyn q.qs (some q.d)

def checkStaticPaths : List StaticPath → List QC → V Unit
  | [], _ => .ok ()
  | sp :: t, queues =>
    match hierarchy (splitDots (toLower sp.path)) sp.create sp.dynamic queues none with
    | .notLeaf => .error .ruleNotLeaf
    | .nonExisting => .error .ruleNonExisting
    | .lastLeaf => .error .ruleLastLeaf
    | .ok => checkStaticPaths t queues

def checkRulesL : List Rule → V Unit
  | [] => .ok ()
  | r :: t => do checkPlacementRule r; checkRulesL t

def checkPlacementRules (rules : List Rule) (queues : List QC) : V Unit :=
  if rules.isEmpty then .ok () else do
    checkRulesL rules
    let paths ← longestPaths rules
    checkStaticPaths paths queues

/-! ### checkNodeSortingPolicy -/

def checkNodeSortingPolicy (nsp : String) (weights : List (String × Bool)) : V Unit :=
  if nsp != "fair" && nsp != "" && nsp != "binpacking" then .error .nodeSortPolicy
  else if weights.any (·.2) then .error .weightNeg else .ok ()

/-! ### checkQueueMaxApplications -/

mutual
def checkQueueMaxApps : QC → V Unit
  | .mk d qs => checkQueueMaxAppsL qs d.maxApps
def checkQueueMaxAppsL : List QC → Nat → V Unit
  | [], _ => .ok ()
  | c :: t, cur =>
    if cur != 0 && cur < c.d.maxApps then .error .maxAppsGtParent
    else if cur != 0 && c.d.maxApps == 0 then .error .maxAppsZero
    else do
      checkQueueMaxApps c
      checkQueueMaxAppsL t cur
end

/-! ### checkLimitResource and checkLimitMaxApplications

The two Go functions are the same loop over two value domains (a resource vector / an application count), each
written out once for users and once for groups.  The model is that loop, parameterised by the domain. -/

def aset {α : Type} : List (String × α) → String → α → List (String × α)
  | [], k, v => [(k, v)]
  | (k', v') :: t, k, v => if k' == k then (k', v) :: t else (k', v') :: aset t k v

structure LimDom (α : Type) where
  /-- the value of a limit entry (resources are parsed once more) -/
  val : Limit → V α
  /-- `check ex lim`: the limit is acceptable below the inherited value `ex` -/
  check : α → α → Bool
  /-- `comb lim ex`: what is handed down when the name had an inherited entry -/
  comb : α → α → α
  errParent : Bool → VErr
  errWildcard : Bool → VErr

abbrev LMap (α : Type) := List (String × α)

/-- the loop over `limit.Users` (or `limit.Groups`): lookups in the parent's map, writes to the current one -/
def limNames {α : Type} (D : LimDom α) (isGroup : Bool) : List String → α → LMap α → LMap α → V (LMap α)
  | [], _, _, cur => .ok cur
  | name :: t, lim, par, cur =>
    match par.lookup name with
    | some ex =>
      if !D.check ex lim then .error (D.errParent isGroup)
      else limNames D isGroup t lim par (aset cur name (D.comb lim ex))
    | none =>
      match (if name != "*" then par.lookup "*" else none) with
      | some ex =>
        if !D.check ex lim then .error (D.errWildcard isGroup)
        else limNames D isGroup t lim par (aset cur name lim)
      | none => limNames D isGroup t lim par (aset cur name lim)

/-- the loop over `cur.Limits` -/
def limLimits {α : Type} (D : LimDom α) : List Limit → LMap α → LMap α → LMap α → LMap α → V (LMap α × LMap α)
  | [], _, _, cu, cg => .ok (cu, cg)
  | l :: t, pu, pg, cu, cg => do
    let lim ← D.val l
    let cu ← limNames D false (l.users.getD []) lim pu cu
    let cg ← limNames D true (l.groups.getD []) lim pg cg
    limLimits D t pu pg cu cg

mutual
def checkLim {α : Type} (D : LimDom α) : QC → LMap α → LMap α → V Unit
  | .mk d qs, pu, pg => do
    let (cu, cg) ← limLimits D d.limits pu pg pu pg
    checkLimL D qs cu cg
def checkLimL {α : Type} (D : LimDom α) : List QC → LMap α → LMap α → V Unit
  | [], _, _ => .ok ()
  | c :: t, cu, cg => do
    checkLim D c cu cg
    checkLimL D t cu cg
end

/-- checkLimitResource: FitInMaxUndef against the inherited entry, ComponentWiseMin handed down -/
def resDom : LimDom Res where
  val l := parseConf l.maxRes
  check ex lim := fitInMaxUndef (some ex) (some lim)
  comb lim ex := (componentWiseMin (some lim) (some ex)).getD []
  errParent g := if g then .glimResGtParent else .ulimResGtParent
  errWildcard g := if g then .glimResGtWildcard else .ulimResGtWildcard

/-- checkLimitMaxApplications: an inherited count of 0 is no limit; the new count is handed down as it is -/
def appsDom : LimDom Nat where
  val l := .ok l.maxApps
  check ex lim := !(ex != 0 && (decide (ex < lim) || lim == 0))
  comb lim _ := lim
  errParent g := if g then .glimAppsGtParent else .ulimAppsGtParent
  errWildcard g := if g then .glimAppsGtWildcard else .ulimAppsGtWildcard

def checkLimitResource (root : QC) : V Unit := checkLim resDom root [] []
def checkLimitMaxApps (root : QC) : V Unit := checkLim appsDom root [] []

/-! ### checkQueuesStructure / checkLimitsStructure / Validate -/

def emptyTmpl : Tmpl := { maxApps := 0, props := none, g := none, m := none }

/-- the root queue inserted by checkQueuesStructure -/
def insertedRoot (qs : List QC) : QC :=
  .mk { name := "root", parent := true, g := none, m := none, maxApps := 0, props := none, adminACL := "",
        submitACL := "", tmpl := emptyTmpl, limits := [] } qs

/-- the top level queue checkQueuesStructure leaves behind: the single queue called root (any case) with its parent flag
    set, or an inserted root above whatever was there -/
def topRoot (qs : List QC) : QC :=
  match qs with
  | [.mk d cs] => if toLower d.name == "root" then .mk { d with parent := true } cs else insertedRoot qs
  | _ => insertedRoot qs

/-- checkQueuesStructure: the single top level queue after the call -/
def checkQueuesStructure (queues : Option (List QC)) : V QC :=
  match queues with
  | none => .error .noQueues
  | some qs =>
    if (topRoot qs).d.g.isSome || (topRoot qs).d.m.isSome then .error .rootResources else .ok (topRoot qs)

/-- reflect.DeepEqual on two `map[string]string`: both nil, or both non-nil with the same length and the same value for
    every key (the entries of a map have no order) -/
def smapEq (a b : Option SMap) : Bool :=
  match a, b with
  | none, none => true
  | some x, some y => x.length == y.length && x.all (fun p => y.lookup p.1 == some p.2)
  | _, _ => false

/-- reflect.DeepEqual on two `Limit` values / two `[]Limit` (slices are compared in order, nil and empty apart) -/
def limitEq (a b : Limit) : Bool :=
  a.label == b.label && a.users == b.users && a.groups == b.groups && smapEq a.maxRes b.maxRes && a.maxApps == b.maxApps

def limitsEq : List Limit → List Limit → Bool
  | [], [] => true
  | a :: t, b :: u => limitEq a b && limitsEq t u
  | _, _ => false

/-- checkLimitsStructure: partition limits are copied to a root queue without limits -/
def checkLimitsStructure (partLimits : List Limit) (root : QC) : V QC :=
  if toLower root.d.name != "root" then .error .topNotRoot
  else if !partLimits.isEmpty && !root.d.limits.isEmpty && !limitsEq partLimits root.d.limits then .error .partLimits
  else if !partLimits.isEmpty && root.d.limits.isEmpty then
    .ok (.mk { root.d with limits := partLimits } root.qs)
  else .ok root

/-- the body of the loop of Validate for one partition: the partition as written back -/
def validatePart (p : Part) : V Part := do
  let root ← checkQueuesStructure p.queues
  let root ← checkLimitsStructure p.limits root
  checkQueues root
  let _ ← checkQueueResource root none
  checkPlacementRules p.rules [root]
  checkNodeSortingPolicy p.nsp p.weights
  checkQueueMaxApps root
  checkLimitResource root
  checkLimitMaxApps root
  pure { p with queues := some [root] }

def partName (p : Part) : String :=
  if p.name == "" || toLower p.name == "default" then "default" else p.name

def validateL : List Part → List String → V (List Part)
  | [], _ => .ok []
  | p :: t, seen =>
    let p := { p with name := partName p }
    if seen.contains (toLower p.name) then .error .dupPartition
    else do
      let p' ← validatePart p
      let rest ← validateL t (toLower p.name :: seen)
      pure (p' :: rest)

/-- configs.Validate: the validated (rewritten) partitions or the first error -/
def validate (ps : List Part) : V (List Part) := validateL ps []

/-! ### loading a validated configuration: the points where it can still fail -/

inductive LErr where
  | rootName            -- partition cannot be created without root queue
  | acl                 -- security.NewACL
  | tmplParse           -- resources.NewResourceFromConf on the child template (template.FromConf)
  | queueParse          -- … on the queue's own resources (setResourcesFromConf, "this should not happen")
  | limitParse          -- … on the resources of a limit (ugm internalProcessConfig)
  | ruleUnknown | ruleRecovery | fixedEmpty | fixedQueueName | fixedQualifiedParent | tagEmpty
  deriving Repr, DecidableEq

/-- security.NewACL fails iff splitting on single spaces gives more than two fields -/
def aclLoads (s : String) : Bool := s == "" || decide ((s.toList.filter (· == ' ')).length ≤ 1)

/-- template.isMapEmpty -/
def tmplMapEmpty (m : Option SMap) : Bool := (m.getD []).all (fun p => p.1 == "" || p.2 == "")
def tmplEmpty (t : Tmpl) : Bool :=
  t.maxApps == 0 && tmplMapEmpty t.props && tmplMapEmpty t.g && tmplMapEmpty t.m

/-- both maps parse (NewResourceFromConf twice), else the given error -/
def parses2 (a b : Option SMap) (e : LErr) : Except LErr Unit :=
  match parseConf a with
  | .error _ => .error e
  | .ok _ => match parseConf b with
    | .error _ => .error e
    | .ok _ => .ok ()

/-- the two NewACL calls of applyConf -/
def loadAcl (d : QD) : Except LErr Unit :=
  if !aclLoads d.submitACL then .error .acl else if !aclLoads d.adminACL then .error .acl else .ok ()

/-- setTemplate, for queues that are not leaves -/
def loadTmpl (d : QD) (isLeaf : Bool) : Except LErr Unit :=
  if !isLeaf && !tmplEmpty d.tmpl then parses2 d.tmpl.m d.tmpl.g .tmplParse else .ok ()

/-- setResourcesFromConf, for all but the root queue -/
def loadRes (d : QD) (isRoot : Bool) : Except LErr Unit :=
  if !isRoot then parses2 d.m d.g .queueParse else .ok ()

/-- applyConf of one queue -/
def loadQueueD (d : QD) (hasChildren isRoot : Bool) : Except LErr Unit := do
  loadAcl d
  loadTmpl d (!d.parent && !hasChildren)
  loadRes d isRoot

mutual
/-- NewConfiguredQueue for the queue, then addQueue for its children (pre-order) -/
def loadQueue : QC → Bool → Except LErr Unit
  | .mk d qs, isRoot => do
    loadQueueD d (!qs.isEmpty) isRoot
    loadQueueL qs
def loadQueueL : List QC → Except LErr Unit
  | [] => .ok ()
  | q :: t => do
    loadQueue q false
    loadQueueL t
end

/-- placement.newRule on a chain -/
def loadRule : Rule → Except LErr Unit
  | [] => .ok ()
  | r :: parents =>
    let nm := toLower r.name
    if nm == "fixed" then
      let q := toLower r.value
      if q == "" then .error .fixedEmpty
      else if !(splitDots q).all validQueueName then .error .fixedQueueName
      else if qualifiedRT q && !parents.isEmpty then .error .fixedQualifiedParent
      else loadRule parents
    else if nm == "tag" then
      (if toLower r.value == "" then .error .tagEmpty else loadRule parents)
    else if nm == "user" || nm == "provided" || nm == "test" then loadRule parents
    else if nm == "recovery" then .error .ruleRecovery
    else .error .ruleUnknown

def loadRules : List Rule → Except LErr Unit
  | [] => .ok ()
  | r :: t => do loadRule r; loadRules t

def limitParses (l : Limit) : Bool := match parseConf l.maxRes with | .ok _ => true | .error _ => false

mutual
/-- ugm.Manager.internalProcessConfig: the limit resources are parsed once more -/
def loadLimits : QC → Except LErr Unit
  | .mk d qs => do
    if !d.limits.all limitParses then .error .limitParse else loadLimitsL qs
def loadLimitsL : List QC → Except LErr Unit
  | [] => .ok ()
  | q :: t => do loadLimits q; loadLimitsL t
end

/-- the queue part of newPartitionContext: initialPartitionFromConfig up to the placement manager -/
def loadQueues (p : Part) : Except LErr Unit :=
  match p.queues with
  | some (root :: _) => if root.d.name != "root" then .error .rootName else loadQueue root true
  | _ => .error .rootName

/-- NewClusterContext for one partition: a placement rule error is logged and swallowed (the partition runs
    without rules); the limits go to the user/group manager -/
def loadNew (p : Part) : Except LErr Unit := do
  loadQueues p
  match p.queues with
  | some (root :: _) => loadLimits root
  | _ => pure ()

/-- UpdateRMSchedulerConfig for one existing partition: dry run of the above, then UpdateRules, then the queues -/
def loadRunning (p : Part) : Except LErr Unit := do
  loadQueues p
  loadRules p.rules
  match p.queues with
  | some (root :: _) => loadLimits root
  | _ => pure ()

def firstErr {ε : Type} : List (Except ε Unit) → Except ε Unit
  | [] => .ok ()
  | .ok () :: t => firstErr t
  | .error e :: _ => .error e

def loadNewAll (ps : List Part) : Except LErr Unit := firstErr (ps.map loadNew)
/-- UpdateRMSchedulerConfig: partitions the running context has are updated, the others are created -/
def loadRunningAll (existing : List String) (ps : List Part) : Except LErr Unit :=
  firstErr (ps.map (fun p => if existing.contains p.name then loadRunning p else loadNew p))

/-- the rule set is active after a load into a new context -/
def rulesActive (p : Part) : Bool := match loadRules p.rules with | .ok _ => true | .error _ => false

/-! ### the documented hierarchy rules, as executable clauses on a validated tree

`walk anc q` lists every queue of the subtree of `q` together with its ancestors (nearest first).
The clauses quantify over this list; `YkProofs/Conf.lean` proves that everything `validate` accepts
satisfies them, the driver evaluates them on the tree the implementation returns. -/

mutual
def walk : List QD → QC → List (List QD × QC)
  | anc, .mk d qs => (anc, .mk d qs) :: walkL (d :: anc) qs
def walkL : List QD → List QC → List (List QD × QC)
  | _, [] => []
  | anc, q :: t => walk anc q ++ walkL anc t
end

/-- the quantity a resource map of the configuration gives to a type (none: type not mentioned, or the map does not parse) -/
def qty (m : Option SMap) (t : String) : Option Int :=
  match parseConf m with
  | .ok r => r.get? t
  | .error _ => none

def typesOf (m : Option SMap) : List String := (m.getD []).map Prod.fst

/-- `a ≤ b` where both are defined -/
def leDef (a b : Option Int) : Bool :=
  match a, b with
  | some x, some y => decide (x ≤ y)
  | _, _ => true

/-- sum of the guaranteed quantities the children give to type `t` -/
def sumGuaranteed (qs : List QC) (t : String) : Int :=
  (qs.map (fun c => (qty c.d.g t).getD 0)).sum

/-- limit entries of a queue that name `name` as a user (or group) -/
def limitsFor (isGroup : Bool) (d : QD) (name : String) : List Limit :=
  d.limits.filter (fun l => ((if isGroup then l.groups else l.users).getD []).contains name)

/-! ### tie of the literals (T5): the recognisers above were written for exactly these source literals -/

example : Gen.confQueueNameRegExp = "^[a-zA-Z0-9_:#/@-]{1,64}$" := rfl
example : Gen.confUserRegExp = "^[_a-zA-Z][a-zA-Z0-9:#/_.@-]*[$]?$" := rfl
example : Gen.confGroupRegExp = "^[_a-zA-Z][a-zA-Z0-9:_.-]*$" := rfl
example : Gen.confSpecialRegExp = "[\\^$*+?()\\[{}|]" := rfl
example : Gen.confRuleNameRegExp = "^[_a-zA-Z][a-zA-Z0-9_]*$" := rfl
example : Gen.confRootQueue = "root" ∧ Gen.confDOT = "." ∧ Gen.confDefaultPartition = "default" := ⟨rfl, rfl, rfl⟩
example : [Gen.ruleFixed, Gen.ruleUser, Gen.ruleProvided, Gen.ruleTag, Gen.ruleTest, Gen.ruleRecovery] =
    ["fixed", "user", "provided", "tag", "test", "recovery"] := rfl
example : Gen.nodeSortPolicies = ["binpacking", "fair"] := rfl

end Yk.Conf
