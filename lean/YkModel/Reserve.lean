/-
  C09 — the four views of a reservation (application, node, queue, partition counter) as one small machine:
  partition.reserve = application.Reserve (which reserves the node) + queue.Reserve + counter++,
  partition.unReserve = application.UnReserve (which unreserves the node) + queue.UnReserve(num) + counter -= num.
-/
namespace Yk

structure RState where
  app : List (String × String × String) := []   -- (application, ask key, node): application.reservations
  node : List (String × String) := []           -- (node, ask key): node.reservations
  queue : List (String × Nat) := []             -- application ↦ reservations counted by its leaf queue
  part : Nat := 0                               -- partition reservation counter
  required : List String := []                  -- ask keys that require a specific node
  deriving Repr, DecidableEq

namespace RState

def nodeKeys (s : RState) (n : String) : List String := (s.node.filter (·.1 == n)).map (·.2)
def askReserved (s : RState) (key : String) : Bool := s.app.any (·.2.1 == key)
def queueCount (s : RState) (a : String) : Nat := (s.queue.lookup a).getD 0
def setQueue (s : RState) (a : String) (n : Nat) : List (String × Nat) :=
  if n == 0 then s.queue.filter (·.1 != a) else (a, n) :: s.queue.filter (·.1 != a)

/-- node.Reserve guard: a normal ask needs an unreserved node; a required-node ask may join other required-node asks -/
def nodeAccepts (s : RState) (node key : String) : Bool :=
  let others := s.nodeKeys node
  if s.required.contains key then others.all (fun k => s.required.contains k) else others.isEmpty

/-- partition.reserve: refused (state unchanged) when the ask already holds a reservation or the node does not accept it -/
def reserve (s : RState) (a key node : String) : RState :=
  if s.askReserved key || !(s.nodeAccepts node key) then s else
  { s with app := (a, key, node) :: s.app, node := (node, key) :: s.node,
           queue := s.setQueue a (s.queueCount a + 1), part := s.part + 1 }

/-- partition.unReserve -/
def unreserve (s : RState) (a key node : String) : RState :=
  if !(s.app.contains (a, key, node)) then s else
  { s with app := s.app.filter (· != (a, key, node)), node := s.node.filter (· != (node, key)),
           queue := s.setQueue a (s.queueCount a - 1), part := s.part - 1 }

inductive ROp where
  | reserve (a key node : String)
  | unreserve (a key node : String)
  | markRequired (key : String)          -- a new ask that requires a node (before it is ever reserved)
  deriving Repr, DecidableEq

def step (s : RState) : ROp → RState
  | .reserve a k n => s.reserve a k n
  | .unreserve a k n => s.unreserve a k n
  | .markRequired k => if s.askReserved k then s else { s with required := k :: s.required }

/-- the executable statement: the views describe the same set -/
def consistent (s : RState) : Bool :=
  s.app.all (fun r => s.node.contains (r.2.2, r.2.1)) &&
  s.node.all (fun r => s.app.any (fun x => x.2.1 == r.2 && x.2.2 == r.1)) &&
  s.app.all (fun r => s.queueCount r.1 == (s.app.filter (·.1 == r.1)).length) &&
  s.queue.all (fun q => q.2 == (s.app.filter (·.1 == q.1)).length && q.2 != 0) &&
  s.part == s.app.length

end RState

/-! ### placeholder bookkeeping of one task group (C06: replaced never exceeds the number of placeholders) -/

structure PhData where
  count : Nat := 0
  replaced : Nat := 0
  timedOut : Nat := 0
  pendingAsks : Nat := 0      -- placeholder asks not yet allocated
  allocated : Nat := 0        -- placeholder allocations not yet removed
  cancelled : Nat := 0        -- placeholder asks removed by the RM before they were allocated
  deriving Repr, DecidableEq

inductive PhOp where
  | ask            -- a placeholder ask is added (addPlaceholderData: Count++)
  | allocate       -- a pending placeholder ask is allocated
  | replaced       -- an allocated placeholder is removed with PLACEHOLDER_REPLACED (Replaced++)
  | removed        -- an allocated placeholder is removed with any other termination type (TimedOut++)
  | askTimedOut    -- a pending placeholder ask is dropped by the placeholder timeout (TimedOut++)
  | askCancelled   -- a pending placeholder ask is removed by the RM
  deriving Repr, DecidableEq

def PhData.step (d : PhData) : PhOp → PhData
  | .ask => { d with count := d.count + 1, pendingAsks := d.pendingAsks + 1 }
  | .allocate => if d.pendingAsks == 0 then d else { d with pendingAsks := d.pendingAsks - 1, allocated := d.allocated + 1 }
  | .replaced => if d.allocated == 0 then d else { d with allocated := d.allocated - 1, replaced := d.replaced + 1 }
  | .removed => if d.allocated == 0 then d else { d with allocated := d.allocated - 1, timedOut := d.timedOut + 1 }
  | .askTimedOut => if d.pendingAsks == 0 then d else { d with pendingAsks := d.pendingAsks - 1, timedOut := d.timedOut + 1 }
  | .askCancelled => if d.pendingAsks == 0 then d else { d with pendingAsks := d.pendingAsks - 1, cancelled := d.cancelled + 1 }

end Yk
