/-
  C14 lock-order policy: the hand-written part that is checked against the REGENERATED table
  `Yk.Gen.LockOrder.edges` (YkModel/Generated/LockOrder.lean, translator T4 = extract/lockorder.go).

    * `rankTable`   the rank of every lock class (by NAME, so that the file survives classes coming and going:
                    an unknown class gets rank 0 and every edge INTO it is then unrankable);
    * `knownBad`    edges that cannot be ranked and are GENUINE (confirmed by a replay on the real code) — none at present;
    * `excluded`    edges that cannot be ranked and are INFEASIBLE, each with its reason — part of the trusted base,
                    printed by ./check C14.
  An edge of the table that is neither ranked nor matched by a pattern is reported by the driver as `C14.unranked-edge`.
  Used by the driver (YkDrv/LockDrv.lean) and by the property theorems (YkProps/C14.lean).
-/
import YkModel.Generated.LockOrder
namespace Yk.LockPolicy
open Yk.Gen.LockOrder

/-- class ranks: a thread may acquire a lock of a higher rank while holding one of a lower rank -/
def rankTable : List (String × Nat) := [
  ("webservice.stateDump", 5),
  ("scheduler.ClusterContext", 10),
  ("scheduler.HealthChecker", 12),
  ("placement.AppPlacementManager", 15),
  ("scheduler.PartitionContext", 20),
  ("objects.Application", 30),
  ("objects.baseNodeCollection", 35),
  ("objects.Node", 40),
  ("objects.Queue", 50),
  ("objects.Allocation", 60),
  ("ugm.Manager", 70),
  ("ugm.UserTracker", 72),
  ("ugm.GroupTracker", 74),
  ("rmproxy.RMProxy", 76),
  ("plugins.SchedulerPlugins", 78),
  ("objects.AppQueueMapping", 80),
  ("security.UserGroupCache.lock", 80),
  ("resources.TrackedResource", 80),
  ("metrics.Metrics.lock", 82),
  ("metrics.QueueMetrics.lock", 84),
  ("metrics.SchedulerMetrics.lock", 84),
  ("events.EventSystemImpl", 86),
  ("events.EventStreaming", 88),
  ("events.EventStore", 88),
  ("events.eventRingBuffer", 88),
  ("history.InternalMetricsHistory", 88),
  ("webservice.StreamingLimiter", 90),
  ("configs.SchedulerConfigContext.lock", 92),
  ("configs.configMapLock", 95),
  ("locking.errorBuf", 99)]

def rankOfName (n : String) : Nat := (rankTable.lookup n).getD 0

def rank (c : Cls) : Nat := rankOfName c.name

/-- classes whose instances form a tree and are locked child before parent (`up`) -/
def treeUp : List String := ["objects.Queue"]

/-- an edge respects the order: strictly increasing class rank, or — inside a tree class — from a queue to one of its
    ancestors -/
def rankOK (e : Edge) : Bool :=
  rank e.held < rank e.acq || (e.held == e.acq && e.rel == .up && treeUp.contains e.held.name)

/-- a pattern for edges of the table; "" / [] = any -/
structure Pat where
  id : String
  held : String
  acq : String
  rel : Rel
  holders : List String := []   -- [] = any holding function
  locker : String := ""
  via : String := ""
  why : String

def Pat.matches (p : Pat) (e : Edge) : Bool :=
  p.rel == e.rel && p.held == e.held.name && p.acq == e.acq.name &&
  (p.holders.isEmpty || p.holders.contains e.holder) && (p.locker == "" || p.locker == e.locker) && (p.via == "" || p.via == e.via)

/-- GENUINE lock-order violations of the current tree, each replayed on the real code by `harness -c lock`.
    Empty since fix d47df11 removed the ClusterContext -> ClusterContext self edge (partitionManager.Stop -> remove ->
    cc.removePartition under cc.Lock); a lock-order violation found later and kept as a known finding goes here. -/
def knownBad : List Pat := []

/-- the functions that hold an application lock for a scheduling cycle; they run on the scheduling goroutine only
    (Scheduler.internalSchedule -> ClusterContext.schedule -> PartitionContext.tryAllocate / tryReservedAllocate /
    tryPlaceholderAllocate -> Queue.Try* -> Application.try*) -/
def schedulingCycle : List String := ["(*scheduler/objects.Application).tryAllocate", "(*scheduler/objects.Application).tryReservedAllocate", "(*scheduler/objects.Application).tryPlaceholderAllocate"]

/-- unrankable edges that are INFEASIBLE; the reasons are part of the trusted base -/
def excluded : List Pat := [
  { id := "app-string-via-fsm", held := "objects.Application", acq := "objects.Application", rel := .unknown,
    locker := "(*scheduler/objects.Application).GetSubmissionTime", via := "(*looplab/fsm.FSM).Event",
    why := "over-approximation: HandleApplicationEvent hands the application to looplab/fsm.FSM.Event as an event argument while holding its lock; the call graph lets fsm reach fmt's Stringer dispatch and hence Application.String() (-> GetSubmissionTime -> RLock). looplab/fsm v1.0.3 never formats event arguments (its errors carry event and state names only); the callbacks it does call are analysed (they use the unlocked internals)" },
  { id := "app-string-nil-guard-log", held := "objects.Application", acq := "objects.Application", rel := .unknown,
    holders := ["(*scheduler/objects.Application).Reserve"], locker := "(*scheduler/objects.Application).GetSubmissionTime",
    why := "infeasible: newReservation / Node.Reserve log zap.Stringer(\"app\", app) only in their nil-guard branch (node, app or ask is nil); Application.Reserve returns before taking its lock when node or ask is nil, and passes itself as app; Application.String() returns before locking for a nil receiver" },
  { id := "node-app-string-nil-guard-log", held := "objects.Node", acq := "objects.Application", rel := .other,
    holders := ["(*scheduler/objects.Node).Reserve"], locker := "(*scheduler/objects.Application).GetSubmissionTime",
    why := "infeasible in the core: same nil-guard log statements; Node.Reserve is only called from Application.reserveInternal with a non-nil application and ask (a direct call Node.Reserve(app, nil) from outside would lock Node then Application, against the order)" },
  { id := "app-other-app-scheduler-only", held := "objects.Application", acq := "objects.Application", rel := .unknown,
    holders := schedulingCycle, locker := "(*scheduler/objects.Application).UnReserve",
    why := "two different applications: tryAllocate / tryReservedAllocate / tryPlaceholderAllocate (application lock held) cancel reservations of OTHER applications on a node (cancelReservations and Preemptor.initWorkingState skip / special-case the own application, fix be72f7c). Only the single scheduling goroutine (Scheduler.internalSchedule -> ClusterContext.schedule) ever takes a second Application lock while holding one, so no second thread can close a cycle of Application locks; every other lock it waits for is ranked above Application" },
  { id := "app-other-app-getqueue", held := "objects.Application", acq := "objects.Application", rel := .unknown,
    holders := schedulingCycle, locker := "(*scheduler/objects.Application).GetQueue",
    why := "same paths as app-other-app-scheduler-only (res.app.GetQueue() of the other application whose reservation is cancelled), scheduling goroutine only" },
  { id := "app-other-app-victims", held := "objects.Application", acq := "objects.Application", rel := .unknown,
    holders := schedulingCycle, locker := "(*scheduler/objects.Application).GetAllAllocations",
    why := "two different applications: Queue.findEligiblePreemptionVictims reads the allocations of the applications of OTHER leaf queues (it returns at once for the queue of the asking application) inside tryAllocate -> tryPreemption; scheduling goroutine only, read lock" }]

def isKnownBad (e : Edge) : Bool := knownBad.any (·.matches e)
def isExcluded (e : Edge) : Bool := excluded.any (·.matches e)

/-- edges the rank theorem is about: everything that is not a known finding or an exclusion -/
def inScope (e : Edge) : Bool := !(isKnownBad e || isExcluded e)

/-- edges of the regenerated table that are in scope and NOT ranked: must be empty -/
def unranked : List Edge := edges.filter (fun e => inScope e && !rankOK e)

/-- classes of the regenerated table without an entry in `rankTable` -/
def unknownClasses : List String := (allClasses.map Cls.name).filter (fun n => (rankTable.lookup n).isNone)

def modeStr : LockMode → String
  | .R => "R"
  | .W => "W"

def relStr : Rel → String
  | .other => "other" | .same => "same" | .up => "up" | .down => "down" | .unknown => "unknown"

/-- printable identity of an edge (no spaces) -/
def edgeIdent (e : Edge) : String :=
  let f := fun (s : String) => s.replace " " ""
  s!"{e.held.name}({modeStr e.heldMode})->{e.acq.name}({modeStr e.acqMode})/{relStr e.rel}" ++
  (if e.holder == "" then "" else s!"/{f e.holder}=>{f e.locker}" ++ (if e.via == "" then "" else s!"/via:{f e.via}"))

end Yk.LockPolicy
