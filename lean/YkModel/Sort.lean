/-
  Model of the scheduling order (C19): the comparators of pkg/scheduler/objects/sorters.go over the documented sort
  keys, `sort.SliceStable` as a stable insertion sort, the sorted request list of an application
  (sorted_asks.go + Allocation.LessThan) and the node iteration order.
  Float-valued keys (fair share, node score) are represented by their rank (an Int): only their order matters.
-/
import YkModel.Res
namespace Yk
open Res

/-- sort keys of a queue candidate -/
structure QKey where
  id : String
  prio : Int
  share : Int          -- rank of the fair share (CompUsageRatioSeparately compares two floats)
  pending : Res
  deriving Repr, DecidableEq

/-- `StrictlyGreaterThan(Sub(l.pending, r.pending), Zero)`: the last tie-break of the fair queue policies -/
def pendingGt (l r : QKey) : Bool := strictlyGreaterThan (some (sub (some l.pending) (some r.pending))) (some [])

def qLessPrio (l r : QKey) : Bool := decide (l.prio > r.prio)

def qLessPrioFair (l r : QKey) : Bool :=
  if l.prio > r.prio then true else if l.prio < r.prio then false
  else if l.share == r.share then pendingGt l r else decide (l.share < r.share)

def qLessFairPrio (l r : QKey) : Bool :=
  if l.share == r.share then
    (if l.prio > r.prio then true else if l.prio < r.prio then false else pendingGt l r)
  else decide (l.share < r.share)

/-- sort keys of an application candidate -/
structure AKey where
  id : String
  prio : Int           -- askMaxPriority
  submit : Int         -- submission time
  share : Int          -- rank of the usage share vector (CompUsageRatio)
  deriving Repr, DecidableEq

def aLessFairPrio (l r : AKey) : Bool := if l.share != r.share then decide (l.share < r.share) else decide (l.prio > r.prio)
def aLessPrioFair (l r : AKey) : Bool := if l.prio > r.prio then true else if l.prio < r.prio then false else decide (l.share < r.share)
def aLessSubmitPrio (l r : AKey) : Bool := if l.submit < r.submit then true else if r.submit < l.submit then false else decide (l.prio > r.prio)
def aLessPrioSubmit (l r : AKey) : Bool := if l.prio > r.prio then true else if l.prio < r.prio then false else decide (l.submit < r.submit)

/-- stable insertion sort: `x` goes before the first element it is strictly less than -/
def insertStable {α} (lt : α → α → Bool) (x : α) : List α → List α
  | [] => [x]
  | y :: t => if lt x y then x :: y :: t else y :: insertStable lt x t

def stableSort {α} (lt : α → α → Bool) (l : List α) : List α := l.foldl (fun acc x => insertStable lt x acc) []

/-- no inversion: a later element is never strictly less than an earlier one -/
def sortedBy {α} (lt : α → α → Bool) : List α → Bool
  | [] => true
  | x :: t => t.all (fun y => !lt y x) && sortedBy lt t

/-- strict weak order on the elements of a candidate set (executable: the driver evaluates it on each set) -/
def isSWO {α} (lt : α → α → Bool) (l : List α) : Bool :=
  l.all (fun x => !lt x x) &&
  l.all (fun x => l.all (fun y => l.all (fun z => !(lt x y && lt y z) || lt x z))) &&
  l.all (fun x => l.all (fun y => l.all (fun z => !(!lt x y && !lt y x && !lt y z && !lt z y) || (!lt x z && !lt z x))))

/-! ### asks of an application -/

structure AskKey where
  key : String
  prio : Int
  ctime : Int
  deriving Repr, DecidableEq

/-- Allocation.LessThan: lower precedence (lower priority, or same priority and not older) -/
def askLessThan (a o : AskKey) : Bool := if a.prio == o.prio then decide (a.ctime ≥ o.ctime) else decide (a.prio < o.prio)

/-- sortedRequests.insert: append when the ask is less than the last one, otherwise before the first entry that is less than it -/
def askInsert (s : List AskKey) (a : AskKey) : List AskKey :=
  match s.getLast? with
  | some last => if askLessThan a last then s ++ [a] else
      let idx := (s.findIdx? (fun x => askLessThan x a)).getD s.length
      s.take idx ++ [a] ++ s.drop idx
  | none => [a]

def askRemove (s : List AskKey) (key : String) : List AskKey :=
  match s.findIdx? (fun x => x.key == key) with
  | some i => s.take i ++ s.drop (i + 1)
  | none => s

/-- the documented order: priority descending, then creation time ascending -/
def askBefore (a b : AskKey) : Bool := decide (a.prio > b.prio) || (a.prio == b.prio && decide (a.ctime < b.ctime))

/-! ### the priority of a queue (queue.go: priorityValueByPolicy, recalculatePriority; application.go: askMaxPriority) -/

def minPrio : Int := -2147483648
def maxPrio : Int := 2147483647

/-- the clamp of priorityValueByPolicy: the sum is taken in int64 and cut to the int32 range -/
def clampPrio (x : Int) : Int := if x > maxPrio then maxPrio else if x < minPrio then minPrio else x

/-- `priorityValueByPolicy(policy, offset, priority)`: MinPriority stays, a fence reports its offset, else offset + priority
    saturating at the int32 bounds -/
def priorityValue (fence : Bool) (offset prio : Int) : Int :=
  if prio == minPrio then prio else if fence then offset else clampPrio (offset + prio)

/-- the maximum recalculatePriority / updateAskMaxPriority take, starting from MinPriority -/
def maxPriority (items : List Int) : Int := items.foldl (fun curr v => max v curr) minPrio

/-- the entries of an application (`Application.requests`): priority and whether the entry is allocated (bound to a
    node: allocated by the scheduler, or recovered / placed by the RM). Outstanding = not allocated. -/
def outstanding (entries : List (Int × Bool)) : List Int := (entries.filter (fun e => !e.2)).map (·.1)

/-- `Application.askMaxPriority`: the largest priority of the OUTSTANDING asks — allocated entries do not count -/
def askMaxPriority (entries : List (Int × Bool)) : Int := maxPriority (outstanding entries)

/-- a leaf queue: policy, offset and per application the priorities of its pending asks -/
structure PrioLeaf where
  fence : Bool
  offset : Int
  apps : List (List Int)
  deriving Repr, DecidableEq

/-- currentPriority of a leaf: the largest askMaxPriority of its applications -/
def PrioLeaf.current (l : PrioLeaf) : Int := maxPriority (l.apps.map maxPriority)
/-- what the leaf reports to its parent (and GetCurrentPriority) -/
def PrioLeaf.value (l : PrioLeaf) : Int := priorityValue l.fence l.offset l.current

/-- a child queue of the sorted parent: a leaf, or a parent of leaf queues -/
structure PrioQueue where
  fence : Bool
  offset : Int
  leaf : Bool
  apps : List (List Int)
  kids : List PrioLeaf
  deriving Repr, DecidableEq

def PrioQueue.current (q : PrioQueue) : Int :=
  if q.leaf then maxPriority (q.apps.map maxPriority) else maxPriority (q.kids.map (·.value))
/-- `GetCurrentPriority()`: the key sortQueue reads -/
def PrioQueue.value (q : PrioQueue) : Int := priorityValue q.fence q.offset q.current

/-! ### children a parent queue offers to the scheduling cycle (queue.go: sortQueues, GetFairMaxResource) -/

/-- `internalGetFairMaxResource(limit)`: a clone of the parent's value with the queue's own max merged over it (the
    child wins every collision); the own max is ignored when it is nil/empty or when the parent's value is nil/empty. -/
def fairMaxMerge (limit own : ORes) : ORes :=
  if isEmpty own || isEmpty limit then limit
  else some ((orZero own).foldl (fun out p => out.set p.1 p.2) (orZero limit))

/-- `GetFairMaxResource` of the queue whose ancestors below the root have the own maxima `anc` (top down):
    the root's value is a clone of its max, every queue on the way down merges its own max. -/
def fairMaxChain (rootMax : ORes) (anc : List ORes) : ORes := anc.foldl fairMaxMerge rootMax

/-- `GetFairMaxResource` of a child: a function of the maxima of its ancestors and of its own max, nothing else. -/
def fairMaxOf (rootMax : ORes) (anc : List ORes) (own : ORes) : ORes := fairMaxMerge (fairMaxChain rootMax anc) own

/-- a fair share: the float `num / den` of getFairShare as an exact fraction (`den > 0`) -/
structure Share where
  num : Int
  den : Int
  deriving Repr, DecidableEq

def shareLt (a b : Share) : Bool := decide (a.num * b.den < b.num * a.den)
def shareEq (a b : Share) : Bool := !shareLt a b && !shareLt b a

/-- `getShareFairForDenominator(resourceType, allocated, denominatorResources)`; `none` = not found -/
def shareForDen (k : String) (alloc : Int) (den : ORes) : Option Share :=
  match den with
  | none => none
  | some d =>
    match d.get? k with
    | some v => if v ≤ 0 then (if alloc ≤ 0 then some ⟨0, 1⟩ else some ⟨1, 1⟩) else some ⟨alloc, v⟩
    | none => none

/-- `getFairShare(allocated, guaranteed, fair)`: the largest ratio over the allocated types, against the guarantee
    when it names the type, else against the fair max; types with negative usage or without denominator are skipped -/
def fairShare (allocated guaranteed fair : ORes) : Share :=
  (orZero allocated).foldl (fun (mx : Share) (p : String × Int) =>
    if p.2 < 0 then mx else
      match (shareForDen p.1 p.2 guaranteed).orElse (fun _ => shareForDen p.1 p.2 fair) with
      | some s => if shareLt mx s then s else mx
      | none => mx) (⟨0, 1⟩ : Share)

/-- what sortQueues reads of a child queue -/
structure Child where
  name : String
  max : ORes            -- own max (maxResource)
  guaranteed : ORes
  allocated : ORes
  pending : ORes
  prio : Int            -- GetCurrentPriority
  stopped : Bool        -- state Stopped (Active and Draining are both scheduled)
  deriving Repr, DecidableEq

def cPendingGt (l r : Child) : Bool := strictlyGreaterThan (some (sub l.pending r.pending)) (some [])

/-- the comparator of `sortQueue(queues, fairMax, sortType, considerPriority)` on two children; `fm` is the fair max
    the comparator uses for a child (production: `fairMaxByQueue` over the slice built by sortQueues) -/
def childLess (fair prio : Bool) (fm : Child → ORes) (l r : Child) : Bool :=
  let ls := fairShare l.allocated l.guaranteed (fm l)
  let rs := fairShare r.allocated r.guaranteed (fm r)
  if fair then
    if prio then
      (if l.prio > r.prio then true else if l.prio < r.prio then false
       else if shareEq ls rs then cPendingGt l r else shareLt ls rs)
    else
      (if shareEq ls rs then
         (if l.prio > r.prio then true else if l.prio < r.prio then false else cPendingGt l r)
       else shareLt ls rs)
  else if prio then decide (l.prio > r.prio) else false

/-- the candidates: not stopped, pending strictly greater than zero -/
def offeredCands (cs : List Child) : List Child :=
  cs.filter (fun c => !c.stopped && strictlyGreaterThanZero c.pending)

/-- the parallel slice `sortedMaxFairResources`: entry i is `candidates[i].GetFairMaxResource()` -/
def fairMaxSlice (parentFair : ORes) (cands : List Child) : List ORes := cands.map (fun c => fairMaxMerge parentFair c.max)

/-- `fairMaxByQueue(queues, fairMaxResources)[q]`: a Go map from the queue (its name is its identity among siblings)
    to the entry at its position; a missing key reads nil -/
def fairMaxByQueue (cands : List Child) (fms : List ORes) (c : Child) : ORes :=
  (((cands.map (·.name)).zip fms).lookup c.name).getD none

/-- `Queue.sortQueues()` of a parent whose fair max chain is (rootMax, anc), over the children `cs` in the order the
    map iteration presented them -/
def offeredSorted (rootMax : ORes) (anc : List ORes) (fair prio : Bool) (cs : List Child) : List Child :=
  let cands := offeredCands cs
  let fms := fairMaxSlice (fairMaxChain rootMax anc) cands
  stableSort (childLess fair prio (fairMaxByQueue cands fms)) cands

/-- the share of a child from its OWN keys: allocated against guaranteed, else against its own fair max -/
def ownShare (rootMax : ORes) (anc : List ORes) (c : Child) : Share :=
  fairShare c.allocated c.guaranteed (fairMaxOf rootMax anc c.max)

/-- the comparator on the children's OWN keys: allocated, guaranteed, own fair max, pending, priority -/
def ownLess (rootMax : ORes) (anc : List ORes) (fair prio : Bool) (l r : Child) : Bool :=
  childLess fair prio (fun c => fairMaxOf rootMax anc c.max) l r

/-- a child as a candidate of the `queues` model: its share enters as a rank -/
def toQKey (rank : Child → Int) (c : Child) : QKey := ⟨c.name, c.prio, rank c, orZero c.pending⟩

/-- a breaking variant (NOT the code): one fair-max object shared by all siblings — every child merges its own max
    into the same accumulator and every entry of the slice is that accumulator's final value -/
def fairMaxSliceShared (parentFair : ORes) (cands : List Child) : List ORes :=
  let acc := cands.foldl (fun a c => fairMaxMerge a c.max) parentFair
  cands.map (fun _ => acc)

/-! ### the score of a node (node.go: GetResourceUsageShares, refreshAvailableResource; nodesorting.go: absResourceUsage) -/

/-- what the node sorting policies read of a node -/
structure NodeKey where
  id : String
  cap : Res          -- totalResource
  allocated : Res
  occupied : Res
  deriving Repr, DecidableEq

/-- `refreshAvailableResource`: total - allocated - occupied, PRUNED (a type without anything left has no entry) -/
def nodeAvail (n : NodeKey) : Res := prune (sub (some (sub (some n.cap) (some n.allocated))) (some n.occupied))

def fracAdd (a b : Share) : Share := ⟨a.num * b.den + b.num * a.den, a.den * b.den⟩

/-- the weighted resource types of a capacity: (weight, type, total) for every type of the capacity with a weight other
    than zero (`absResourceUsage` skips the others); a total of zero is skipped (NaN share) -/
def weightedTypes (weights cap : Res) : List (Int × String × Int) :=
  cap.filterMap (fun (p : String × Int) => match weights.get? p.1 with
    | some w => if w == 0 || p.2 == 0 then none else some (w, p.1, p.2)
    | none => none)

/-- the usage share of one type as `GetResourceUsageShares` computes it from the pruned available resource:
    1 - available/total, a MISSING available entry reads 0, i.e. the type is fully used -/
def usageShare (avail : Res) (k : String) (total : Int) : Share := ⟨total - avail.getD k, total⟩

/-- Σ weight · share over the weighted types, as an exact fraction -/
def weightedUsageSum (avail : Res) (terms : List (Int × String × Int)) : Share :=
  terms.foldl (fun (acc : Share) (t : Int × String × Int) => fracAdd acc ⟨t.1 * (usageShare avail t.2.1 t.2.2).num, (usageShare avail t.2.1 t.2.2).den⟩) (⟨0, 1⟩ : Share)

/-- `absResourceUsage(node, weights)`: the weighted mean of the usage shares (0 without weighted type) -/
def nodeUsage (weights : Res) (n : NodeKey) : Share :=
  let terms := weightedTypes weights n.cap
  let tw := (terms.map (·.1)).foldl (· + ·) 0
  if tw == 0 then ⟨0, 1⟩
  else let s := weightedUsageSum (nodeAvail n) terms; ⟨s.num, s.den * tw⟩

/-- `ScoreNode`: fair = the usage, binpacking = 1 - usage -/
def nodeScore (binpacking : Bool) (weights : Res) (n : NodeKey) : Share :=
  let u := nodeUsage weights n
  if binpacking then ⟨u.den - u.num, u.den⟩ else u

/-- the order of the sorted node tree: ascending score, ties by node id -/
def nodeBefore (binpacking : Bool) (weights : Res) (a b : NodeKey) : Bool :=
  shareLt (nodeScore binpacking weights a) (nodeScore binpacking weights b) ||
  (shareEq (nodeScore binpacking weights a) (nodeScore binpacking weights b) && decide (a.id < b.id))

def nodeOrder (binpacking : Bool) (weights : Res) (nodes : List NodeKey) : List NodeKey :=
  stableSort (nodeBefore binpacking weights) nodes

/-- the model covers capacities that are positive for every weighted type and positive weights -/
def nodeModelled (weights : Res) (n : NodeKey) : Bool :=
  (weightedTypes weights n.cap).all (fun t => decide (0 < t.1) && decide (0 < t.2.2))

end Yk
