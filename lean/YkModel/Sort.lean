/-
  Model of the scheduling order (C19): the comparators of pkg/scheduler/objects/sorters.go over the documented sort
  keys, `sort.SliceStable` as a stable insertion sort, the sorted request list of an application
  (sorted_asks.go + Allocation.LessThan) and the node iteration order.
  Float-valued keys (fair share, node score) are represented by their rank (an Int): only their order matters.
-/
import YkModel.Res
namespace Yk
open Res

/-- sort keys of a queue candidate -/
structure QKey where
  id : String
  prio : Int
  share : Int          -- rank of the fair share (CompUsageRatioSeparately compares two floats)
  pending : Res
  deriving Repr, DecidableEq

/-- `StrictlyGreaterThan(Sub(l.pending, r.pending), Zero)`: the last tie-break of the fair queue policies -/
def pendingGt (l r : QKey) : Bool := strictlyGreaterThan (some (sub (some l.pending) (some r.pending))) (some [])

def qLessPrio (l r : QKey) : Bool := decide (l.prio > r.prio)

def qLessPrioFair (l r : QKey) : Bool :=
  if l.prio > r.prio then true else if l.prio < r.prio then false
  else if l.share == r.share then pendingGt l r else decide (l.share < r.share)

def qLessFairPrio (l r : QKey) : Bool :=
  if l.share == r.share then
    (if l.prio > r.prio then true else if l.prio < r.prio then false else pendingGt l r)
  else decide (l.share < r.share)

/-- sort keys of an application candidate -/
structure AKey where
  id : String
  prio : Int           -- askMaxPriority
  submit : Int         -- submission time
  share : Int          -- rank of the usage share vector (CompUsageRatio)
  deriving Repr, DecidableEq

def aLessFairPrio (l r : AKey) : Bool := if l.share != r.share then decide (l.share < r.share) else decide (l.prio > r.prio)
def aLessPrioFair (l r : AKey) : Bool := if l.prio > r.prio then true else if l.prio < r.prio then false else decide (l.share < r.share)
def aLessSubmitPrio (l r : AKey) : Bool := if l.submit < r.submit then true else if r.submit < l.submit then false else decide (l.prio > r.prio)
def aLessPrioSubmit (l r : AKey) : Bool := if l.prio > r.prio then true else if l.prio < r.prio then false else decide (l.submit < r.submit)

/-- stable insertion sort: `x` goes before the first element it is strictly less than -/
def insertStable {α} (lt : α → α → Bool) (x : α) : List α → List α
  | [] => [x]
  | y :: t => if lt x y then x :: y :: t else y :: insertStable lt x t

def stableSort {α} (lt : α → α → Bool) (l : List α) : List α := l.foldl (fun acc x => insertStable lt x acc) []

/-- no inversion: a later element is never strictly less than an earlier one -/
def sortedBy {α} (lt : α → α → Bool) : List α → Bool
  | [] => true
  | x :: t => t.all (fun y => !lt y x) && sortedBy lt t

/-- strict weak order on the elements of a candidate set (executable: the driver evaluates it on each set) -/
def isSWO {α} (lt : α → α → Bool) (l : List α) : Bool :=
  l.all (fun x => !lt x x) &&
  l.all (fun x => l.all (fun y => l.all (fun z => !(lt x y && lt y z) || lt x z))) &&
  l.all (fun x => l.all (fun y => l.all (fun z => !(!lt x y && !lt y x && !lt y z && !lt z y) || (!lt x z && !lt z x))))

/-! ### asks of an application -/

structure AskKey where
  key : String
  prio : Int
  ctime : Int
  deriving Repr, DecidableEq

/-- Allocation.LessThan: lower precedence (lower priority, or same priority and not older) -/
def askLessThan (a o : AskKey) : Bool := if a.prio == o.prio then decide (a.ctime ≥ o.ctime) else decide (a.prio < o.prio)

/-- sortedRequests.insert: append when the ask is less than the last one, otherwise before the first entry that is less than it -/
def askInsert (s : List AskKey) (a : AskKey) : List AskKey :=
  match s.getLast? with
  | some last => if askLessThan a last then s ++ [a] else
      let idx := (s.findIdx? (fun x => askLessThan x a)).getD s.length
      s.take idx ++ [a] ++ s.drop idx
  | none => [a]

def askRemove (s : List AskKey) (key : String) : List AskKey :=
  match s.findIdx? (fun x => x.key == key) with
  | some i => s.take i ++ s.drop (i + 1)
  | none => s

/-- the documented order: priority descending, then creation time ascending -/
def askBefore (a b : AskKey) : Bool := decide (a.prio > b.prio) || (a.prio == b.prio && decide (a.ctime < b.ctime))

end Yk
