/-
  The observable state of the scheduler core (one partition) and the executable statements of the
  cross-object properties: C03 conservation, C09 reservations, C06 gang bookkeeping, C10 "Completed ⇒ no work",
  C11 counters vs applications, C05 usage tracking.  The driver evaluates these on states dumped from the real
  ClusterContext after every operation; YkProps/C03.lean … prove them invariant for the abstract ledger machine.
-/
import YkModel.Queue
import YkModel.Node
import YkModel.AppFsm
namespace Yk
open Res

/-- an entry of application.requests ∪ application.allocations (the same Go object lives in both maps) -/
structure CItem where
  key : String
  res : Res
  ph : Bool
  tg : String
  allocated : Bool      -- ask.allocated
  node : String
  bound : Bool          -- listed in application.allocations
  inReq : Bool          -- listed in application.requests
  released : Bool
  preempted : Bool
  release : Option String
  reqNode : String
  deriving Repr, DecidableEq

structure CApp where
  id : String
  live : Bool           -- in partition.applications (not completed / rejected)
  queue : String
  state : String
  user : String
  pending : Res
  allocated : Res
  allocatedPh : Res
  phAsk : Res            -- the placeholder total the application asked for at submission
  items : List CItem
  reservations : List (String × String)      -- ask key ↦ node
  phData : List (String × Nat × Nat × Nat)   -- task group, count, replaced, timed out
  log : List String
  stateTimer : Bool := false
  deriving Repr, DecidableEq

structure CQueue where
  path : String
  parent : Option String
  leaf : Bool
  managed : Bool
  max : ORes
  guaranteed : ORes
  allocated : Res
  pending : Res
  preempting : Res
  maxApps : Nat
  running : Nat
  allocating : List String
  apps : List String
  reserved : List (String × Nat)
  deriving Repr, DecidableEq

structure CNodeAlloc where
  key : String
  app : String
  res : Res
  foreign : Bool
  ph : Bool
  deriving Repr, DecidableEq

structure CNode where
  id : String
  total : Res
  occupied : Res
  allocated : Res
  available : Res
  schedulable : Bool
  allocs : List CNodeAlloc
  reservations : List String
  deriving Repr, DecidableEq

structure UsageEntry where
  path : String
  usage : Res
  apps : List String
  max : ORes
  maxApps : Nat
  deriving Repr, DecidableEq

structure Core where
  nodes : List CNode
  queues : List CQueue
  apps : List CApp
  total : Res
  allocations : Nat
  phAllocations : Nat
  reservations : Nat
  foreign : List String
  users : List (String × List UsageEntry)
  groups : List (String × List UsageEntry)
  deriving Repr, DecidableEq

/-- the real half of an in-flight placeholder replacement: allocated, not yet in application.allocations,
    linked to the placeholder it replaces -/
def CItem.inflightReal (i : CItem) : Bool := i.allocated && !i.bound && !i.ph && i.release.isSome

namespace Core

/-- Σ of a list of vectors (exact arithmetic) -/
def sumRes (l : List Res) : Res := l.foldl addX []

def resKeys (l : List Res) : List String := (l.map Res.keys).flatten

/-- equal as sparse vectors (a missing type is 0) -/
def sparseEq (a b : Res) : Bool := (a.keys ++ b.keys).all (fun k => a.getD k == b.getD k)

def nonNeg (r : Res) : Bool := r.all (fun p => decide (0 ≤ p.2))

def liveApps (s : Core) : List CApp := s.apps.filter (·.live)
def findApp (s : Core) (id : String) : Option CApp := s.liveApps.find? (·.id == id)
def findNode (s : Core) (id : String) : Option CNode := s.nodes.find? (·.id == id)
def findQueue (s : Core) (p : String) : Option CQueue := s.queues.find? (·.path == p)
def children (s : Core) (p : String) : List CQueue := s.queues.filter (fun q => q.parent == some p)

/-- queue `q` is `p` or below it -/
def under (q p : String) : Bool := q == p || q.startsWith (p ++ ".")

/-! ### C03 conservation, clause by clause (each returns the first offender, `none` = holds) -/

def I1 (s : Core) : Option String :=
  s.liveApps.findSome? (fun a =>
    let sum := sumRes ((a.items.filter (fun i => i.bound && !i.ph)).map (·.res))
    if sparseEq a.allocated sum then none else some s!"I1 app.allocated≠Σreal {a.id}")

def I2 (s : Core) : Option String :=
  s.liveApps.findSome? (fun a =>
    let sum := sumRes ((a.items.filter (fun i => i.bound && i.ph)).map (·.res))
    if sparseEq a.allocatedPh sum then none else some s!"I2 app.placeholder≠Σplaceholders {a.id}")

def I3 (s : Core) : Option String :=
  s.liveApps.findSome? (fun a =>
    let sum := sumRes ((a.items.filter (fun i => i.inReq && !i.allocated)).map (·.res))
    if sparseEq a.pending sum then none else some s!"I3 app.pending≠Σunallocated-asks {a.id}")

def I4 (s : Core) : Option String :=
  (s.queues.filter (·.leaf)).findSome? (fun q =>
    let mine := s.liveApps.filter (fun a => a.queue == q.path)
    let alloc := sumRes (mine.map (fun a => addX a.allocated a.allocatedPh))
    let pend := sumRes (mine.map (·.pending))
    if !sparseEq q.allocated alloc then some s!"I4 leaf.allocated≠Σapps {q.path}"
    else if !sparseEq q.pending pend then some s!"I4 leaf.pending≠Σapps {q.path}"
    else none)

def I5 (s : Core) : Option String :=
  (s.queues.filter (fun q => !q.leaf)).findSome? (fun q =>
    let cs := s.children q.path
    if !sparseEq q.allocated (sumRes (cs.map (·.allocated))) then some s!"I5 parent.allocated≠Σchildren {q.path}"
    else if !sparseEq q.pending (sumRes (cs.map (·.pending))) then some s!"I5 parent.pending≠Σchildren {q.path}"
    else none)

/-- the real halves of in-flight cross-node placeholder replacements: allocations already placed on a node which
    their application does not list as bound yet (it lists them as the in-flight replacement of a placeholder) -/
def inflightCross (s : Core) : List Res :=
  (s.nodes.map (fun n => (n.allocs.filter (!·.foreign)).filterMap (fun na =>
    match s.findApp na.app with
    | none => none
    | some a => match a.items.find? (·.key == na.key) with
      | some i => if i.inflightReal && i.node == n.id then some na.res else none
      | none => none))).flatten

def I6 (s : Core) : Option String :=
  match s.queues.find? (·.parent.isNone) with
  | none => none
  | some root =>
    let nodeSum := sumRes (s.nodes.map (·.allocated))
    -- allocations of applications that are no longer live are reported by I7; do not report them twice
    let orphan := sumRes ((s.nodes.map (fun n => (n.allocs.filter (fun na => !na.foreign &&
        (match s.findApp na.app with | none => true | some a => !(a.items.any (·.key == na.key))))).map (·.res))).flatten)
    let infl := addX (sumRes (inflightCross s)) orphan
    if sparseEq (addX root.allocated infl) nodeSum then none else some "I6 root.allocated≠Σnode.allocated−inflight"

/-- every non-foreign allocation on a node belongs to a live application that lists it on this node
    (or is the real half of an in-flight cross-node replacement) -/
def I7 (s : Core) : Option String :=
  s.nodes.findSome? (fun n => (n.allocs.filter (!·.foreign)).findSome? (fun na =>
    match s.findApp na.app with
    | none =>
      -- the application terminated and left the partition while this allocation was still on a node. Three different
      -- situations, three classes: a real allocation of a Failed application (known), of a Completed one (known, C10),
      -- and a placeholder that outlives its application (C06)
      match s.apps.find? (fun a => !a.live && a.id == na.app && a.items.any (fun i => i.key == na.key && i.bound)) with
      | some a =>
        if na.ph then some s!"I7p placeholder of a terminated application still on its node {na.key}@{n.id}"
        else if a.log.contains "Failed" then some s!"I7t allocation of a terminated application still on its node {na.key}@{n.id}"
        else some s!"I7c allocation of a completed application still on its node {na.key}@{n.id}"
      | none => some s!"I7 allocation of unknown application {na.key}@{n.id}"

    | some a => match a.items.find? (·.key == na.key) with
      | none => some s!"I7 allocation not listed by its application {na.key}@{n.id}"
      | some i =>
        if (i.bound || i.inflightReal) && i.node == n.id then
          (if sparseEq i.res na.res then none else some s!"I7 size differs {na.key}@{n.id}")
        else some s!"I7 allocation not bound to this node by its application {na.key}@{n.id}"))

/-- …and vice versa -/
def I8 (s : Core) : Option String :=
  s.liveApps.findSome? (fun a => (a.items.filter (·.bound)).findSome? (fun i =>
    match s.findNode i.node with
    | none => some s!"I8 allocation on unknown node {i.key}@{i.node}"
    | some n => if n.allocs.any (fun na => na.key == i.key && !na.foreign) then none
                else some s!"I8 allocation missing on its node {i.key}@{i.node}"))

def I9 (s : Core) : Option String :=
  (s.liveApps.findSome? (fun a =>
    if nonNeg a.pending && nonNeg a.allocated && nonNeg a.allocatedPh then none else some s!"I9 negative app quantity {a.id}")).orElse fun _ =>
  (s.queues.findSome? (fun q =>
    if nonNeg q.allocated && nonNeg q.pending && nonNeg q.preempting then none else some s!"I9 negative queue quantity {q.path}")).orElse fun _ =>
  s.nodes.findSome? (fun n =>
    if nonNeg n.allocated && nonNeg n.occupied then none else some s!"I9 negative node quantity {n.id}")

def I10 (s : Core) : Option String :=
  let bound := (s.liveApps.map (fun a => a.items.filter (·.bound))).flatten
  -- the partition's allocation count (REST: totalContainers). The placeholder counter is internal (a scheduling
  -- short-cut), the property does not speak about it: it is not checked.
  if s.allocations != bound.length then some s!"I10 allocation counter {s.allocations} ≠ {bound.length}" else none

def I11 (s : Core) : Option String :=
  s.queues.findSome? (fun q =>
    let below := s.liveApps.filter (fun a => under a.queue q.path)
    let sum := sumRes ((below.map (fun a => (a.items.filter (fun i => i.bound && i.preempted)).map (·.res))).flatten)
    if sparseEq q.preempting sum then none else some s!"I11 queue.preempting≠Σpreempted {q.path}")

def conservedClauses : List (Core → Option String) := [I1, I2, I3, I4, I5, I6, I7, I8, I9, I10, I11]

def conserved (s : Core) : Option String := conservedClauses.findSome? (fun c => c s)

/-- all failing clauses -/
def conservedAll (s : Core) : List String := conservedClauses.filterMap (fun c => c s)

/-- node ledger (C01) on every node of the partition -/
def nodeLedger (s : Core) : Option String :=
  s.nodes.findSome? (fun n =>
    let sum := sumRes ((n.allocs.filter (!·.foreign)).map (·.res))
    if !sparseEq n.allocated sum then some s!"ledger-allocated {n.id}"
    else if !sparseEq n.available (subX (subX n.total n.allocated) n.occupied) then some s!"ledger-available {n.id}"
    else none)

/-! ### C09 reservations -/

def resOK (s : Core) : Option String :=
  -- R1 application view ⊆ node view
  (s.liveApps.findSome? (fun a => a.reservations.findSome? (fun r =>
    match s.findNode r.2 with
    | none => some s!"R1 reservation on unknown node {r.1}@{r.2}"
    | some n => if n.reservations.contains r.1 then
        (match a.items.find? (·.key == r.1) with
         | some i => if i.inReq && !i.allocated then none else some s!"R5 reservation for an ask that is not outstanding {r.1}"
         | none => some s!"R5 reservation for an unknown ask {r.1}")
      else some s!"R1 node does not know reservation {r.1}@{r.2}"))).orElse fun _ =>
  -- R1 node view ⊆ application view
  (s.nodes.findSome? (fun n => n.reservations.findSome? (fun k =>
    if s.liveApps.any (fun a => a.reservations.contains (k, n.id)) then none
    else some s!"R1 application does not know reservation {k}@{n.id}"))).orElse fun _ =>
  -- R2 queue view
  (s.liveApps.findSome? (fun a =>
    let n := a.reservations.length
    match s.findQueue a.queue with
    | none => if n == 0 then none else some s!"R2 reserved application without queue {a.id}"
    | some q => if ((q.reserved.lookup a.id).getD 0) == n then none else some s!"R2 queue count ≠ application reservations {a.id}")).orElse fun _ =>
  (s.queues.findSome? (fun q => q.reserved.findSome? (fun r =>
    if r.2 == 0 || s.liveApps.any (fun a => a.id == r.1 && a.queue == q.path) then none
    else some s!"R2 queue lists reservations of an application it does not hold {r.1}@{q.path}"))).orElse fun _ =>
  -- R3 partition counter never zero while one exists
  (let total := (s.liveApps.map (·.reservations.length)).sum
   if total > 0 && s.reservations == 0 then some "R3 partition reservation counter is zero while reservations exist" else none).orElse fun _ =>
  -- R4 at most one reservation per node unless all are required-node asks
  s.nodes.findSome? (fun n =>
    if n.reservations.length ≤ 1 then none else
    if n.reservations.all (fun k => s.liveApps.any (fun a => a.items.any (fun i => i.key == k && i.reqNode == n.id))) then none
    else some s!"R4 several reservations on {n.id}")

/-! ### C06 gang bookkeeping, C10 Completed ⇒ no work, C11 counters vs applications -/

def gangOK (s : Core) : Option String :=
  s.liveApps.findSome? (fun a =>
    (a.phData.findSome? (fun d => if d.2.2.1 ≤ d.2.1 then none else some s!"replaced-gt-count {a.id}/{d.1}")).orElse fun _ =>
    a.items.findSome? (fun i =>
      if i.ph then
        match i.release with
        | none => none
        | some rk => match a.items.find? (·.key == rk) with
          | none => none   -- the replacement's ask was removed meanwhile (placeholder timeout): nothing to compare
          | some r =>
            if r.ph then some s!"ph-replaced-by-ph {i.key}"
            else if r.tg != i.tg then some s!"replacement-other-taskgroup {i.key}"
            else if !(fitInStd (some i.res) (some r.res)) then some s!"replacement-larger-than-placeholder {i.key}"
            else none
      -- a confirmed swap leaves its real allocation on an application that runs (not on one that is about to complete)
      else if a.live && a.state == "Completing" && i.bound && !i.ph && i.tg != "" then some s!"swapped-real-on-completing-application {i.key}"
      -- Resuming is the short wait of a Soft application for its placeholders to go: a real allocation (also the real half
      -- of a swap confirmed meanwhile) moves it on to Accepted; one that the timeout itself asked back (released, waiting for the
      -- shim) may still be there, and while another placeholder is still bound the application waits in Resuming for it
      else if a.live && a.state == "Resuming" && i.bound && !i.ph && !i.released && !a.items.any (fun x => x.bound && x.ph) then
        some s!"real-allocation-on-resuming-application {i.key}"
      -- the real half of a swap in flight waits for the confirmation of a placeholder that is still bound
      else if i.inflightReal then
        match i.release.bind (fun pk => a.items.find? (·.key == pk)) with
        | some p => if p.bound && p.ph then none else some s!"inflight-real-without-placeholder {i.key}"
        | none => some s!"inflight-real-without-placeholder {i.key}"
      else none))

def lifecycleOK (s : Core) : Option String :=
  s.apps.findSome? (fun a =>
    if a.state == "Completed" && (a.items.any (fun i => i.inReq && !i.allocated) || a.items.any (fun i => i.bound && !i.ph)) then
      some s!"completed-with-work {a.id}"
    else if (a.state == "Completed" || a.state == "Failed" || a.state == "Expired") && a.live &&
            s.queues.any (fun q => q.apps.contains a.id) then
      some s!"terminated-still-in-queue {a.id}"
    -- an ask that arrives at a Completing application moves it back to Running; an application only becomes
    -- Completing when it has neither asks nor allocations
    -- … nor while a swap the scheduler decided is waiting for the shim: its real allocation is about to be bound
    else if a.state == "Completed" && a.items.any (·.inflightReal) then
      some s!"completed-with-swap-in-flight {a.id}"
    else if a.state == "Completing" && a.items.any (fun i => i.inReq && !i.allocated) then
      some s!"completing-with-pending-ask {a.id}"
    -- a real allocation (new, or the real half of a confirmed swap) moves a Completing application back to Running
    -- (YkProps/C10 completing_holds_no_real_allocation)
    else if a.live && a.state == "Completing" && a.items.any (fun i => i.bound && !i.ph) then
      some s!"completing-with-real-allocation {a.id}"
    else none)

/-- C10: an application with neither asks nor allocations does not stay Accepted / Running: it becomes Completing -/
def idleOK (s : Core) : Option String :=
  s.liveApps.findSome? (fun a =>
    -- (a Soft gang application that timed out goes Resuming → Accepted with all its asks dropped and waits there for
    --  new asks: that documented edge is not an idle application that failed to complete)
    if (a.state == "Accepted" || a.state == "Running") && !a.log.isEmpty && !a.log.contains "Resuming" &&
       isZero (some a.pending) && isZero (some a.allocated) && isZero (some a.allocatedPh) &&
       !(a.items.any (fun i => i.bound || (i.inReq && !i.allocated))) then
      some s!"idle-not-completing {a.id} {a.state}"
    else none)

/-- C02: at the root the maximum is the sum of the registered node capacities -/
def rootMaxOK (s : Core) : Option String :=
  let sum := sumRes (s.nodes.map (·.total))
  if !sparseEq s.total sum then some s!"root-max partition-total≠Σnode-capacity"
  else match s.queues.find? (·.parent.isNone) with
    | none => none
    | some root =>
      match root.max with
      | none => if strictlyGreaterThanZero (some s.total) then some "root-max unset-with-nodes" else none
      | some m => if sparseEq m s.total && m.all (fun p => s.total.has p.1) then none else some "root-max root.max≠Σnode-capacity"

def countersOK (s : Core) : Option String :=
  s.queues.findSome? (fun q =>
    let below := s.liveApps.filter (fun a => under a.queue q.path)
    let runningApps := (below.filter (fun a => a.state == "Running")).length
    if q.running > runningApps then some s!"running-gt-running-apps {q.path} {q.running}>{runningApps}"
    else match q.allocating.find? (fun id => !(below.any (·.id == id))) with
      | some id => some s!"allocating-not-live {q.path} {id}"
      | none => none)

/-! ### C05 usage tracking: tracked usage per user and queue = Σ live allocations of their applications there -/

def usageOK (s : Core) : Option String :=
  s.users.findSome? (fun u => u.2.findSome? (fun e =>
    let mine := s.liveApps.filter (fun a => a.user == u.1 && under a.queue e.path)
    let sum := sumRes (mine.map (fun a => addX a.allocated a.allocatedPh))
    if sparseEq e.usage sum then none else some s!"usage-ne-sum {u.1}@{e.path}"))

/-- a configured limit sits on the path of a queue: a tracker entry that carries a limit but whose path is the path of a
    queue only up to letter case is a limit the queue's applications never see (queue objects carry lower case names) -/
def limitPathOK (s : Core) : Option String :=
  s.users.findSome? (fun u => u.2.findSome? (fun e =>
    if e.max.isNone && e.maxApps == 0 then none
    else if s.queues.any (fun q => q.path == e.path) then none
    else if s.queues.any (fun q => q.path.toLower == e.path.toLower) then some s!"limit-on-path-of-no-queue {u.1}@{e.path}"
    else none))

/-- tracked usage above a configured limit (types the limit defines) -/
def usageOver (e : UsageEntry) : Bool :=
  match e.max with
  | none => false
  | some m => m.any (fun p => decide (max 0 p.2 < e.usage.getD p.1))

end Core
end Yk
