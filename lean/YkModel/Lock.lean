/-
  Abstract lock machine (C14): any number of threads, each holding a multiset of (lock instance, mode) and possibly
  waiting for one more. Acquisition follows sync.RWMutex:
    * a write request waits while ANY thread (the requester included — Go mutexes are not re-entrant) holds the lock;
    * a read request waits while some thread holds the lock for writing, and also while ANOTHER thread is waiting for
      the write lock (writer preference: `RLock` queues behind a pending `Lock`) — which is what makes a recursive
      RLock of one instance a deadlock risk.
  Lock instances are an arbitrary type `L`; the machine knows nothing about classes or ranks.
-/
namespace Yk.Lock

inductive Mode where
  | R | W
  deriving DecidableEq, Repr

abbrev Tid := Nat

/-- what every thread holds and what it is blocked on (`none` = running) -/
structure State (L : Type) where
  held : Tid → List (L × Mode)
  want : Tid → Option (L × Mode)

/-- nothing held, nobody waiting -/
def State.init {L : Type} : State L := ⟨fun _ => [], fun _ => none⟩

/-- pointwise update -/
def upd {α : Type} (f : Tid → α) (t : Tid) (v : α) : Tid → α := fun u => if u = t then v else f u

variable {L : Type}

/-- thread `u` stands in the way of the request `(l, m)` of thread `t` -/
def Conflicts (s : State L) (t u : Tid) (l : L) (m : Mode) : Prop :=
  (∃ m', (l, m') ∈ s.held u ∧ (m = .W ∨ m' = .W)) ∨
  (m = .R ∧ u ≠ t ∧ s.want u = some (l, .W))

/-- wait-for relation: `t` waits, and `u` is (one of) the reason(s) -/
def BlockedBy (s : State L) (t u : Tid) : Prop :=
  ∃ l m, s.want t = some (l, m) ∧ Conflicts s t u l m

/-- the request of a waiting thread can be granted now -/
def Grantable (s : State L) (t : Tid) : Prop :=
  ∃ l m, s.want t = some (l, m) ∧ ∀ u, ¬ Conflicts s t u l m

/-- a running thread that holds something: it can go on (and will eventually release) -/
def RunningHolder (s : State L) (t : Tid) : Prop := s.want t = none ∧ s.held t ≠ []

/-- One step of the machine. `ok H l m` is the program's discipline: may a thread that holds `H` ask for `(l, m)`. -/
inductive Step [DecidableEq L] (ok : List (L × Mode) → L → Mode → Prop) : State L → State L → Prop where
  | request (s : State L) (t : Tid) (l : L) (m : Mode) :
      s.want t = none → ok (s.held t) l m →
      Step ok s { s with want := upd s.want t (some (l, m)) }
  | grant (s : State L) (t : Tid) (l : L) (m : Mode) :
      s.want t = some (l, m) → (∀ u, ¬ Conflicts s t u l m) →
      Step ok s { held := upd s.held t ((l, m) :: s.held t), want := upd s.want t none }
  | release (s : State L) (t : Tid) (l : L) (m : Mode) :
      s.want t = none → (l, m) ∈ s.held t →
      Step ok s { s with held := upd s.held t ((s.held t).erase (l, m)) }

/-- states reachable from the initial state -/
inductive Reach [DecidableEq L] (ok : List (L × Mode) → L → Mode → Prop) : State L → Prop where
  | init : Reach ok State.init
  | step {s s' : State L} : Reach ok s → Step ok s s' → Reach ok s'

/-- wait-for chains t → … → u (at least one edge) -/
inductive Chain (s : State L) : Tid → Tid → Prop where
  | single {t u : Tid} : BlockedBy s t u → Chain s t u
  | cons {t v u : Tid} : BlockedBy s t v → Chain s v u → Chain s t u

/-- a wait-for cycle -/
def Cycle (s : State L) : Prop := ∃ t, Chain s t t

/-- a deadlocked set: a non-empty set of threads each of which waits for a member of the set (none of them can ever
    proceed, whatever the threads outside the set do) -/
def Deadlocked (s : State L) : Prop :=
  ∃ S : List Tid, S ≠ [] ∧ ∀ t ∈ S, ∃ u ∈ S, BlockedBy s t u

end Yk.Lock
