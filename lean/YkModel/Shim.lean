/-
  C04 — the allocation protocol as the shim sees it: a monitor automaton over the SI traffic only.
  `send` = a request of the shim, `recv` = a message of the core; `recv` returns `none` when the message violates the
  protocol in the current view.  The driver runs this automaton on the traffic recorded from the real core.
-/
namespace Yk

structure ShimView where
  nodes : List String := []                        -- registered (accepted) and not removed
  nodesSubmitted : List String := []               -- awaiting an answer
  apps : List String := []                         -- accepted and not removed
  appsSubmitted : List String := []
  asks : List (String × String) := []              -- outstanding asks (key, app)
  bound : List (String × String × String) := []    -- (key, app, node)
  releasing : List String := []                    -- releases announced by the core, not yet confirmed by the shim
  reported : List (String × String) := []          -- (key, node) the shim itself reported as bound: echoed once by the core
  deriving Repr, DecidableEq

inductive ShimMsg where
  -- requests of the shim
  | nodeCreate (id : String)
  | nodeRemove (id : String)
  | appAdd (id : String)
  | appRemove (id : String)
  | ask (key app : String)
  | place (key app node : String)            -- the shim reports an allocation as already bound (recovery / external placement)
  | releaseKey (key : String)
  | releaseApp (app : String)
  -- messages of the core
  | newAlloc (key app node : String)
  | release (key : String) (needsConfirm : Bool)
  | appAccepted (app : String)
  | appRejected (app : String)
  | nodeAccepted (n : String)
  | nodeRejected (n : String)
  deriving Repr, DecidableEq

namespace ShimView

def dropKey (v : ShimView) (k : String) : ShimView :=
  { v with asks := v.asks.filter (·.1 != k), bound := v.bound.filter (·.1 != k), releasing := v.releasing.filter (· != k) }

def keyKnown (v : ShimView) (k : String) : Bool := v.asks.any (·.1 == k) || v.bound.any (·.1 == k)

/-- one message; `none` = protocol violation -/
def step (v : ShimView) : ShimMsg → Option ShimView
  | .nodeCreate id => some { v with nodesSubmitted := id :: v.nodesSubmitted }
  | .nodeRemove id => some { v with nodes := v.nodes.filter (· != id) }
  | .appAdd id => some { v with appsSubmitted := id :: v.appsSubmitted }
  | .appRemove id =>
    some { v with apps := v.apps.filter (· != id), asks := v.asks.filter (·.2 != id), bound := v.bound.filter (·.2.1 != id) }
  | .ask key app => if v.keyKnown key then some v else some { v with asks := (key, app) :: v.asks }
  | .place key app node =>
    some { v with asks := v.asks.filter (·.1 != key), bound := (key, app, node) :: v.bound.filter (·.1 != key),
                  reported := if v.bound.any (·.1 == key) then v.reported else (key, node) :: v.reported }
  | .releaseKey key => some (v.dropKey key)
  | .releaseApp app => some { v with asks := v.asks.filter (·.2 != app), bound := v.bound.filter (·.2.1 != app) }
  | .newAlloc key app node =>
    if v.reported.contains (key, node) then some { v with reported := v.reported.erase (key, node) }
    else if !(v.asks.any (fun a => a.1 == key && a.2 == app)) then none          -- not an outstanding ask of that application
    else if !(v.apps.contains app) then none                                       -- application not accepted / removed
    else if !(v.nodes.contains node) then none                                     -- node not registered / removed
    else if v.bound.any (·.1 == key) then none                                     -- key already bound
    else some { v with asks := v.asks.filter (·.1 != key), bound := (key, app, node) :: v.bound }
  | .release key needsConfirm =>
    if !(v.keyKnown key) then none
    else if needsConfirm then some { v with releasing := if v.releasing.contains key then v.releasing else key :: v.releasing }
    else some (v.dropKey key)
  | .appAccepted app =>
    if !(v.appsSubmitted.contains app) then none
    else some { v with appsSubmitted := v.appsSubmitted.erase app, apps := if v.apps.contains app then v.apps else app :: v.apps }
  | .appRejected app =>
    if !(v.appsSubmitted.contains app) then none else some { v with appsSubmitted := v.appsSubmitted.erase app }
  | .nodeAccepted n =>
    if !(v.nodesSubmitted.contains n) then none
    else some { v with nodesSubmitted := v.nodesSubmitted.erase n, nodes := if v.nodes.contains n then v.nodes else n :: v.nodes }
  | .nodeRejected n =>
    if !(v.nodesSubmitted.contains n) then none else some { v with nodesSubmitted := v.nodesSubmitted.erase n }

/-- a whole trace; `none` as soon as one message is refused -/
def run (v : ShimView) : List ShimMsg → Option ShimView
  | [] => some v
  | m :: ms => match v.step m with
    | none => none
    | some v' => run v' ms

end ShimView
end Yk
