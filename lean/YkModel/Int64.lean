/-
  Go int64 ("Quantity") arithmetic made explicit over `Int`.
  Values of the implementation are the integers `x` with `inR x`; every Go `+ - *` and unary `-`
  is `wrap64 (…)`, division is truncating.  Core Lean only.
-/
namespace Yk

def minI : Int := -9223372036854775808
def maxI : Int := 9223372036854775807

/-- `x` is representable as a Go int64. -/
def inR (x : Int) : Prop := minI ≤ x ∧ x ≤ maxI

instance (x : Int) : Decidable (inR x) := by unfold inR; infer_instance

/-- two's complement wrap-around of Go's int64 arithmetic -/
def wrap64 (x : Int) : Int := (x + 9223372036854775808) % 18446744073709551616 - 9223372036854775808

/-- saturation to the int64 range: what the calculators are documented to return -/
def clamp (x : Int) : Int := if x < minI then minI else if x > maxI then maxI else x

/-- Go's `int64(f)` for a float64 `f` whose truncation is `t` (amd64: out of range gives MinInt64). -/
def conv64 (t : Int) : Int := if minI ≤ t ∧ t ≤ maxI then t else minI

end Yk
