/-
  The documented hierarchy rules of a queue configuration as executable clauses on a validated tree
  (property C15).  Each clause is a plain quantification over `walk [] root` — every queue with its
  ancestors, nearest first — and does not follow the validator's algorithm: no inherited maps, no
  effective maxima threaded through the recursion.  `YkProofs/Conf.lean` proves that everything the
  model validator accepts satisfies the clauses named `ok…`; the driver evaluates all of them on the tree
  returned by the implementation.  The clauses named `strict…` are the stricter readings of the same rules
  that the validator does NOT establish (known findings, witnesses in YkProps/C15.lean).
-/
import YkModel.Conf
namespace Yk.Conf
open Yk Yk.Res

/-- an entry of `walk`: the ancestors (nearest first) and the queue -/
abbrev Entry := List QD × QC

/-! ### structure and names -/

/-- S1: exactly one top level queue, called root (any case), a parent, without resources -/
def okSingleRoot (p : Part) : Bool :=
  match p.queues with
  | some [root] => toLower root.d.name == "root" && root.d.parent && root.d.g.isNone && root.d.m.isNone
  | _ => false

def distinctL : List String → Bool
  | [] => true
  | a :: t => !t.contains a && distinctL t

/-- S2: the children of the queue have valid names, pairwise different when compared in lower case -/
def okNames (e : Entry) : Bool :=
  e.2.qs.all (fun c => validQueueName c.d.name) && distinctL (e.2.qs.map (fun c => toLower c.d.name))

/-! ### queue resources -/

/-- Q1: the maximum of a queue is within the maximum of every ancestor, on every type both define -/
def okMaxWithinAncestors (e : Entry) : Bool :=
  e.1.all (fun a => (typesOf e.2.d.m).all (fun t => leDef (qty e.2.d.m t) (qty a.m t)))

/-- Q2: guaranteed is within the queue's own maximum and within the maximum of every ancestor -/
def okGuaranteedWithinMax (e : Entry) : Bool :=
  (e.2.d :: e.1).all (fun a => (typesOf e.2.d.g).all (fun t => leDef (qty e.2.d.g t) (qty a.m t)))

/-- Q3: on every type the queue's guaranteed defines, the children's guaranteed quantities add up to at most that much
    (`sat`: the sum is capped at MaxInt64, as the implementation adds) -/
def okChildrenSumG (sat : Bool) (e : Entry) : Bool :=
  (typesOf e.2.d.g).all (fun t =>
    let s := sumGuaranteed e.2.qs t
    leDef (some (if sat then min s maxI else s)) (qty e.2.d.g t))

/-- Q4: the same sum is within the maximum of the queue and of every ancestor -/
def okChildrenSumMax (sat : Bool) (e : Entry) : Bool :=
  (e.2.d :: e.1).all (fun a => (typesOf a.m).all (fun t =>
    let s := sumGuaranteed e.2.qs t
    leDef (some (if sat then min s maxI else s)) (qty a.m t)))

/-! ### max applications -/

/-- A1: below a queue that limits the number of applications every queue has a limit, and not a larger one -/
def okMaxApps (e : Entry) : Bool :=
  e.1.all (fun a => a.maxApps == 0 || (e.2.d.maxApps != 0 && decide (e.2.d.maxApps ≤ a.maxApps)))

/-! ### user and group limits -/

/-- L1: a limit is within the maximum of its queue (every queue below the top level one) -/
def okLimitWithinQueueMax (e : Entry) : Bool :=
  e.1.isEmpty || e.2.d.limits.all (fun l => (typesOf l.maxRes).all (fun t => leDef (qty l.maxRes t) (qty e.2.d.m t)))

/-- L1 as the validator checks it: skipped for every queue called "root" -/
def okLimitWithinQueueMaxV (e : Entry) : Bool :=
  e.2.d.name == "root" || e.2.d.limits.all (fun l => (typesOf l.maxRes).all (fun t => leDef (qty l.maxRes t) (qty e.2.d.m t)))

/-- L1e (strict): a limit is also within the maximum of every ancestor of its queue -/
def strictLimitWithinAncestorMax (e : Entry) : Bool :=
  e.2.d.limits.all (fun l => e.1.all (fun a => (typesOf l.maxRes).all (fun t => leDef (qty l.maxRes t) (qty a.m t))))

/-- L2: the application count of a limit is within that of its queue and of every ancestor (where set) -/
def okLimitApps (e : Entry) : Bool :=
  e.2.d.limits.all (fun l => (e.2.d :: e.1).all (fun a => a.maxApps == 0 || decide (l.maxApps ≤ a.maxApps)))

def namesOf (isGroup : Bool) (l : Limit) : List String := (if isGroup then l.groups else l.users).getD []

def namedAbove (isGroup : Bool) (anc : List QD) (name : String) : Bool :=
  anc.any (fun a => !(limitsFor isGroup a name).isEmpty)

def resWithin (l x : Limit) : Bool := (typesOf l.maxRes).all (fun t => leDef (qty l.maxRes t) (qty x.maxRes t))

/-- `ex = 0` means no limit; otherwise the new count must be set and not larger -/
def appsWithin (l x : Limit) : Bool := x.maxApps == 0 || (l.maxApps != 0 && decide (l.maxApps ≤ x.maxApps))

/-- L3/L4 shape: every limit of the queue, for each of its names, against
    (same) every entry of the same name on every ancestor, and
    (wild) — for a name no ancestor mentions — every wildcard entry on every ancestor -/
def okLimitAncestors (within : Limit → Limit → Bool) (isGroup : Bool) (e : Entry) : Bool :=
  e.2.d.limits.all (fun l => (namesOf isGroup l).all (fun n =>
    e.1.all (fun a => (limitsFor isGroup a n).all (fun x => within l x)) &&
    (n == "*" || namedAbove isGroup e.1 n ||
      e.1.all (fun a => (limitsFor isGroup a "*").all (fun x => within l x)))))

/-- L3w/L4w (strict): the wildcard entry of an ancestor that does not mention the name itself also bounds the limit
    when some other ancestor mentions the name -/
def strictLimitWildcard (within : Limit → Limit → Bool) (isGroup : Bool) (e : Entry) : Bool :=
  e.2.d.limits.all (fun l => (namesOf isGroup l).all (fun n =>
    n == "*" || !namedAbove isGroup e.1 n ||
      e.1.all (fun a => !(limitsFor isGroup a n).isEmpty || (limitsFor isGroup a "*").all (fun x => within l x))))

/-! ### placement rules: a fully static rule must resolve (load semantics: a queue is a leaf iff it has no children
    and is not flagged as parent; names are compared in lower case) -/

def isLeafLoaded (q : QC) : Bool := !q.d.parent && q.qs.isEmpty

/-- the queue a path (lower case parts, root first) leads to, with the parts that do not exist -/
def descend : List String → QC → QC × List String
  | [], q => (q, [])
  | n :: rest, q =>
    match q.qs.find? (fun c => toLower c.d.name == n) with
    | some c => descend rest c
    | none => (q, n :: rest)

/-- the queue with this name (lower case, dot separated, root first), if the whole path exists -/
def lookupQ (root : QC) (name : String) : Option QC :=
  let parts := splitDots name
  if parts.head? != some "root" then none else
  let (q, missing) := descend (parts.drop 1) root
  if missing.isEmpty then some q else none

/-- what a chain of fixed rules (outermost parent first) returns at run time: the queue name, or none when a rule of the
    chain gives up (queue missing and create not set) or fails (the parent rule returned an existing leaf) -/
def fixedName (root : QC) : List RuleD → Option String → Option String
  | [], cur => cur
  | r :: t, cur =>
    let v := toLower r.value
    let name : Option String :=
      if qualifiedRT v then some v else
      match cur with
      | none => some ("root." ++ v)
      | some p =>
        let pn := if hasPrefix p "root." then p else "root." ++ p
        match lookupQ root pn with
        | some pq => if isLeafLoaded pq then none else some (pn ++ "." ++ v)
        | none => some (pn ++ "." ++ v)
    match name with
    | none => none
    | some name =>
      if (lookupQ root name).isNone && !r.create then none else fixedName root t (some name)

def allFixed (r : Rule) : Bool := r.all (fun d => toLower d.name == "fixed")

/-- the name is inside the hierarchy and ends in a leaf, or in something that can be created below a parent; the recovery
    queue is reserved for forced placement (PlaceApplication treats it as a no-match) -/
def resolves (root : QC) (name : String) : Bool :=
  let parts := splitDots name
  name != "root.@recovery@" && parts.head? == some "root" &&
    (let (q, missing) := descend (parts.drop 1) root
     if missing.isEmpty then isLeafLoaded q else !isLeafLoaded q)

/-- P1: every fully static rule (all links `fixed`) that can be loaded returns nothing or a name that resolves -/
def okStaticRule (root : QC) (r : Rule) : Bool :=
  !allFixed r || (match loadRule r with | .ok _ => false | .error _ => true) ||
    (match fixedName root r.reverse none with
     | none => true
     | some n => resolves root n)

/-- the same walk as `descend`, comparing the names as they are written (what checkQueueHierarchyForPlacement does) -/
def descendRaw : List String → QC → QC × List String
  | [], q => (q, [])
  | n :: rest, q =>
    match q.qs.find? (fun c => c.d.name == n) with
    | some c => descendRaw rest c
    | none => (q, n :: rest)

/-- the queues on the way down a path -/
def pathQueues : List String → QC → List QC
  | [], q => [q]
  | n :: rest, q =>
    match q.qs.find? (fun c => toLower c.d.name == n) with
    | some c => q :: pathQueues rest c
    | none => [q]

/-- why validation did not see that a static rule does not resolve (suffix of the clause id; empty: unexplained) -/
def staticRuleCause (root : QC) (r : Rule) : String :=
  if r.any (fun d => d.name != "fixed") then ".rule-name-case"
  else if r.any (fun d => d.value != toLower d.value) then ".value-case"
  else match fixedName root r.reverse none with
    | none => ""
    | some n =>
      let parts := splitDots n
      if n == "root.@recovery@" then ".recovery-queue"
      else if r.any (fun d => hasPrefix d.value "root" && !qualifiedRT d.value) then ".root-prefix"
      else if parts.head? != some "root" then ".outside-root"
      else if root.d.name != "root" then ".queue-name-case"
      else if (descendRaw (parts.drop 1) root).2 != (descend (parts.drop 1) root).2 then ".queue-name-case"
      else if (pathQueues (parts.drop 1) root).any (fun q => !q.d.parent && !q.qs.isEmpty) then ".parent-flag"
      else ""

/-! ### all clauses of a partition, with their ids -/

def rootOf (p : Part) : Option QC := match p.queues with | some (r :: _) => some r | _ => none

def clauseList (sat : Bool) : List (String × (Entry → Bool)) :=
  [("C15.S2", okNames), ("C15.Q1", okMaxWithinAncestors), ("C15.Q2", okGuaranteedWithinMax),
   ("C15.Q3", okChildrenSumG sat), ("C15.Q4", okChildrenSumMax sat), ("C15.A1", okMaxApps),
   ("C15.L1", okLimitWithinQueueMaxV), ("C15.L2", okLimitApps),
   ("C15.L3u", okLimitAncestors resWithin false), ("C15.L3g", okLimitAncestors resWithin true),
   ("C15.L4u", okLimitAncestors appsWithin false), ("C15.L4g", okLimitAncestors appsWithin true)]

def strictList : List (String × (Entry → Bool)) :=
  [("C15.L1root", okLimitWithinQueueMax), ("C15.L1e", strictLimitWithinAncestorMax),
   ("C15.Q3sat", okChildrenSumG false), ("C15.Q4sat", okChildrenSumMax false),
   ("C15.L3w", fun e => strictLimitWildcard resWithin false e && strictLimitWildcard resWithin true e),
   ("C15.L4w", fun e => strictLimitWildcard appsWithin false e && strictLimitWildcard appsWithin true e)]

def pathOf (e : Entry) : String := ".".intercalate ((e.2.d :: e.1).reverse.map (·.name))

/-- ids of the clauses a validated partition violates, each with the path of the first offending queue -/
def violations (p : Part) : List String :=
  (if okSingleRoot p then [] else ["C15.S1 " ++ p.name]) ++
  (match rootOf p with
   | none => []
   | some root =>
     let es := walk [] root
     ((clauseList true ++ strictList).filterMap (fun (id, f) =>
        match es.find? (fun e => !f e) with
        | some e => some (id ++ " " ++ pathOf e)
        | none => none)) ++
     ((p.rules.zipIdx.filter (fun (r, _) => !okStaticRule root r)).map (fun (r, i) => s!"C15.P1{staticRuleCause root r} rule#{i}")))

end Yk.Conf
