/-
  Model of pkg/scheduler/objects/node.go — the ledger part (C01): fields total / occupied / allocated /
  available and the allocation map.  `available` is the CACHED field, updated exactly where the code updates
  it (SubFrom/AddTo/Prune in addAllocationInternal, RemoveAllocation, ReplaceAllocation; recomputed only in
  refreshAvailableResource), so "available = total − allocated − occupied" is a theorem, not a definition.
  Arithmetic is exact (`addX/subX`): no quantity saturates (C18 owns saturation).
-/
import YkModel.Res
namespace Yk
open Res

structure NAlloc where
  key : String
  res : Res
  foreign : Bool
  deriving Repr, DecidableEq

structure Node where
  total : Res
  occupied : Res
  allocated : Res
  available : Res
  allocs : List NAlloc          -- the allocations map (keys unique)
  schedulable : Bool
  deriving Repr, DecidableEq

inductive NodeOp where
  | setCapacity (c : Res)
  | setOccupied (o : Res)
  | updateAllocated (key : String) (newRes : Res)   -- in-place resource update by the RM (partition.UpdateAllocation):
                                                     -- alloc.SetAllocatedResource(new); node.UpdateAllocatedResource(prune(new - old))
  | tryAdd (a : NAlloc)                      -- TryAddAllocation: the scheduler's path
  | forceAdd (a : NAlloc)                    -- AddAllocation: RM-forced / recovery / foreign
  | remove (key : String)
  | updateForeign (a : NAlloc)
  | replace (oldKey : String) (a : NAlloc) (delta : Res)
  | setSchedulable (b : Bool)
  deriving Repr, DecidableEq

namespace Node

def new (total : Res) : Node :=
  let t := prune total
  { total := t, occupied := [], allocated := [], available := t, allocs := [], schedulable := true }

def findAlloc (n : Node) (k : String) : Option NAlloc := n.allocs.find? (fun a => a.key == k)
def eraseAlloc (n : Node) (k : String) : List NAlloc := n.allocs.filter (fun a => a.key != k)
/-- `sn.allocations[key] = alloc` -/
def putAlloc (n : Node) (a : NAlloc) : List NAlloc := n.eraseAlloc a.key ++ [a]

/-- refreshAvailableResource -/
def refresh (n : Node) : Node :=
  { n with available := prune (subX (subX n.total n.allocated) n.occupied) }

/-- resources.Equals on two non-nil vectors -/
def resEquals (a b : Res) : Bool := equals (some a) (some b) false

def addInternal (n : Node) (a : NAlloc) (force : Bool) : Node × Bool :=
  if force || fitInStd (some n.available) (some a.res) then
    let n1 := { n with allocs := n.putAlloc a }
    let n2 := if a.foreign then { n1 with occupied := addX n1.occupied a.res }
              else { n1 with allocated := addX n1.allocated a.res }
    ({ n2 with available := prune (subX n2.available a.res) }, true)
  else (n, false)

/-- one operation; the Bool is the operation's own result where it has one -/
def step (n : Node) : NodeOp → Node × Bool
  | .setCapacity c =>
    if resEquals n.total c then (n, false) else (refresh { n with total := prune c }, true)
  | .setOccupied o =>
    if resEquals n.occupied o then (n, false) else (refresh { n with occupied := o }, true)
  | .updateAllocated k newRes =>
    match n.findAlloc k with
    | none => (n, false)
    | some a =>
      let d := prune (subX newRes a.res)
      (refresh { n with allocs := n.allocs.map (fun b => if b.key == k then { b with res := newRes } else b),
                        allocated := prune (addX n.allocated d) }, true)
  | .tryAdd a => n.addInternal a false
  | .forceAdd a => n.addInternal a true
  | .remove k =>
    match n.findAlloc k with
    | none => (n, false)
    | some a =>
      let n1 := { n with allocs := n.eraseAlloc k }
      let n2 := if a.foreign then { n1 with occupied := subX n1.occupied a.res }
                else { n1 with allocated := prune (subX n1.allocated a.res) }
      ({ n2 with available := addX n2.available a.res }, true)
  | .updateForeign a =>
    match n.findAlloc a.key with
    | none => ({ n with allocs := n.putAlloc a }, false)
    | some ex =>
      let delta := prune (subX a.res ex.res)
      (refresh { n with allocs := n.putAlloc a, occupied := prune (addX n.occupied delta) }, true)
  | .replace oldKey a delta =>
    -- the code dereferences allocations[oldKey]; the caller guarantees it exists
    let n1 := { n with allocs := ({ n with allocs := n.eraseAlloc oldKey }).putAlloc a }
    ({ n1 with allocated := addX n1.allocated delta, available := prune (subX n1.available delta) }, true)
  | .setSchedulable b => ({ n with schedulable := b }, true)

/-! ### the executable statement of the ledger clauses of C01 -/

/-- Σ of the non-foreign allocations bound to the node -/
def sumAllocs (n : Node) : Res := (n.allocs.filter (fun a => !a.foreign)).foldl (fun acc a => addX acc a.res) []

/-- every type mentioned anywhere on the node -/
def allKeys (n : Node) : List String :=
  n.total.keys ++ n.occupied.keys ++ n.allocated.keys ++ n.available.keys ++ (n.allocs.map (fun a => a.res.keys)).flatten

/-- allocated = Σ allocations bound to the node (as sparse vectors) -/
def ledgerAllocated (n : Node) : Bool := (allKeys n).all (fun k => n.allocated.getD k == (sumAllocs n).getD k)
/-- available = capacity − allocated − occupied (as sparse vectors) -/
def ledgerAvailable (n : Node) : Bool :=
  (allKeys n).all (fun k => n.available.getD k == n.total.getD k - n.allocated.getD k - n.occupied.getD k)

def availNonNeg (n : Node) : Bool := n.available.all (fun p => decide (0 ≤ p.2))

end Node
end Yk
