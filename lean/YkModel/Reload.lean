/-
  Model of the configuration reload path (C16):
    context.go    processRMConfigUpdateEvent / UpdateRMSchedulerConfig / updateSchedulerConfig
    partition.go  updatePartitionDetails, updateQueues (ApplyConf + MergeParentProperties + UpdateQueueProperties,
                  NewConfiguredQueue for new queues, MarkQueueForRemoval of the children a level no longer names),
                  initialPartitionFromConfig / addQueue (the fresh load, also the dry run of an update)
    queue.go      applyConf, setResources, setTemplate, mergeProperties, filterParentProperty, InheritParentTemplate,
                  UpdateQueueProperties, addChildQueue (template inheritance), MarkQueueForRemoval, IsEmpty, RemoveQueue
    partition_manager.go  cleanQueues
  A queue tree is a list of queues in which parents come before their children (the order of the DAO walk and of
  creation); a configuration is the pre-order list of its queue entries — exactly the order in which updateQueues /
  addQueue visit them.  Resource texts, ACL texts and template texts enter parsed by the real parsers (flags say which
  of the three fallible steps of applyConf fails); ACLs themselves are not part of the state (C17 owns them).
  Core Lean only; every definition is executable (the driver runs them against the implementation).
-/
import YkModel.Res
namespace Yk.Reload
open Yk Yk.Res

abbrev Props := List (String × String)

inductive QState where
  | active | draining | stopped
  deriving DecidableEq, Repr, Inhabited

/-- template.Template -/
structure Tpl where
  maxApps : Nat
  props : Props
  max : ORes
  guaranteed : ORes
  deriving DecidableEq, Repr

/-- the fields UpdateQueueProperties derives from the property texts -/
structure Settings where
  sort : String          -- fifo | fair
  prioSort : Bool
  prioOffset : Int
  prioFence : Bool
  preempt : String       -- default | fence | disabled
  preemptDelay : Nat     -- nanoseconds
  quotaDelay : Nat
  backoff : Nat
  backoffDelay : Nat
  deriving DecidableEq, Repr

/-- objects.Queue: configuration-derived fields first, then what the running system books on it -/
structure RQ where
  path : String
  parent : String        -- path of the parent, "" for the root
  leaf : Bool
  managed : Bool
  state : QState
  max : ORes
  guaranteed : ORes
  maxApps : Nat
  props : Props          -- sq.properties: own properties merged over the filtered parent properties
  set : Settings
  tpl : Option Tpl
  allocated : Res
  pending : Res
  preempting : Res
  apps : List String
  reserved : List (String × Nat)
  running : Nat
  allocating : List String
  deriving DecidableEq, Repr

abbrev Tree := List RQ

/-- configs.ChildTemplate with the resources as NewResourceFromConf reads them -/
structure TplConf where
  maxApps : Nat
  props : Props
  maxRaw : Props
  guarRaw : Props
  max : Res
  guaranteed : Res
  deriving DecidableEq, Repr

/-- one queue entry of a configuration (configs.QueueConfig), in the pre-order list of the partition's queues -/
structure QC where
  path : String          -- lower-cased full path
  parent : String        -- path of the parent entry, "" for the root
  name : String          -- lower-cased own name
  isParent : Bool        -- conf.Parent || len(conf.Queues) > 0
  max : Res
  guaranteed : Res
  maxApps : Nat
  props : Props
  tpl : TplConf
  aclBad : Bool          -- security.NewACL refuses the submit or admin ACL text
  tplBad : Bool          -- template.FromConf refuses the child template (resource text)
  resBad : Bool          -- NewResourceFromConf refuses a resource text
  deriving DecidableEq, Repr

inductive CErr where
  | validator | root | rules | acl | tpl | res | noParent | leafParent | drainingParent
  deriving DecidableEq, Repr

/-! ### property texts -/

def Props.get? (p : Props) (k : String) : Option String := (p.find? (fun e => e.1 = k)).map (·.2)

/-- strings.ToLower on ASCII text (written over the character list so that the kernel can evaluate it) -/
def lower (s : String) : String := String.ofList (s.toList.map Char.toLower)

/-- filterParentProperty -/
def filterParentProperty (k v : String) : String :=
  if k = "priority.policy" then "default"
  else if k = "priority.offset" then "0"
  else if k = "preemption.policy" then (if lower v = "disabled" then v else "default")
  else v

/-- mergeProperties: the filtered parent properties, overridden by the queue's own -/
def mergeProps (own parent : Props) : Props :=
  own ++ (parent.filter (fun e => !(own.any (fun o => o.1 = e.1)))).map (fun e => (e.1, filterParentProperty e.1 e.2))

def isDigit (c : Char) : Bool := c.isDigit
def digitsVal (ds : List Char) : Nat := ds.foldl (fun a c => a * 10 + (c.toNat - 48)) 0

/-- strconv.ParseInt(v, 10, 32), 0 on any error (priorityOffset) -/
def parseInt32 (v : String) : Int :=
  let cs := v.toList
  let (neg, ds) : Bool × List Char := match cs with
    | '-' :: r => (true, r)
    | '+' :: r => (false, r)
    | r => (false, r)
  if ds.isEmpty || !(ds.all isDigit) then 0 else
  let n : Int := digitsVal ds
  let x : Int := if neg then -n else n
  if x < -2147483648 || x > 2147483647 then 0 else x

/-- strconv.ParseUint(v, 10, 64), 0 on any error (unschedulableAskBackoff) -/
def parseUint64 (v : String) : Nat :=
  let ds := v.toList
  if ds.isEmpty || !(ds.all isDigit) then 0 else
  let n := digitsVal ds
  if n > 18446744073709551615 then 0 else n

def unitNs (u : List Char) : Option Nat :=
  match String.ofList u with
  | "ns" => some 1
  | "us" => some 1000
  | "µs" => some 1000
  | "μs" => some 1000
  | "ms" => some 1000000
  | "s" => some 1000000000
  | "m" => some 60000000000
  | "h" => some 3600000000000
  | _ => none

/-- the groups `<digits><unit>` of a duration text (time.ParseDuration without fractions: the generators do not
    produce fractional durations; anything else is refused) -/
def durGroups : Nat → List Char → Option Nat
  | 0, _ => none
  | fuel + 1, cs =>
    let ds := cs.takeWhile isDigit
    let rest := cs.dropWhile isDigit
    if ds.isEmpty then none else
    let u := rest.takeWhile (fun c => !isDigit c && c != '.')
    let rest' := rest.dropWhile (fun c => !isDigit c && c != '.')
    match unitNs u with
    | none => none
    | some m =>
      if rest'.isEmpty then some (digitsVal ds * m)
      else (durGroups fuel rest').map (fun x => digitsVal ds * m + x)

/-- convertDelay: the parsed duration when it parses and is positive, the default otherwise -/
def convertDelay (v : String) (dflt : Nat) : Nat :=
  let cs := v.toList
  let (neg, body) : Bool × List Char := match cs with
    | '-' :: r => (true, r)
    | '+' :: r => (false, r)
    | r => (false, r)
  if body = ['0'] then dflt else
  match durGroups (body.length + 1) body with
  | none => dflt
  | some ns => if neg || ns = 0 then dflt else ns

def defaultDelay : Nat := 30000000000

/-- resetProperties + the loop of UpdateQueueProperties -/
def deriveSettings (leaf : Bool) (p : Props) : Settings :=
  { sort := if leaf then (match p.get? "application.sort.policy" with | some v => if v = "fair" then "fair" else "fifo" | none => "fifo") else "fair",
    prioSort := match p.get? "application.sort.priority" with | some v => !(lower v = "disabled") | none => true,
    prioOffset := match p.get? "priority.offset" with | some v => parseInt32 v | none => 0,
    prioFence := match p.get? "priority.policy" with | some v => lower v = "fence" | none => false,
    preempt := match p.get? "preemption.policy" with
      | some v => if lower v = "fence" then "fence" else if lower v = "disabled" then "disabled" else "default"
      | none => "default",
    preemptDelay := if leaf then (match p.get? "preemption.delay" with | some v => convertDelay v defaultDelay | none => defaultDelay) else defaultDelay,
    quotaDelay := match p.get? "quota.preemption.delay" with | some v => convertDelay v 0 | none => 0,
    backoff := match p.get? "application.unschedasks.backoff" with | some v => parseUint64 v | none => 0,
    backoffDelay := match p.get? "application.unschedasks.backoff.delay" with | some v => convertDelay v defaultDelay | none => defaultDelay }

/-! ### templates and resources -/

/-- isMapEmpty -/
def mapEmpty (m : Props) : Bool := m.all (fun e => e.1 = "" || e.2 = "")

/-- setResources: only a strictly positive vector is a limit, anything else clears it -/
def setRes (c : Res) : ORes := if strictlyGreaterThanZero (some c) then some c else none

/-- template.FromConf -/
def TplConf.build (t : TplConf) : Option Tpl :=
  if t.maxApps = 0 && mapEmpty t.props && mapEmpty t.guarRaw && mapEmpty t.maxRaw then none
  else some { maxApps := t.maxApps, props := t.props.filter (fun e => !(e.1 = "") && !(e.2 = "")),
              max := setRes t.max, guaranteed := setRes t.guaranteed }

/-! ### the tree -/

def Tree.find (t : Tree) (p : String) : Option RQ := List.find? (fun q => q.path = p) t

/-- in-place update of the queue object(s) with path `p` -/
def Tree.upd (t : Tree) (p : String) (f : RQ → RQ) : Tree := t.map (fun q => if q.path = p then f q else q)

def Tree.hasChild (t : Tree) (p : String) : Bool := t.any (fun q => q.parent = p)

def Tree.parentProps (t : Tree) (p : String) : Props := match t.find p with | some q => q.props | none => []

/-- the error applyConf returns for an entry: ACL first, then the child template (parent-type queues only), then the
    resources (not looked at for a queue NAMED root) — a function of the entry alone -/
def entryErr (c : QC) : Option CErr :=
  if c.aclBad then some .acl
  else if c.isParent && c.tplBad then some .tpl
  else if !(c.name = "root") && c.resBad then some .res
  else none

/-- Queue.applyConf on a queue object: what it has changed when it returns (also when it returns an error: the
    fields before the failing step are already written). Resources are skipped for a queue NAMED root, the maximum
    number of applications is set on every queue. -/
def applyConf (q : RQ) (c : QC) : RQ :=
  if c.aclBad then q else
  let q1 := { q with managed := true, state := QState.active, leaf := !c.isParent }
  if c.isParent && c.tplBad then q1 else
  let q2 := if c.isParent then { q1 with tpl := c.tpl.build } else q1
  if !(c.name = "root") && c.resBad then q2 else
  let q3 := if c.name = "root" then q2 else { q2 with max := setRes c.max, guaranteed := setRes c.guaranteed }
  { q3 with maxApps := c.maxApps, props := c.props }

/-- ApplyConf + MergeParentProperties + InheritParentTemplate + UpdateQueueProperties on an existing queue (`pq` = the
    parent queue as it is now, none for the top queue, which updatePartitionDetails only applies and re-derives): a
    parent-type queue without own child template takes the template its parent holds, as addChildQueue does -/
def updExisting (q : RQ) (c : QC) (pq : Option RQ) : RQ :=
  let q' := applyConf q c
  match entryErr c with
  | some _ => q'
  | none =>
    match pq with
    | none => { q' with set := deriveSettings q'.leaf q'.props }
    | some p =>
      let props := mergeProps q'.props p.props
      let q'' := { q' with props := props, set := deriveSettings q'.leaf props }
      if q''.leaf then q'' else { q'' with tpl := match q''.tpl with | none => p.tpl | some x => some x }

/-- newBlankQueue + the fields NewConfiguredQueue sets before applyConf -/
def blank (c : QC) : RQ :=
  { path := c.path, parent := c.parent, leaf := false, managed := true, state := .active, max := none, guaranteed := none,
    maxApps := c.maxApps, props := [], set := deriveSettings false [], tpl := none,
    allocated := [], pending := [], preempting := [], apps := [], reserved := [], running := 0, allocating := [] }

/-- NewConfiguredQueue below parent `p` (none: the root): applyConf, merged properties, derived settings, and in
    addChildQueue a parent-type queue without own template takes the template the parent holds NOW -/
def newConfigured (c : QC) (p : Option RQ) : RQ :=
  let q' := applyConf (blank c) c
  match p with
  | none => { q' with set := deriveSettings q'.leaf q'.props }
  | some p =>
    let props := mergeProps q'.props p.props
    let q'' := { q' with props := props, set := deriveSettings q'.leaf props }
    if q''.leaf then q'' else { q'' with tpl := match q''.tpl with | none => p.tpl | some x => some x }

/-- one entry of the configuration walk (updateQueues loop body / addQueue loop body) -/
def applyEntry (t : Tree) (c : QC) : Tree × Option CErr :=
  match t.find c.path with
  | some _ =>
    let pq := if c.parent = "" then none else t.find c.parent
    (t.upd c.path (fun q => updExisting q c pq), entryErr c)
  | none =>
    match entryErr c with
    | some e => (t, some e)
    | none =>
      if c.parent = "" then (t ++ [newConfigured c none], none)
      else match t.find c.parent with
        | none => (t, some .noParent)
        | some p =>
          if p.leaf then (t, some .leafParent)
          else if p.state = .draining then (t, some .drainingParent)
          else (t ++ [newConfigured c (some p)], none)

/-- the walk stops at the first error and leaves what it has done -/
def applyAll : Tree → List QC → Tree × Option CErr
  | t, [] => (t, none)
  | t, c :: cs =>
    match applyEntry t c with
    | (t', some e) => (t', some e)
    | (t', none) => applyAll t' cs

def QState.remove : QState → QState
  | .active => .draining
  | .draining => .draining
  | .stopped => .stopped

def configured (conf : List QC) (p : String) : Bool := conf.any (fun c => c.path = p)

/-- MarkQueueForRemoval of every child a visited level does not name, recursively through the managed queues: under the
    tree invariant "a queue below an unmanaged queue is unmanaged" (checked on every dumped tree) these are exactly
    the managed queues the configuration does not name -/
def markMissing (t : Tree) (conf : List QC) : Tree :=
  t.map (fun q => if q.managed && !(configured conf q.path) then { q with state := q.state.remove } else q)

/-- the Remove event on one queue object (doRemoveQueue) -/
def RQ.mark (q : RQ) : RQ := { q with state := q.state.remove }

/-- Queue.MarkQueueForRemoval on the queue at path `p`, as the code walks: nothing at an unmanaged queue (the walk does
    not go below it either); at a managed queue the Remove event on the queue itself, then the same call on every child
    it has — a leaf has none. The fuel is the depth the walk may reach (callers pass the number of queues). -/
def markDown : Nat → Tree → String → Tree
  | 0, t, _ => t
  | fuel + 1, t, p =>
    match t.find p with
    | none => t
    | some q =>
      if !q.managed then t
      else ((t.filter (fun c => decide (c.parent = p))).map (·.path)).foldl (fun acc cp => markDown fuel acc cp) (t.upd p RQ.mark)

/-- the loops that close the levels of updateQueues: for every visited (configured) queue, MarkQueueForRemoval on each of
    its children the configuration does not name. (The code runs the loop of a level when the walk leaves that level;
    the walk itself never reads the state of a queue the configuration does not name, so the marks are collected here.) -/
def markRec (t : Tree) (conf : List QC) : Tree :=
  conf.foldl (fun acc c =>
    ((acc.filter (fun ch => decide (ch.parent = c.path) && !(configured conf ch.path))).map (·.path)).foldl
      (fun a r => markDown t.length a r) acc) t

/-- updateQueues with the marking as the code performs it (`updateTree` below uses the characterisation `markMissing`;
    YkProofs/ReloadMark.lean proves the two equal on every well-formed tree) -/
def updateTreeRec (t : Tree) (conf : List QC) : Tree × Option CErr :=
  match applyAll t conf with
  | (t', some e) => (t', some e)
  | (t', none) => (markRec t' conf, none)

/-- parents come first and are present, paths are non-empty and pairwise distinct (`seen` = paths so far) -/
def pfAux (seen : List String) : Tree → Bool
  | [] => true
  | q :: r =>
    (decide (q.parent = "") || seen.contains q.parent) && !(seen.contains q.path) && !(decide (q.path = "")) && pfAux (q.path :: seen) r

def parentsFirst (t : Tree) : Bool := pfAux [] t

/-- W0: the parent of a managed queue is managed (nothing managed below an unmanaged queue) -/
def w0 (t : Tree) : Bool :=
  t.all (fun x => !x.managed || t.all (fun y => !(decide (y.path = x.parent)) || y.managed))

/-- updateQueues over the whole configuration (an error return skips the marking of the enclosing levels) -/
def updateTree (t : Tree) (conf : List QC) : Tree × Option CErr :=
  match applyAll t conf with
  | (t', some e) => (t', some e)
  | (t', none) => (markMissing t' conf, none)

/-! ### partitions and the cluster context -/

/-- what a partition shows besides its queues: the node sorting policy in force (objects.NewNodeSortingPolicy: type and
    resource weights, weights as printed), the preemption flags (updatePreemption) and the placement rules in force
    (names in order; the rule DAOs as one canonical text) -/
structure PSettings where
  nodeSort : String := ""
  weights : List (String × String) := []
  preemption : Bool := true
  quotaPreemption : Bool := false
  ruleNames : List String := []
  rules : String := ""
  deriving DecidableEq, Repr

structure Part where
  tree : Tree
  settings : PSettings   -- node sorting policy, preemption flags, placement rules
  limits : String        -- the user / group limits last handed to the user manager for this partition (opaque text)
  deriving DecidableEq, Repr

structure PC where
  name : String
  rootName : String      -- name of the top queue as written
  queues : List QC
  settings : PSettings   -- as a fresh load of the configuration shows them
  limits : String
  rulesBad : Bool        -- AppPlacementManager.UpdateRules refuses the rule list
  deriving DecidableEq, Repr

/-- newPartitionContext / initialPartitionFromConfig: the fresh load, also the dry run of an update (which, silenced,
    does not hand the limits to the user manager: only its tree and its error matter) -/
def PC.fresh (pc : PC) : Except CErr Part :=
  if !(pc.rootName = "root") then .error .root else
  match applyAll [] pc.queues with
  | (t, none) => .ok { tree := t, settings := pc.settings, limits := pc.limits }
  | (_, some e) => .error e

/-- updatePartitionDetails: placement rules first (UpdateRules: the only step that can refuse what the dry run let
    through — nothing has been written at that point), THEN the node sorting policy (updateNodeSortingPolicy) and the
    preemption flags, the queues, and when they went through the limits -/
def updatePartition (p : Part) (pc : PC) : Part × Option CErr :=
  if !(pc.rootName = "root") then (p, some .root) else
  if pc.rulesBad then (p, some .rules) else
  match updateTree p.tree pc.queues with
  | (t, some e) => ({ tree := t, settings := pc.settings, limits := p.limits }, some e)
  | (t, none) => ({ tree := t, settings := pc.settings, limits := pc.limits }, none)

abbrev Cluster := List (String × Part)

def Cluster.get (cl : Cluster) (n : String) : Option Part := (List.find? (fun e => e.1 = n) cl).map (·.2)
/-- `cc.partitions[n] = p` (a Go map: the entry found by `get` is the one replaced) -/
def Cluster.put : Cluster → String → Part → Cluster
  | [], _, _ => []
  | e :: r, n, p => if e.1 = n then (n, p) :: r else e :: Cluster.put r n p

/-- the loop of updateSchedulerConfig over the partitions of the configuration: per partition, dry run then update
    (existing) or create (new) — in configuration order -/
def updateCluster : Cluster → List PC → Cluster × Option CErr
  | cl, [] => (cl, none)
  | cl, pc :: rest =>
    match cl.get pc.name with
    | some p =>
      match pc.fresh with
      | .error e => (cl, some e)
      | .ok _ =>
        match updatePartition p pc with
        | (p', some e) => (cl.put pc.name p', some e)
        | (p', none) => updateCluster (cl.put pc.name p') rest
    | none =>
      match pc.fresh with
      | .error e => (cl, some e)
      | .ok p => updateCluster (cl ++ [(pc.name, p)]) rest

/-- updateSchedulerConfig: the loop, then the partitions the configuration no longer names are stopped and removed
    (what the code intends: on the unchanged tree that call does not return — clause C16.P1) -/
def updateSchedulerConfig (cl : Cluster) (conf : List PC) : Cluster × Option CErr :=
  match updateCluster cl conf with
  | (cl', some e) => (cl', some e)
  | (cl', none) => (cl'.filter (fun e => conf.any (fun pc => pc.name = e.1)), none)

structure CState where
  cluster : Cluster
  text : String          -- the configuration in force (its checksum is what the event path compares)
  deriving DecidableEq, Repr

/-- processRMConfigUpdateEvent (`viaEvent`) / UpdateRMSchedulerConfig: validator, checksum short-cut (event path only),
    update; the configuration in force is replaced only on success -/
def configUpdate (s : CState) (viaEvent valid : Bool) (text : String) (conf : List PC) : CState × Option CErr :=
  if !valid then (s, some .validator)
  else if viaEvent && text = s.text then (s, none)
  else match updateSchedulerConfig s.cluster conf with
    | (cl, some e) => ({ s with cluster := cl }, some e)
    | (cl, none) => ({ cluster := cl, text := text }, none)

/-! ### partitionManager.cleanQueues -/

/-- the guard of cleanQueues, Queue.IsEmpty and the checks of Queue.RemoveQueue -/
def removable (t : Tree) (q : RQ) : Bool :=
  (q.state = .draining || !q.managed) &&
  (if q.leaf then q.apps.isEmpty else !(t.hasChild q.path)) &&
  !(q.managed && q.state = .active) && !(t.hasChild q.path) && q.apps.isEmpty

def cleanStep (t : Tree) (q : RQ) : Tree := if removable t q then t.filter (fun x => !(x.path = q.path)) else t

/-- children before parents: the tree lists parents first, the walk goes through it backwards -/
def clean (t : Tree) : Tree := t.reverse.foldl cleanStep t

/-! ### submission through the provided rule (the part of placement the draining clauses need; C17 owns the rest) -/

/-- the path without its last part ("" for a name without dot); over the character list so that the kernel can evaluate it -/
def parentPath (p : String) : String := String.ofList (((p.toList.reverse.dropWhile (fun c => c != '.')).drop 1).reverse)

/-- the nearest existing queue on the way up from `p` (PlaceApplication / createQueue walk) -/
def nearest (t : Tree) : Nat → String → Option RQ
  | 0, _ => none
  | fuel + 1, p =>
    match t.find p with
    | some q => some q
    | none => if p = "" then none else nearest t fuel (parentPath p)

/-- would an application that names queue `p` (qualified, lower case; open ACLs) be taken: an existing queue must be
    an active leaf; a missing one is created only by a rule with `create`, below a queue that is neither a leaf nor
    draining (addChildQueue) -/
def admits (t : Tree) (p : String) (create : Bool) : Bool :=
  match t.find p with
  | some q => q.leaf && !(q.state = .draining)
  | none =>
    create && (match nearest t (p.length + 1) (parentPath p) with
      | some a => !a.leaf && !(a.state = .draining)
      | none => false)

/-! ### what a parent offers to the scheduling cycle -/

/-- Queue.sortQueues before the sorting: nothing for a leaf; otherwise the children that are not STOPPED and have
    pending resources — a draining child is offered like an active one (its applications keep running) -/
def offered (t : Tree) (p : String) : List String :=
  match t.find p with
  | none => []
  | some q =>
    if q.leaf then []
    else (t.filter (fun c => decide (c.parent = p) && !(decide (c.state = .stopped)) && strictlyGreaterThanZero (some c.pending))).map (·.path)

/-! ### views the statements are about -/

/-- what the running system books on a queue -/
structure Runtime where
  allocated : Res
  pending : Res
  preempting : Res
  apps : List String
  reserved : List (String × Nat)
  running : Nat
  allocating : List String
  deriving DecidableEq, Repr

def RQ.runtime (q : RQ) : Runtime :=
  { allocated := q.allocated, pending := q.pending, preempting := q.preempting, apps := q.apps, reserved := q.reserved,
    running := q.running, allocating := q.allocating }

def Runtime.zero : Runtime := { allocated := [], pending := [], preempting := [], apps := [], reserved := [], running := 0, allocating := [] }

/-- the configuration-derived fields of a queue. The maximum of the top queue is the cluster size (set from the
    nodes), a leaf has no use for a child template. -/
structure CfgView where
  leaf : Bool
  managed : Bool
  state : QState
  max : ORes
  guaranteed : ORes
  maxApps : Nat
  props : Props
  set : Settings
  tpl : Option Tpl
  deriving DecidableEq, Repr

def RQ.cfgView (q : RQ) : CfgView :=
  { leaf := q.leaf, managed := q.managed, state := q.state, max := if q.parent = "" then none else q.max,
    guaranteed := if q.parent = "" then none else q.guaranteed, maxApps := q.maxApps, props := q.props, set := q.set,
    tpl := if q.leaf then none else q.tpl }

/-- well-formed configuration list: paths pairwise distinct, every entry but the top one comes after its parent entry,
    which is of parent type (what flattening a validated configuration tree in pre-order gives) -/
def confWFAux (seen : List QC) : List QC → Bool
  | [] => true
  | c :: cs =>
    !(seen.any (fun p => p.path = c.path)) &&
    (c.parent = "" || seen.any (fun p => p.path = c.parent && p.isParent)) &&
    confWFAux (seen ++ [c]) cs

def confWF (conf : List QC) : Bool := confWFAux [] conf

/-- the tree names the parent of every queue the configuration names the way the configuration does (both are the path
    without its last part) -/
def parentsAgree (t : Tree) (conf : List QC) : Bool :=
  conf.all (fun c => match t.find c.path with | some q => decide (q.parent = c.parent) | none => true)

/-- no queue below the top queue is NAMED root -/
def noNamedRoot (conf : List QC) : Bool := conf.all (fun c => !(c.name = "root") || c.parent = "")

/-- every queue names its parent by its own path without the last part -/
def pathParents (t : Tree) : Bool := t.all (fun q => decide (q.parent = parentPath q.path))
def confPaths (conf : List QC) : Bool := conf.all (fun c => decide (c.parent = parentPath c.path) && !(decide (c.path = "")))

end Yk.Reload
