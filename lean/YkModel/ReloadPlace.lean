/-
  C16 × placement: the queue tree of the reload model (YkModel/Reload.lean) as the tree PlaceApplication / AddApplication
  work on (YkModel/Place.lean, the model C17 is about), so that the draining clauses of C16 are judged with the whole rule
  chain: every configured rule, the recovery rule the manager appends, and the "no rule matched, use root.default"
  fall-back that runs inside the iteration of the LAST rule.
  ACLs are not part of the reload model's queue state: the top queue lets everybody in (every configuration the reload
  harness generates says `submitacl: "*"` on root and nothing anywhere else), all other queues have empty ACLs.
-/
import YkModel.Reload
import YkModel.Place
namespace Yk.Place

/-- one queue of the reload model as a queue of the placement model -/
def ofRQ (q : Reload.RQ) : Queue :=
  { path := splitDot q.path.toList, leaf := q.leaf, managed := q.managed, draining := decide (q.state = .draining),
    sacl := { all := decide (q.parent = "") }, aacl := {}, set := q.set }

def ofReload (t : Reload.Tree) : Tree := t.map ofRQ

/-- the queue (lower-cased dotted path) an accepted submission ends up in, "" when it is refused -/
def Outcome.queueText : Outcome → String
  | .accepted q => String.ofList (joinDot q)
  | _ => ""

/-- PartitionContext.AddApplication on a tree of the reload model: the answer -/
def submit (t : Reload.Tree) (rules : List Rule) (a : App) : Outcome :=
  (addApp (fun _ _ => false) (ofReload t) (buildRules rules) a).2

end Yk.Place
