import YkModel.Reload
/-
  Placement of applications (C17): executable model of
    pkg/common/security/acl.go           NewACL / CheckAccess
    pkg/scheduler/placement/filter.go    newFilter / allowUser
    pkg/scheduler/placement/*_rule.go    provided / user / tag / fixed / recovery rules with parent rules
    pkg/scheduler/placement/placement.go PlaceApplication
    pkg/scheduler/objects/queue.go       CheckSubmitAccess, addChildQueue (template), MarkQueueForRemoval
    pkg/scheduler/partition.go           AddApplication / createQueue / createRecoveryQueue / getQueueInternal

  Strings are `List Char` (ASCII case folding); a dotted queue name is the list of its parts (`strings.Split(name, ".")`):
  `strings.HasPrefix(name, "root.")` is "first part = root and at least two parts", `name[0:LastIndex(name, ".")]`
  is `dropLast`, a name without a dot is a one-element list.  Regular expressions of filters are an oracle
  `rx pattern name` (the harness reports its value for the generated patterns and names).
-/
namespace Yk.Place

abbrev Str := List Char
/-- parts of a dotted queue name -/
abbrev QName := List Str

def lower (s : Str) : Str := s.map Char.toLower
def lowerName (n : QName) : QName := n.map lower

def sRoot : Str := ['r', 'o', 'o', 't']
def sRecovery : Str := ['@', 'r', 'e', 'c', 'o', 'v', 'e', 'r', 'y', '@']
def sDefault : Str := ['d', 'e', 'f', 'a', 'u', 'l', 't']
def sDotReplace : Str := ['_', 'd', 'o', 't', '_']
def sStar : Str := ['*']
/-- common.RecoveryQueueFull -/
def recoveryQ : QName := [sRoot, sRecovery]
/-- common.DefaultPlacementQueue -/
def defaultQ : QName := [sRoot, sDefault]
def rootQ : QName := [sRoot]

/-- strings.Split(s, c) for a one-character separator -/
def splitOn (c : Char) : Str → List Str
  | [] => [[]]
  | x :: xs =>
    if x = c then [] :: splitOn c xs
    else match splitOn c xs with
      | [] => [[x]]
      | h :: t => (x :: h) :: t

def splitDot (s : Str) : QName := splitOn '.' s
def joinDot (n : QName) : Str := List.intercalate ['.'] n
/-- placement.replaceDot -/
def replaceDot (s : Str) : Str := List.intercalate sDotReplace (splitDot s)

def charIn (cs : Str) (c : Char) : Bool := cs.contains c

/-- configs.QueueNameRegExp `^[a-zA-Z0-9_:#/@-]{1,64}$` -/
def validQueueName (s : Str) : Bool :=
  decide (1 ≤ s.length) && decide (s.length ≤ 64) && s.all (fun c => c.isAlphanum || charIn ['_', ':', '#', '/', '@', '-'] c)

/-- `^[_a-zA-Z]<body>*[$]?$` -/
def nameWithDollar (body : Char → Bool) (s : Str) : Bool :=
  match s with
  | [] => false
  | c :: rest =>
    (c.isAlpha || c == '_') &&
      (if rest.getLast? == some '$' then rest.dropLast.all body else rest.all body)

def nameNoDollar (body : Char → Bool) (s : Str) : Bool :=
  match s with
  | [] => false
  | c :: rest => (c.isAlpha || c == '_') && rest.all body

/-- security.userNameRegExp `^[_a-zA-Z][a-zA-Z0-9_.@-]*[$]?$` -/
def aclUserValid : Str → Bool := nameWithDollar (fun c => c.isAlphanum || charIn ['_', '.', '@', '-'] c)
/-- security.groupRegExp `^[_a-zA-Z][a-zA-Z0-9_-]*$` -/
def aclGroupValid : Str → Bool := nameNoDollar (fun c => c.isAlphanum || charIn ['_', '-'] c)
/-- configs.UserRegExp `^[_a-zA-Z][a-zA-Z0-9:#/_.@-]*[$]?$` -/
def cfgUserValid : Str → Bool := nameWithDollar (fun c => c.isAlphanum || charIn [':', '#', '/', '_', '.', '@', '-'] c)
/-- configs.GroupRegExp `^[_a-zA-Z][a-zA-Z0-9:_.-]*$` -/
def cfgGroupValid : Str → Bool := nameNoDollar (fun c => c.isAlphanum || charIn [':', '_', '.', '-'] c)
/-- configs.SpecialRegExp `[\^$*+?()\[{}|]` matches somewhere -/
def hasSpecial (s : Str) : Bool := s.any (charIn ['^', '$', '*', '+', '?', '(', ')', '[', '{', '}', '|'])

/-! ### ACL (security/acl.go) -/

structure User where
  name : Str
  groups : List Str
deriving Repr, DecidableEq

structure Acl where
  users : List Str := []
  groups : List Str := []
  all : Bool := false
deriving Repr, DecidableEq

def isSpace (c : Char) : Bool := charIn [' ', '\t', '\n', '\r'] c
def trimLeft : Str → Str
  | [] => []
  | c :: r => if isSpace c then trimLeft r else c :: r
/-- strings.TrimSpace (ASCII white space) -/
def trimSpace (s : Str) : Str := (trimLeft (trimLeft s).reverse).reverse

/-- security.NewACL; `none` = error (more than one space) -/
def newACL (s : Str) : Option Acl :=
  if s = [] then some {} else
  let fields := splitOn ' ' s
  if fields.length > 2 then none else
  let all0 := decide (trimSpace s = sStar)
  let ulist := splitOn ',' (fields.headD [])
  -- setUsers
  let usersAll : List Str × Bool :=
    if ulist = [sStar] then ([], true) else (ulist.filter (fun u => !u.isEmpty && aclUserValid u), all0)
  match fields with
  | [_, g] =>
    -- setGroups
    let glist := splitOn ',' g
    if usersAll.2 then some { users := usersAll.1, groups := [], all := true }
    else if glist = [sStar] then some { users := [], groups := [], all := true }
    else some { users := usersAll.1, groups := glist.filter (fun x => !x.isEmpty && aclGroupValid x), all := false }
  | _ => some { users := usersAll.1, groups := [], all := usersAll.2 }

/-- ACL.CheckAccess -/
def Acl.check (a : Acl) (u : User) : Bool :=
  a.all || a.users.contains u.name || u.groups.any (fun g => a.groups.contains g)

/-! ### queue tree -/

structure Queue where
  /-- lower-cased parts, first part `root` -/
  path : QName
  leaf : Bool
  managed : Bool
  draining : Bool := false
  sacl : Acl := {}
  aacl : Acl := {}
  /-- canonical text of the child template ([] = none) -/
  tpl : Str := []
  /-- canonical text of the queue's own template-controlled settings ([] = blank queue) -/
  cfg : Str := []
  /-- the properties of the child template (what applyTemplate copies into the properties of a new leaf) -/
  tplProps : Reload.Props := []
  /-- the effective settings UpdateQueueProperties derives from the queue's properties: sort policy, priority sort /
      policy / offset, preemption policy / delay, quota preemption delay, ask backoff (Yk.Reload.deriveSettings, the
      derivation of the C16 model) -/
  set : Reload.Settings := Reload.deriveSettings leaf []
deriving Repr, DecidableEq

abbrev Tree := List Queue

def findQ (t : Tree) (p : QName) : Option Queue := t.find? (fun q => decide (q.path = p))

/-- PartitionContext.getQueueInternal: lower-cases, first part must be root, walks down by child name -/
def getQueue (t : Tree) (n : QName) : Option Queue :=
  if (lowerName n).head? = some sRoot then findQ t (lowerName n) else none

/-- common.IsRecoveryQueue (strings.EqualFold with root.@recovery@) -/
def isRecoveryName (n : QName) : Bool := decide (lowerName n = recoveryQ)

def ownAllows (t : Tree) (u : User) (p : QName) : Bool :=
  match findQ t p with
  | some q => q.sacl.check u || q.aacl.check u
  | none => false

/-- Queue.CheckSubmitAccess on the queue with the (reversed) path: recovery queue never passes, own submit or admin
    ACL, else the parent -/
def checkSubmitR (t : Tree) (u : User) : List Str → Bool
  | [] => false
  | x :: rest =>
    if isRecoveryName (x :: rest).reverse then false
    else ownAllows t u (x :: rest).reverse || checkSubmitR t u rest

def checkSubmit (t : Tree) (u : User) (p : QName) : Bool := checkSubmitR t u p.reverse

/-- the walk-up loops of PlaceApplication / createQueue: `current = current[0:LastIndex(current, ".")]` until a queue
    exists. On the reversed parts. `none` = a name without a dot is sliced at -1: panic -/
def walkUpR (t : Tree) : List Str → Option Queue
  | [] => none
  | [_] => none
  | _ :: y :: rest =>
    match getQueue t (y :: rest).reverse with
    | some q => some q
    | none => walkUpR t (y :: rest)

def walkUp (t : Tree) (n : QName) : Option Queue := walkUpR t n.reverse

/-! ### filter (placement/filter.go) -/

structure Filter where
  allow : Bool := true
  empty : Bool := true
  users : List Str := []
  groups : List Str := []
  /-- pattern when a (compiling) regular expression is set -/
  userRx : Option Str := none
  groupRx : Option Str := none
  /-- the type text of the configuration (not a field of the Go struct; only the specification reads it) -/
  cfgType : Str := []
deriving Repr, DecidableEq

def sDeny : Str := ['d', 'e', 'n', 'y']

/-- one list of a filter (users or groups) as newFilter reads it: the names kept, the regular expression, and whether
    the list leaves the filter `empty`.
    * no entry: nothing, the filter stays empty;
    * exactly one entry: a regular expression when it has a special character (kept only if it compiles), else a name if
      it is a valid one; `empty` is cleared whatever the entry is;
    * two or more entries: the valid names; `empty` is cleared once for the whole list (after the loop), also when no
      entry is a usable name -/
def filterList (valid : Str → Bool) (compiles : Str → Bool) : List Str → List Str × Option Str × Bool
  | [] => ([], none, true)
  | [u] =>
    if hasSpecial u then ([], if compiles u then some u else none, false)
    else if valid u then ([u], none, false) else ([], none, false)
  | us => (us.filter valid, none, false)

/-- newFilter; `compiles` tells whether regexp.Compile accepts the pattern; the type is `deny` under case folding
    (strings.EqualFold) -/
def newFilter (compiles : Str → Bool) (type : Str) (users groups : List Str) : Filter :=
  { allow := decide (lower type ≠ sDeny),
    empty := (filterList cfgUserValid compiles users).2.2 && (filterList cfgGroupValid compiles groups).2.2,
    users := (filterList cfgUserValid compiles users).1, groups := (filterList cfgGroupValid compiles groups).1,
    userRx := (filterList cfgUserValid compiles users).2.1, groupRx := (filterList cfgGroupValid compiles groups).2.1,
    cfgType := type }

def Filter.filterUser (rx : Str → Str → Bool) (f : Filter) (user : Str) : Bool :=
  match f.userRx with
  | some p => rx p user
  | none => f.users.contains user

def Filter.filterGroup (rx : Str → Str → Bool) (f : Filter) (g : Str) : Bool :=
  match f.groupRx with
  | some p => rx p g
  | none => f.groups.contains g

/-- Filter.allowUser -/
def Filter.allowUser (rx : Str → Str → Bool) (f : Filter) (u : User) : Bool :=
  if f.empty then f.allow
  else if f.filterUser rx u.name then f.allow
  else if u.groups.any (f.filterGroup rx) then f.allow
  else !f.allow

/-! ### rules -/

inductive Kind where
  | provided
  | user
  /-- tag name, normalised (lower case) -/
  | tag (name : Str)
  /-- queue value, normalised (lower case) -/
  | fixed (value : Str)
  | recovery
deriving Repr, DecidableEq

structure Node where
  kind : Kind
  create : Bool := false
  filter : Filter := {}
deriving Repr, DecidableEq

/-- a configured rule: the rule itself followed by its parent rule, the parent's parent, … -/
abbrev Rule := List Node

structure App where
  user : User
  /-- requested queue name -/
  queue : Str
  tags : List (Str × Str)
deriving Repr, DecidableEq

/-- Application.GetTag: first key equal under case folding -/
def App.tag (a : App) (name : Str) : Str :=
  match a.tags.find? (fun kv => decide (lower kv.1 = lower name)) with
  | some kv => kv.2
  | none => []

def sForceTag : Str := "application.create.force".toList
/-- strconv.ParseBool = true -/
def parseBoolTrue (s : Str) : Bool :=
  [['1'], ['t'], ['T'], ['T', 'R', 'U', 'E'], ['t', 'r', 'u', 'e'], ['T', 'r', 'u', 'e']].contains s
/-- Application.IsCreateForced -/
def App.forced (a : App) : Bool := parseBoolTrue (a.tag sForceTag)

inductive RuleErr where
  /-- common.ErrorInvalidQueueName -/
  | invalidName
  /-- "parent rule returned a leaf queue" -/
  | parentLeaf
deriving Repr, DecidableEq

inductive RuleRes where
  /-- ("", nil) -/
  | noMatch
  | err (e : RuleErr)
  | queue (n : QName)
deriving Repr, DecidableEq

/-- strings.HasPrefix(name, "root.") -/
def isQualified (n : QName) : Bool := decide (n.head? = some sRoot) && decide (2 ≤ n.length)

/-- what every rule does with the result of its parent rule: qualify, refuse an existing leaf -/
def resolveParent (t : Tree) : RuleRes → RuleRes
  | .queue p =>
    let p' := if isQualified p then p else sRoot :: p
    match getQueue t p' with
    | some q => if q.leaf then .err .parentLeaf else .queue p'
    | none => .queue p'
  | r => r

/-- the create flag check at the end of every rule -/
def finish (t : Tree) (create : Bool) (n : QName) : RuleRes :=
  if !create && (getQueue t n).isNone then .noMatch else .queue n

/-- append the child part(s) to the parent rule's result -/
def underParent (t : Tree) (create : Bool) (parent : RuleRes) (child : QName) : RuleRes :=
  match parent with
  | .queue pn => finish t create (pn ++ child)
  | r => r

/-- fixedRule.qualified: `value == "root" || strings.HasPrefix(value, "root.")` -/
def fixedQualified (value : Str) : Bool := decide (value = sRoot) || isQualified (splitDot value)

/-- rule.placeApplication for the four configurable rules and the recovery rule -/
def runRule (rx : Str → Str → Bool) (t : Tree) (a : App) : Rule → RuleRes
  | [] => .noMatch
  | n :: parents =>
    -- no parent rule: the parent is root; otherwise the parent rule's qualified result
    let parent : RuleRes := if parents.isEmpty then .queue rootQ else resolveParent t (runRule rx t a parents)
    match n.kind with
    | .provided =>
      if a.queue.isEmpty then .noMatch
      else if !n.filter.allowUser rx a.user then .noMatch
      else if isQualified (splitDot a.queue) then
        (if (splitDot a.queue).all validQueueName then finish t n.create (splitDot a.queue) else .err .invalidName)
      else if !validQueueName (replaceDot a.queue) then .err .invalidName
      else underParent t n.create parent [replaceDot a.queue]
    | .user =>
      if !n.filter.allowUser rx a.user then .noMatch
      else if !validQueueName (replaceDot a.user.name) then .err .invalidName
      else underParent t n.create parent [replaceDot a.user.name]
    | .tag name =>
      if (a.tag name).isEmpty then .noMatch
      else if !n.filter.allowUser rx a.user then .noMatch
      else if isQualified (splitDot (a.tag name)) then
        (if (splitDot (a.tag name)).all validQueueName then finish t n.create (splitDot (a.tag name)) else .err .invalidName)
      else if !validQueueName (replaceDot (a.tag name)) then .err .invalidName
      else underParent t n.create parent [replaceDot (a.tag name)]
    | .fixed value =>
      if !n.filter.allowUser rx a.user then .noMatch
      else if fixedQualified value then finish t n.create (splitDot value)
      else underParent t n.create parent (splitDot value)
    | .recovery => if a.forced then .queue recoveryQ else .noMatch

/-- fixedRule.initialise / tagRule.initialise checks (the configuration is rejected otherwise) -/
def Node.wf (n : Node) (hasParent : Bool) : Bool :=
  match n.kind with
  | .fixed value => !value.isEmpty && (splitDot value).all validQueueName && !(fixedQualified value && hasParent)
  | .tag name => !name.isEmpty
  | _ => true

def Rule.wf : Rule → Bool
  | [] => true
  | n :: parents => n.wf (!parents.isEmpty) && Rule.wf parents

/-! ### PlaceApplication -/

inductive PlaceRes where
  | placed (n : QName)
  /-- ErrorRejected: no rule matched -/
  | rejected
  | ruleErr (e : RuleErr)
  /-- slice bounds out of range in the walk-up loop -/
  | panic
deriving Repr, DecidableEq

/-- the queue name the loop body works with: the rule's result, or root.default for the last rule when nothing matched -/
def yields (t : Tree) (res : RuleRes) (last : Bool) : Option QName :=
  match res with
  | .queue n => some n
  | _ => if last && (getQueue t defaultQ).isSome then some defaultQ else none

/-- strings.HasPrefix(strings.ToLower(name), "root.@recovery@."): the first two parts spell the recovery queue and there
    is a third part -/
def belowRecovery (n : QName) : Bool := recoveryQ.isPrefixOf (lowerName n) && decide (3 ≤ n.length)

/-- the checks of the loop body on a queue name: `some true` = place here, `some false` = next rule, `none` = panic -/
def eligible (t : Tree) (a : App) (n : QName) : Option Bool :=
  if decide (n = recoveryQ) && a.forced then some true
  -- the recovery queue, in any capitalisation, is reserved for forced applications: no match
  else if isRecoveryName n && !a.forced then some false
  -- nothing can be placed or created below the recovery queue (any capitalisation): no match
  else if belowRecovery n then some false
  else match getQueue t n with
    | none =>
      match walkUp t n with
      | none => none
      | some q => some (checkSubmit t a.user q.path)
    | some q => some (q.leaf && checkSubmit t a.user q.path && !q.draining)

/-- AppPlacementManager.PlaceApplication over the remaining rules -/
def place (rx : Str → Str → Bool) (t : Tree) (a : App) : List Rule → PlaceRes
  | [] => .rejected
  | r :: rest =>
    match runRule rx t a r with
    | .err e => .ruleErr e
    | res =>
      match yields t res rest.isEmpty with
      | none => place rx t a rest
      | some n =>
        match eligible t a n with
        | none => .panic
        | some true => .placed n
        | some false => place rx t a rest

/-- buildRules: an empty list is a single provided rule; the recovery rule is always last -/
def buildRules (conf : List Rule) : List Rule :=
  (if conf.isEmpty then [[{ kind := .provided }]] else conf) ++ [[{ kind := .recovery }]]

/-! ### AddApplication / createQueue -/

inductive Reason where
  | noRule
  | ruleErr (e : RuleErr)
  /-- "failed to find queue": the queue is not a leaf -/
  | notLeaf
  | createIllegal
  | createDenied
  | createParentLeaf
  | createInvalidName
  | createRecoveryName
  | createDraining
deriving Repr, DecidableEq

inductive Outcome where
  | accepted (q : QName)
  | rejected (r : Reason)
  | panic
deriving Repr, DecidableEq

/-- UpdateQueueProperties on a dynamic queue whose properties are `props`: the conversion of the C16 model
    (`Yk.Reload.deriveSettings`); for a queue on the recovery queue path it returns early — sort policy fifo, nothing
    converted (the other settings keep the values of a blank queue) -/
def dynSettings (path : QName) (leaf : Bool) (props : Reload.Props) : Reload.Settings :=
  if path = recoveryQ then { Reload.deriveSettings leaf [] with sort := "fifo" } else Reload.deriveSettings leaf props

/-- newDynamicQueueInternal: addChildQueue first — a new leaf gets the parent's template applied (its properties become
    the template's: a dynamic queue does not merge the parent's own properties), a new parent inherits the template —
    and only then UpdateQueueProperties converts the properties into the effective settings -/
def newDynamic (parent : Queue) (name : Str) (leaf : Bool) : Queue :=
  { path := parent.path ++ [lower name], leaf := leaf, managed := false, draining := false, sacl := {}, aacl := {},
    tpl := if leaf then [] else parent.tpl, cfg := if leaf then parent.tpl else [],
    tplProps := if leaf then [] else parent.tplProps,
    set := dynSettings (parent.path ++ [lower name]) leaf (if leaf then parent.tplProps else []) }

/-- NewRecoveryQueue under root: the template of root is applied like for any dynamic leaf; its path is the recovery
    queue path, so nothing is converted -/
def newRecovery (root : Queue) : Queue := newDynamic root sRecovery true

/-- the creation loop of createQueue: NewDynamicQueue for every missing part, top down; queues created before a
    failure stay -/
def createChain (t : Tree) (parent : Queue) : List Str → Tree × Except Reason Queue
  | [] => (t, .ok parent)
  | name :: rest =>
    if !validQueueName name then (t, .error .createInvalidName)
    else if name = sRecovery then (t, .error .createRecoveryName)
    else if parent.leaf then (t, .error .createParentLeaf)
    else if parent.draining then (t, .error .createDraining)
    else createChain (t ++ [newDynamic parent name rest.isEmpty]) (newDynamic parent name rest.isEmpty) rest

/-- PartitionContext.createQueue -/
def createQueue (t : Tree) (u : User) (n : QName) : Tree × Except Reason Queue :=
  if !(sRoot.isPrefixOf (n.headD []) && decide (2 ≤ n.length)) then (t, .error .createIllegal) else
  match walkUp t n with
  | none => (t, .error .createIllegal)   -- not reachable: the name has a dot and starts with root
  | some q =>
    if !checkSubmit t u q.path then (t, .error .createDenied)
    else if q.leaf then (t, .error .createParentLeaf)
    else createChain t q (n.drop q.path.length)

/-- NewRecoveryQueue under root -/
def createRecovery (t : Tree) : Tree × Except Reason Queue :=
  match findQ t rootQ with
  | none => (t, .error .createIllegal)
  | some root =>
    if root.leaf then (t, .error .createParentLeaf)
    else if root.draining then (t, .error .createDraining)
    else (t ++ [newRecovery root], .ok (newRecovery root))

/-- PartitionContext.AddApplication (placement, queue creation, leaf check) -/
def addApp (rx : Str → Str → Bool) (t : Tree) (rules : List Rule) (a : App) : Tree × Outcome :=
  match place rx t a rules with
  | .panic => (t, .panic)
  | .rejected => (t, .rejected .noRule)
  | .ruleErr e => (t, .rejected (.ruleErr e))
  | .placed n =>
    match getQueue t n with
    | some q => if q.leaf then (t, .accepted q.path) else (t, .rejected .notLeaf)
    | none =>
      let r := if isRecoveryName n then createRecovery t else createQueue t a.user n
      match r.2 with
      | .error e => (r.1, .rejected e)
      | .ok q => if q.leaf then (r.1, .accepted q.path) else (r.1, .rejected .notLeaf)

/-- Queue.MarkQueueForRemoval: the managed queue and all managed queues below it start draining -/
def markForRemoval (t : Tree) (p : QName) : Tree :=
  match findQ t p with
  | none => t
  | some q =>
    if !q.managed then t
    else t.map (fun x => if p.isPrefixOf x.path && x.managed then { x with draining := true } else x)

end Yk.Place
