/-
  The component-wise meaning of the resource operations (what C18 states), executable so that the
  driver can evaluate it on results produced by the implementation, and stated pointwise so that the
  theorems in YkProps/C18.lean can say "the model's loops compute exactly this".
-/
import YkModel.Res
namespace Yk
open Res

/-- all types defined in either vector (may contain duplicates; only used under `∀ k ∈ …`) -/
def unionKeys (l r : Res) : List String := l.keys ++ r.keys

/-- `out` is the pointwise result `f (l[k]₀) (r[k]₀)` on the union of the types and defines nothing else -/
def pointwise2 (f : Int → Int → Int) (l r out : Res) : Bool :=
  (unionKeys l r).all (fun k => out.get? k == some (f (l.getD k) (r.getD k))) &&
  out.keys.all (fun k => l.has k || r.has k)

def specAdd (l r : ORes) (out : Res) : Bool :=
  pointwise2 (fun a b => clamp (a + b)) (orZero l) (orZero r) out

def specSub (l r : ORes) (out : Res) : Bool :=
  pointwise2 (fun a b => clamp (a - b)) (orZero l) (orZero r) out

def specSubElimNeg (l r : ORes) (out : Res) : Bool :=
  let l' := orZero l
  let r' := orZero r
  -- only types of `right` are floored at zero; types only in `left` keep their value
  (unionKeys l' r').all (fun k =>
    out.get? k == some (if r'.has k then max 0 (clamp (l'.getD k - r'.getD k)) else l'.getD k)) &&
  out.keys.all (fun k => l'.has k || r'.has k)

/-- result defined exactly on base's types -/
def onlyExisting (f : Int → Int → Int) (base delta : ORes) (out : ORes) : Bool :=
  match base, delta, out with
  | none, _, none => true
  | some b, none, some o => b.all (fun p => o.get? p.1 == some p.2) && o.keys.all b.has
  | some b, some d, some o =>
      b.all (fun p => o.get? p.1 == some (f p.2 (d.getD p.1))) && o.keys.all b.has
  | _, _, _ => false

def specSubOnlyExisting := onlyExisting (fun a b => clamp (a - b))
def specAddOnlyExisting := onlyExisting (fun a b => clamp (a + b))

def specMultiply (base : ORes) (ratio : Int) (out : Res) : Bool :=
  match base with
  | none => out.isEmpty
  | some b => if ratio == 0 then out.isEmpty else
      b.all (fun p => out.get? p.1 == some (clamp (p.2 * ratio))) && out.keys.all b.has

/-- the documented meaning of the three fit predicates -/
def specFitIn (r smaller : ORes) (skipUndef actual : Bool) : Bool :=
  match smaller with
  | none => true
  | some s => s.all (fun p =>
      (skipUndef && !(orZero r).has p.1) ||
      decide (p.2 ≤ (if actual then (orZero r).getD p.1 else max 0 ((orZero r).getD p.1))))

def specSGTE (l s : ORes) : Bool :=
  (unionKeys (orZero l) (orZero s)).all (fun k => decide ((orZero s).getD k ≤ (orZero l).getD k))

def specSGT (l s : ORes) : Bool :=
  specSGTE l s && (unionKeys (orZero l) (orZero s)).any (fun k => (orZero s).getD k != (orZero l).getD k)

def specCMin (l r out : ORes) : Bool :=
  match l, r, out with
  | none, none, none => true
  | none, some r, some o => r.all (fun p => o.get? p.1 == some p.2) && o.keys.all r.has
  | some l, none, some o => l.all (fun p => o.get? p.1 == some p.2) && o.keys.all l.has
  | some l, some r, some o =>
      (unionKeys l r).all (fun k => o.get? k ==
        (match l.get? k, r.get? k with
         | some a, some b => some (min a b)
         | some a, none => some a
         | none, some b => some b
         | none, none => none)) && o.keys.all (fun k => l.has k || r.has k)
  | _, _, _ => false

def specCMax (l r : ORes) (out : Res) : Bool :=
  match l, r with
  | some l, some r => pointwise2 (fun a b => max a b) l r out
  | _, _ => out.isEmpty

def specEquals (l r : ORes) (same : Bool) : Bool :=
  match l, r with
  | none, none => true
  | some l, some r => (unionKeys l r).all (fun k => l.getD k == r.getD k)
  | _, _ => same   -- cannot be the same pointer with exactly one nil

def specDeepEquals (l r : ORes) (_same : Bool) : Bool :=
  match l, r with
  | none, none => true
  | some l, some r => (unionKeys l r).all (fun k => l.get? k == r.get? k)
  | _, _ => false

def specIsZero (r : ORes) : Bool := (orZero r).all (fun p => p.2 == 0)
def specHasNeg (r : ORes) : Bool := (orZero r).any (fun p => decide (p.2 < 0))
def specSGTZ (r : ORes) : Bool :=
  match r with
  | none => false
  | some r => r.all (fun p => decide (0 ≤ p.2)) && r.any (fun p => decide (0 < p.2))

end Yk
