/-
  Model of pkg/scheduler/objects/queue.go — the resource ledger of the queue hierarchy (C02) and the
  running-application counters (C11).  A tree is a list of queues, each naming its parent by index
  (parents come first), exactly the ancestor walk the Go code does through `sq.parent`.
  Arithmetic is exact (no quantity saturates; C18 owns saturation).
-/
import YkModel.Res
namespace Yk
open Res

structure Q where
  path : String
  parent : Option Nat          -- index of the parent in the tree; none = root
  max : ORes                   -- maxResource (nil = not set)
  guaranteed : ORes
  allocated : Res
  maxApps : Nat                -- 0 = unlimited
  running : Nat
  allocating : List String     -- allocatingAcceptedApps
  deriving Repr, DecidableEq

abbrev QTree := List Q

namespace QTree

/-- `[i, parent i, …, root]`: the queues TryInc/Inc/Dec walk (fuel = tree size; parents come first) -/
def chainAux (t : QTree) : Nat → Nat → List Nat
  | 0, _ => []
  | f + 1, i =>
    match t[i]? with
    | none => []
    | some q => i :: (match q.parent with | none => [] | some p => chainAux t f p)

def chain (t : QTree) (i : Nat) : List Nat := chainAux t t.length i

/-- AddOnlyExisting(alloc, allocated) with exact arithmetic: only the types of `alloc` -/
def addOnlyExistingX (base delta : Res) : Res := base.map (fun p => (p.1, p.2 + delta.getD p.1))
def subOnlyExistingX (base delta : Res) : Res := base.map (fun p => (p.1, p.2 - delta.getD p.1))

/-- allocatedResFits: root uses FitIn (a type no node provides cannot be allocated), others FitInMaxUndef -/
def fits (q : Q) (alloc : Res) : Bool :=
  let sum := addOnlyExistingX alloc q.allocated
  if q.parent.isNone then fitInStd q.max (some sum) else fitInMaxUndef q.max (some sum)

def updAt (t : QTree) (i : Nat) (f : Q → Q) : QTree := t.modify i f

def applyChain (t : QTree) (c : List Nat) (f : Q → Q) : QTree := c.foldl (fun t i => updAt t i f) t

/-- TryIncAllocatedResource: every queue on the chain is checked before any is updated -/
def tryInc (t : QTree) (i : Nat) (alloc : Res) : Option QTree :=
  let c := chain t i
  if c.all (fun j => match t[j]? with | some q => fits q alloc | none => false) then
    some (applyChain t c (fun q => { q with allocated := addX q.allocated alloc }))
  else none

/-- IncAllocatedResource: forced, no limit checked -/
def inc (t : QTree) (i : Nat) (alloc : Res) : QTree :=
  applyChain t (chain t i) (fun q => { q with allocated := addX q.allocated alloc })

/-- DecAllocatedResource: guarded against going below zero, all-or-nothing -/
def dec (t : QTree) (i : Nat) (alloc : Res) : Option QTree :=
  let c := chain t i
  if c.all (fun j => match t[j]? with | some q => fitInStd (some q.allocated) (some alloc) | none => false) then
    some (applyChain t c (fun q => { q with allocated := prune (subX q.allocated alloc) }))
  else none

/-- internalHeadRoom -/
def internalHeadRoom (q : Q) (parentHeadRoom : ORes) : ORes :=
  match q.max with
  | none => parentHeadRoom
  | some m =>
    let hr := subOnlyExistingX m q.allocated
    match parentHeadRoom with
    | none => some hr
    | some p => componentWiseMin (some hr) (some p)

/-- getHeadRoom: from the root down to queue i -/
def headRoom (t : QTree) (i : Nat) : ORes :=
  (chain t i).reverse.foldl (fun acc j => match t[j]? with | some q => internalHeadRoom q acc | none => acc) none

/-- getMaxHeadRoom: the root (cluster size) is not taken into account -/
def maxHeadRoom (t : QTree) (i : Nat) : ORes :=
  ((chain t i).reverse.drop 1).foldl (fun acc j => match t[j]? with | some q => internalHeadRoom q acc | none => acc) none

def internalGetMax (q : Q) (parentLimit : ORes) : ORes :=
  match parentLimit with
  | none => q.max
  | some p => match q.max with
    | none => some p
    | some m => componentWiseMin (some p) (some m)

/-- GetMaxResource -/
def getMax (t : QTree) (i : Nat) : ORes :=
  (chain t i).reverse.foldl (fun acc j => match t[j]? with | some q => internalGetMax q acc | none => acc) none

/-- setResources (max part) / SetMaxResource on the root: zero or nil max clears the limit -/
def setMax (t : QTree) (i : Nat) (m : ORes) : QTree :=
  updAt t i (fun q => if strictlyGreaterThanZero m then { q with max := m } else { q with max := none })

/-! ### running-application counters (C11) -/

/-- canRunApp (recursive, parent first) -/
def canRunApp (t : QTree) (i : Nat) (app : String) : Bool :=
  (chain t i).all (fun j => match t[j]? with
    | some q => q.maxApps == 0 || q.allocating.contains app || decide (q.running + (q.allocating.length + 1) ≤ q.maxApps)
    | none => true)

def incRunningApps (t : QTree) (i : Nat) (app : String) : QTree :=
  applyChain t (chain t i) (fun q =>
    let r := q.running + 1
    { q with allocating := q.allocating.filter (· != app), running := if q.maxApps > 0 && r > q.maxApps then q.maxApps else r })

def decRunningApps (t : QTree) (i : Nat) : QTree :=
  applyChain t (chain t i) (fun q => { q with running := q.running - 1 })

def setAllocatingAccepted (t : QTree) (i : Nat) (app : String) : QTree :=
  applyChain t (chain t i) (fun q => if q.allocating.contains app then q else { q with allocating := q.allocating ++ [app] })

/-! ### the executable statement (evaluated on trees dumped from the implementation) -/

/-- queue `q` is over its maximum on type `k`: only types the maximum defines count (all types at the root) -/
def overMax (q : Q) (k : String) : Bool :=
  match q.max with
  | none => q.parent.isNone && decide (0 < q.allocated.getD k)
  | some m => (q.parent.isNone || m.has k) && decide (max 0 (m.getD k) < q.allocated.getD k)

/-- the counter operations of a history (C11) -/
inductive CounterOp where
  | incRun (i : Nat) (app : String)
  | decRun (i : Nat)
  | setAllocating (i : Nat) (app : String)
  deriving Repr, DecidableEq

def cstep (t : QTree) : CounterOp → QTree
  | .incRun i app => incRunningApps t i app
  | .decRun i => decRunningApps t i
  | .setAllocating i app => setAllocatingAccepted t i app

/-- a small example tree used by the non-vacuity examples -/
def exTree : QTree :=
  [ { path := "root", parent := none, max := some [("cpu", 10)], guaranteed := none, allocated := [], maxApps := 0, running := 0, allocating := [] },
    { path := "root.a", parent := some 0, max := some [("cpu", 4)], guaranteed := none, allocated := [], maxApps := 0, running := 0, allocating := [] } ]

end QTree
end Yk
