/-
  C13 — the validation / decision layer the scheduler interface requests pass before they change any ledger:
  rmproxy.RMProxy.UpdateAllocation / UpdateApplication / UpdateNode (registration check, partition normalisation),
  ClusterContext.processAllocations → objects.NewAllocationFromSI → PartitionContext.UpdateAllocation /
  handleForeignAllocation, processAllocationReleases → removeAllocation, handleRMUpdateApplicationEvent →
  ConvertUGI(force) / AddApplication / removeApplication, processNodes → addNode / updateNode.

  `handle` follows the Go code path by path, in code order (checks and ledger changes in the order the code makes them);
  protobuf sub-messages are `Option`, a dereference without a nil check is `deref` (`Except Panic`), Go map reads on nil
  maps are total (`mapGet`).  `invalid` is the SPECIFICATION side: which items the property calls invalid, written
  without looking at the code.  The theorems of YkProps/C13.lean relate the two.
  Accepted items change the ledgers through the stepped model of CoreOps.lean where that model covers the path
  (`state = some _`), otherwise the resulting state is not predicted (`state = none`; the driver then only checks the
  answer and the state clauses).
-/
import YkModel.CoreOps
namespace Yk
namespace Si
open Res Core

/-! ### wire format -/

inductive Panic
  | nilDeref (site : String)
  deriving Repr, DecidableEq

abbrev StrMap := List (String × String)

/-- Go `m[k]` (also on a nil map) -/
def mapGet (m : Option StrMap) (k : String) : Option String := (m.getD []).lookup k

/-- a pointer dereference the code makes without a nil check -/
def deref {α : Type} (site : String) : Option α → Except Panic α
  | some a => .ok a
  | none => .error (.nilDeref site)

/-- si.Allocation -/
structure Alloc where
  key : String
  app : String
  node : String
  part : String
  tg : String := ""
  ph : Bool := false
  res : ORes := none                 -- ResourcePerAlloc, `none` = sub-message unset
  tags : Option StrMap := none       -- AllocationTags, `none` = nil map
  pp : Option (Bool × Bool) := none  -- PreemptionPolicy
  prio : Int := 0
  deriving Repr, DecidableEq

/-- si.AllocationRelease; `ttype` is the raw enum number (0 UNKNOWN, 1 STOPPED_BY_RM, 2 TIMEOUT, 3 PREEMPTED_BY_SCHEDULER,
    4 PLACEHOLDER_REPLACED, anything else: what a decoder yields for an unknown enum value) -/
structure Release where
  part : String
  app : String
  key : String
  ttype : Int
  deriving Repr, DecidableEq

structure Ugi where
  user : String
  groups : List String
  deriving Repr, DecidableEq

/-- si.AddApplicationRequest -/
structure AppNew where
  id : String
  queue : String
  part : String
  ugi : Option Ugi := none
  tags : Option StrMap := none
  phAsk : ORes := none
  deriving Repr, DecidableEq

structure AppRemove where
  id : String
  part : String
  deriving Repr, DecidableEq

/-- si.NodeInfo; `action` is the raw enum number (1 CREATE, 2 UPDATE, 3 DRAIN_NODE, 4 DECOMISSION, 5 DRAIN_TO_SCHEDULABLE,
    6 CREATE_DRAIN, 0 / other: unknown) -/
structure NodeInfo where
  id : String
  action : Int
  attrs : Option StrMap := none
  res : ORes := none                 -- SchedulableResource
  deriving Repr, DecidableEq

inductive Item
  | alloc (a : Alloc)
  | release (r : Release)
  | appNew (a : AppNew)
  | appRemove (r : AppRemove)
  | node (n : NodeInfo)
  deriving Repr, DecidableEq

/-- what is fixed outside the ledgers: the registered resource manager, the partition, and two oracles for code
    outside this model (the user name regular expression; placement rules + queue checks = property C17).
    String manipulation (name normalisation) is kept out of the model so that the kernel can evaluate the witnesses. -/
structure Env where
  rm : String
  /-- RMProxy normalises the partition name of every item (common.GetNormalizedPartitionName) and the core looks the
      result up: `isPart name` = the name as sent designates the partition of this core -/
  isPart : String → Bool
  userOK : String → Bool := fun _ => true
  place : AppNew → Bool := fun _ => true

/-! ### answers -/

inductive Why
  | partition | emptyId | placeholderNoTaskGroup | foreignNotAllocated | foreignNode | application | node
  | zeroResource | negativeResource | existingNode | userEmpty | userInvalid | duplicateApp | placement
  | nodePartition | nodeDuplicate | nodeUnknown | unknownAction | noChange | unknownForeign | unknownKey | timeoutOnAsk
  | duplicateKey | staleAsk | foreignMoved
  deriving Repr, DecidableEq

inductive How
  | ask | alloc | place | resize | again | foreignAdd | foreignUpdate
  | release | releaseAll | askRemove | foreignRemove | stateQuirk
  | app | appRemove | nodeAdd | nodeUpdate | nodeDrain | nodeUndrain | nodeDecommission
  deriving Repr, DecidableEq

inductive Verdict
  | accept (h : How)
  | reject (w : Why)      -- answered with the rejection message of the protocol
  | ignore (w : Why)      -- silently: no answer
  deriving Repr, DecidableEq

inductive Msg
  | rejectedAlloc (key app : String) (w : Why)
  | rejectedApp (id : String) (w : Why)
  | rejectedNode (id : String) (w : Why)
  | acceptedApp (id : String)
  | acceptedNode (id : String)
  | newAlloc (key app node : String)
  deriving Repr, DecidableEq

structure Result where
  verdict : Verdict
  state : Option Core     -- `none`: accepted on a path the stepped model does not cover
  msgs : List Msg
  deriving Repr, DecidableEq

def rej (s : Core) (w : Why) (m : Msg) : Result := { verdict := .reject w, state := some s, msgs := [m] }
def ign (s : Core) (w : Why) : Result := { verdict := .ignore w, state := some s, msgs := [] }
def acc (h : How) (st : Option Core) (msgs : List Msg := []) : Result := { verdict := .accept h, state := st, msgs := msgs }

/-! ### RM proxy -/

def partitionAttr : String := "si/node-partition"
def foreignTag : String := "foreign"
def forceTag : String := "application.create.force"
def requiredNodeTag : String := "yunikorn.apache.org/requiredNode"

/-- RMProxy.UpdateNode: the attribute map is created when missing and the partition attribute normalised -/
def nodeInPart (env : Env) (n : NodeInfo) : Bool := env.isPart ((mapGet n.attrs partitionAttr).getD "")

/-! ### allocations: NewAllocationFromSI, UpdateAllocation, handleForeignAllocation -/

def isForeign (a : Alloc) : Bool := (mapGet a.tags foreignTag).isSome

/-- resources.NewResourceFromProto (nil-safe) -/
def resOf (r : ORes) : Res := r.getD []

def sameRes (a b : Res) : Bool := (a.keys ++ b.keys).all (fun k => a.getD k == b.getD k)

/-- application.requests[key] -/
def findAsk (a : CApp) (key : String) : Option CItem := a.items.find? (fun i => i.key == key && i.inReq)

/-- the node keeps the application id a foreign allocation was sent with -/
def foreignAddFor (s : Core) (key node app : String) (res : Res) : Core :=
  let s1 := s.foreignAdd key node res
  { s1 with nodes := s1.nodes.map (fun n => if n.id == node then
      { n with allocs := n.allocs.map (fun x => if x.key == key && x.foreign then { x with app := app } else x) } else n) }

def handleForeign (s : Core) (a : Alloc) : Result :=
  -- handleForeignAllocation: not allocated, node unknown, negative quantity (fix db32327), then add or update
  if a.node == "" then rej s .foreignNotAllocated (.rejectedAlloc a.key a.app .foreignNotAllocated)
  else match s.findNode a.node with
    | none => rej s .foreignNode (.rejectedAlloc a.key a.app .foreignNode)
    | some _ =>
      if hasNegativeValue a.res then rej s .negativeResource (.rejectedAlloc a.key a.app .negativeResource)
      else if !(s.foreign.contains a.key) then
        acc .foreignAdd (some (foreignAddFor s a.key a.node a.app (resOf a.res)))
      else acc .foreignUpdate none

/-- UpdateAllocation, 'new allocation already assigned' (recovery / external placement): the queues, the node (forced) and
    the application are charged in the order of the code; RecoverAllocationAsk moves a New application to Accepted,
    AddAllocation runs it -/
def rmPlacedNew (s : Core) (a : Alloc) (app : CApp) (node : String) : Core :=
  let res := resOf a.res
  let s1 := updQueues s (pathChain s app.queue) (fun q => { q with allocated := addX q.allocated res })
  let s2 := updNode s1 node (fun n => { n with
    allocs := n.allocs ++ [{ key := a.key, app := a.app, res := res, foreign := false, ph := a.ph }],
    allocated := addX n.allocated res, available := prune (subX n.available res) })
  let s3 := updApp s2 a.app (fun ap =>
    let st1 := if ap.state == "New" then fireState ap.state .run else ap.state
    let item : CItem := { key := a.key, res := res, ph := a.ph, tg := a.tg, allocated := true, node := node, bound := true,
                          inReq := true, released := false, preempted := false, release := none,
                          reqNode := (mapGet a.tags requiredNodeTag).getD "" }
    let phData := if a.ph then
        (if ap.phData.any (·.1 == a.tg) then ap.phData.map (fun d => if d.1 == a.tg then (d.1, d.2.1 + 1, d.2.2.1, d.2.2.2) else d)
         else ap.phData ++ [(a.tg, 1, 0, 0)])
      else ap.phData
    let log1 := if st1 != ap.state then ap.log ++ [st1] else ap.log
    if a.ph then
      let aph := addX ap.allocatedPh res
      let st2 := if equals (some aph) (some ap.phAsk) false then fireState st1 .run else st1
      { ap with items := ap.items ++ [item], allocatedPh := aph, state := st2, phData := phData,
                log := if st2 != st1 then log1 ++ [st2] else log1 }
    else
      let st2 := fireState st1 .run
      { ap with items := ap.items ++ [item], allocated := addX ap.allocated res, state := st2, phData := phData,
                log := if st2 != st1 then log1 ++ [st2] else log1 })
  { s3 with allocations := s3.allocations + 1, phAllocations := if a.ph then s3.phAllocations + 1 else s3.phAllocations }

/-- UpdateAllocation, 'transitioning from requested to allocated' for an ask whose size is unchanged and that holds no
    reservation: AllocateAsk takes it off the pending totals, then queues, node (forced) and application are charged -/
def rmPlacedExisting (s : Core) (a : Alloc) (app : CApp) (ex : CItem) : Core :=
  let res := ex.res
  let chain := pathChain s app.queue
  let s1 := updQueues s chain (fun q => { q with pending := decPendingRes q.pending res, allocated := addX q.allocated res })
  let s2 := updNode s1 a.node (fun n => { n with
    allocs := n.allocs ++ [{ key := ex.key, app := a.app, res := res, foreign := false, ph := ex.ph }],
    allocated := addX n.allocated res, available := prune (subX n.available res) })
  let s3 := updApp s2 a.app (fun ap =>
    let items := ap.items.map (fun x => if x.key == ex.key && x.inReq then { x with allocated := true, bound := true, node := a.node } else x)
    let pending := prune (subX ap.pending res)
    if ex.ph then
      let aph := addX ap.allocatedPh res
      let st := if equals (some aph) (some ap.phAsk) false then fireState ap.state .run else ap.state
      { ap with items := items, pending := pending, allocatedPh := aph, state := st, log := if st != ap.state then ap.log ++ [st] else ap.log }
    else
      let st := fireState ap.state .run
      { ap with items := items, pending := pending, allocated := addX ap.allocated res, state := st,
                log := if st != ap.state then ap.log ++ [st] else ap.log })
  { s3 with allocations := s3.allocations + 1, phAllocations := if ex.ph then s3.phAllocations + 1 else s3.phAllocations }

def handleAlloc (env : Env) (s : Core) (a : Alloc) : Result :=
  -- processAllocations: partition lookup
  if !(env.isPart a.part) then rej s .partition (.rejectedAlloc a.key a.app .partition)
  -- NewAllocationFromSI returns nil: processAllocations answers with a RejectedAllocation (fix 8774879)
  else if a.ph && a.tg == "" then rej s .placeholderNoTaskGroup (.rejectedAlloc a.key a.app .placeholderNoTaskGroup)
  else if isForeign a then handleForeign s a
  else match s.findApp a.app with
    | none => rej s .application (.rejectedAlloc a.key a.app .application)
    | some app =>
      -- node := pc.GetNode(NodeID): a node registered with an empty id is found for an ask without node
      let node := s.findNode a.node
      if a.node != "" && node.isNone then rej s .node (.rejectedAlloc a.key a.app .node)
      else if isZero (some (resOf a.res)) then rej s .zeroResource (.rejectedAlloc a.key a.app .zeroResource)
      else if !(strictlyGreaterThanZero (some (resOf a.res))) then rej s .negativeResource (.rejectedAlloc a.key a.app .negativeResource)
      else match findAsk app a.key with
        | none =>
          (match node with
           | none => acc .ask (some (s.ask a.app a.key (resOf a.res) a.ph a.tg ((mapGet a.tags requiredNodeTag).getD "")).1)
           | some n => acc .alloc (some (rmPlacedNew s a app n.id)) [.newAlloc a.key a.app n.id])
        | some ex =>
          if ex.allocated && (s.findNode ex.node).isNone then rej s .existingNode (.rejectedAlloc a.key a.app .existingNode)
          else if !ex.allocated && a.node != "" then
            acc .place (if sameRes (resOf a.res) ex.res && s.reservations == 0 && !(app.items.any (fun i => i.key == a.key && i.bound))
                        then some (rmPlacedExisting s a app ex) else none) [.newAlloc a.key a.app a.node]
          else if !(sameRes (resOf a.res) ex.res) then acc .resize none
          else acc .again (some s)

/-! ### releases: processAllocationReleases, removeAllocation -/

/-- the end of Application.removeAsksInternal fires CompleteApplication when nothing is pending or allocated although
    the key it was asked to remove does not exist -/
def idleButHoldingAsks (a : CApp) : Bool :=
  a.items.any (·.inReq) && isZero (some a.pending) && isZero (some a.allocated) &&
  a.state != "Failing" && a.state != "Completing" && !(a.items.any (fun i => i.bound && i.ph))

/-- CoreOps.releaseKey, then entries that are neither in application.allocations nor in application.requests are gone -/
def releaseKey' (s : Core) (app key : String) : Core :=
  let s1 := s.releaseKey app key
  { s1 with apps := s1.apps.map (fun a => if a.id == app then { a with items := a.items.filter (fun i => i.bound || i.inReq) } else a) }

def simpleRelease (s : Core) (a : CApp) (i : CItem) (ttype : Int) : Bool :=
  (ttype == 0 || ttype == 1) && i.release.isNone && !i.released && !i.preempted && s.reservations == 0 &&
  !(a.items.any (fun x => x.release == some i.key))

/-- removeAllocation for a key found in application.allocations -/
def releaseBound (s : Core) (app : CApp) (i : CItem) (r : Release) : Except Panic Result :=
  if r.ttype == 4 && i.release.isSome then
    -- the swap: `confirmed := alloc.GetRelease()` is used after the HasRelease() check
    (deref "removeAllocation: alloc.GetRelease()" i.release).map (fun _real => acc .release none)
  else .ok (acc .release (if simpleRelease s app i r.ttype then some (releaseKey' s r.app r.key) else none))

/-- removeAllocation for a key that is not in application.allocations -/
def releaseUnbound (s : Core) (app : CApp) (r : Release) : Result :=
  match findAsk app r.key with
  | some i =>
    -- TIMEOUT is a confirmation: RemoveAllocation finds nothing bound and the ask is kept
    if r.ttype == 2 then ign s .timeoutOnAsk
    else acc .askRemove (if simpleRelease s app i 1 && !i.allocated then some (releaseKey' s r.app r.key) else none)
  | none =>
    if r.ttype != 2 && idleButHoldingAsks app then acc .stateQuirk none
    else ign s .unknownKey

def handleRelease (env : Env) (s : Core) (r : Release) : Except Panic Result :=
  if !(env.isPart r.part) then .ok (ign s .partition)
  else if r.app == "" then
    .ok (if s.foreign.contains r.key then acc .foreignRemove (some (s.foreignRemove r.key)) else ign s .unknownForeign)
  else match s.findApp r.app with
    | none => .ok (ign s .application)
    | some app =>
      if r.key == "" then .ok (acc .releaseAll none)
      else match app.items.find? (fun i => i.key == r.key && i.bound) with
        | some i => releaseBound s app i r
        | none => .ok (releaseUnbound s app r)

/-- removeAllocation before fix cebe103: the replacement was dereferenced for every PLACEHOLDER_REPLACED release -/
def handleReleaseBoundOld (i : CItem) (ttype : Int) : Except Panic How :=
  if ttype == 4 then do
    let _real ← deref "removeAllocation: confirmed.GetAllocatedResource()" i.release
    pure .release
  else .ok .release

/-! ### applications: handleRMUpdateApplicationEvent, ConvertUGI, AddApplication, removeApplication -/

def asciiLower (s : String) : String := s.map Char.toLower

/-- common.IsAppCreationForced: EqualFold on the key, strconv.ParseBool on the value -/
def isForced (tags : Option StrMap) : Bool :=
  match (tags.getD []).find? (fun p => asciiLower p.1 == forceTag) with
  | some p => ["1", "t", "T", "TRUE", "true", "True"].contains p.2
  | none => false

def anonymous : Ugi := { user := "nobody", groups := ["nogroup"] }

/-- security.UserGroupCache.ConvertUGI (no resolver configured: a user without groups resolves to the group of its
    own name and the name is not checked) -/
def convertUGI (env : Env) (ugi : Option Ugi) (force : Bool) : Except Panic (Except Why Ugi) :=
  let noUser := match ugi with | none => true | some u => u.user == ""     -- `ugi == nil || ugi.User == ""`
  let ugi' : Option (Option Ugi) :=
    if noUser then (if force then some (some anonymous) else none) else some ugi
  match ugi' with
  | none => .ok (.error .userEmpty)
  | some p => do
    let u ← deref "ConvertUGI: ugi.Groups" p
    if u.groups.isEmpty then pure (.ok { u with groups := [u.user] })
    else if !(env.userOK u.user) then pure (.error .userInvalid)
    else pure (.ok u)

/-- ConvertUGI before fix d117ec7: `ugi.User = AnonymousUser` on the forced path without the nil check -/
def convertUGIOld (ugi : Option Ugi) (force : Bool) : Except Panic (Except Why Ugi) :=
  let noUser := match ugi with | none => true | some u => u.user == ""
  if noUser then
    (if force then do
       let _u ← deref "ConvertUGI: ugi.User = AnonymousUser" ugi
       pure (.ok anonymous)
     else .ok (.error .userEmpty))
  else do
    let u ← deref "ConvertUGI: ugi.Groups" ugi
    pure (.ok u)

def handleAppNew (env : Env) (s : Core) (a : AppNew) : Except Panic Result :=
  if !(env.isPart a.part) then .ok (rej s .partition (.rejectedApp a.id .partition))
  else do
    let u ← convertUGI env a.ugi (isForced a.tags)
    match u with
    | .error w => pure (rej s w (.rejectedApp a.id w))
    | .ok _ =>
      -- AddApplication
      if (s.findApp a.id).isSome then pure (rej s .duplicateApp (.rejectedApp a.id .duplicateApp))
      else if !(env.place a) then pure (rej s .placement (.rejectedApp a.id .placement))
      else pure (acc .app none [.acceptedApp a.id])

def handleAppRemove (env : Env) (s : Core) (r : AppRemove) : Result :=
  if !(env.isPart r.part) then ign s .partition
  else match s.findApp r.id with
    | none => ign s .application
    | some _ => acc .appRemove none

/-! ### nodes: processNodes, addNode, updateNode -/

def handleNode (env : Env) (s : Core) (n : NodeInfo) : Result :=
  if n.action == 1 || n.action == 6 then
    -- addNode: partition lookup, then PartitionContext.AddNode: empty id (fix e19e4b6), duplicate; no check of the capacity
    if !(nodeInPart env n) then rej s .nodePartition (.rejectedNode n.id .nodePartition)
    else if n.id == "" then rej s .emptyId (.rejectedNode n.id .emptyId)
    else if (s.findNode n.id).isSome then rej s .nodeDuplicate (.rejectedNode n.id .nodeDuplicate)
    else acc .nodeAdd (if hasNegativeValue n.res then none else some (s.nodeCreate n.id (resOf n.res) (n.action == 1))) [.acceptedNode n.id]
  else
    -- updateNode: never answered
    if !(nodeInPart env n) then ign s .nodePartition
    else match s.findNode n.id with
      | none => ign s .nodeUnknown
      | some _ =>
        if n.action == 2 then
          (match n.res with
           | none => ign s .noChange
           | some r => acc .nodeUpdate (if hasNegativeValue (some r) then none else some (s.nodeUpdate n.id r)))
        else if n.action == 3 then acc .nodeDrain (some (s.nodeSchedulable n.id false))
        else if n.action == 5 then acc .nodeUndrain (some (s.nodeSchedulable n.id true))
        else if n.action == 4 then acc .nodeDecommission none
        else ign s .unknownAction

/-! ### one item -/

def handle (env : Env) (s : Core) : Item → Except Panic Result
  | .alloc a => .ok (handleAlloc env s a)
  | .release r => handleRelease env s r
  | .appNew a => handleAppNew env s a
  | .appRemove r => .ok (handleAppRemove env s r)
  | .node n => .ok (handleNode env s n)

/-- the classification: accept / reject with the protocol's message / ignore silently -/
def classify (env : Env) (s : Core) (i : Item) : Except Panic Verdict := (handle env s i).map (·.verdict)

/-- a whole request: RMProxy checks the resource manager id first (an unknown id is an error return, nothing reaches
    the core), then the items are processed in order; allocations before releases, new applications before removals
    (the harness sends them in that order). The state is threaded as long as the stepped model covers the path. -/
def stepItem (env : Env) (acc : Option Core × List (Item × Result)) (it : Item) : Except Panic (Option Core × List (Item × Result)) :=
  match acc.1 with
  | none => .ok acc
  | some st =>
    match handle env st it with
    | .error e => .error e
    | .ok r => .ok (r.state, acc.2 ++ [(it, r)])

def handleAll (env : Env) (rm : String) (s : Core) (items : List Item) : Except Panic (Option Core × List (Item × Result)) :=
  if rm != env.rm then .ok (some s, [])
  else items.foldlM (stepItem env) (some s, [])

/-! ### the specification side: which items are invalid, and which answer the protocol has for them -/

/-- the rejection message the protocol has for an item (none for releases, removals and node updates) -/
def rejection : Item → Option (Why → Msg)
  | .alloc a => some (.rejectedAlloc a.key a.app)
  | .appNew a => some (.rejectedApp a.id)
  | .node n => if n.action == 1 || n.action == 6 then some (.rejectedNode n.id) else none
  | _ => none

/-- allocation keys identify one thing: a key that already names something else (an allocation or ask of another
    application, a bound allocation of the same application whose request entry is gone, a foreign allocation; for a
    foreign allocation: any ask or allocation of an application) is a duplicate id -/
def keyInUseElsewhere (s : Core) (a : Alloc) : Bool :=
  if isForeign a then s.liveApps.any (fun x => x.items.any (·.key == a.key))
  else s.foreign.contains a.key || s.liveApps.any (fun x => x.id != a.app && x.items.any (·.key == a.key)) ||
       (match s.findApp a.app with
        | some app => (findAsk app a.key).isNone && app.items.any (fun i => i.key == a.key && i.bound)
        | none => false)

/-- an update of a known foreign allocation that names a node other than the one holding it -/
def foreignMoved (s : Core) (a : Alloc) : Bool :=
  isForeign a && s.foreign.contains a.key &&
  !(s.nodes.any (fun n => n.id == a.node && n.allocs.any (fun x => x.key == a.key && x.foreign)))

/-- the request entry of an allocation that was released (the entry stays behind after a TIMEOUT confirmation):
    allocated, no longer bound, not the real half of a replacement in flight -/
def staleAsk (s : Core) (a : Alloc) : Bool :=
  match s.findApp a.app with
  | some app => (match findAsk app a.key with
    | some ex => ex.allocated && !ex.bound && ex.release.isNone
    | none => false)
  | none => false

/-- Property C13's notion of an invalid item (unknown, duplicate or empty ids, zero or negative resources, releases of
    things that do not exist, updates for removed nodes or terminated applications), written from the property text. -/
def invalid (env : Env) (s : Core) : Item → Option Why
  | .alloc a =>
    if !(env.isPart a.part) then some .partition
    else if a.key == "" then some .emptyId
    else if a.ph && a.tg == "" then some .placeholderNoTaskGroup
    else if hasNegativeValue a.res then some .negativeResource
    else if isForeign a then
      (if a.node == "" then some .foreignNotAllocated
       else if (s.findNode a.node).isNone then some .foreignNode
       else if keyInUseElsewhere s a then some .duplicateKey
       else if foreignMoved s a then some .foreignMoved else none)
    else if (s.findApp a.app).isNone then some .application
    else if a.node != "" && (s.findNode a.node).isNone then some .node
    else if isZero (some (resOf a.res)) then some .zeroResource
    else if keyInUseElsewhere s a then some .duplicateKey
    else if staleAsk s a then some .staleAsk
    else none
  | .release r =>
    if !(env.isPart r.part) then some .partition
    else if r.app == "" then (if s.foreign.contains r.key then none else some .unknownForeign)
    else match s.findApp r.app with
      | none => some .application
      | some app =>
        if r.key == "" || app.items.any (fun i => i.key == r.key && i.bound) then none
        else if (findAsk app r.key).isSome then (if r.ttype == 2 then some .timeoutOnAsk else none)   -- a confirmation for something never announced
        else some .unknownKey
  | .appNew a =>
    if !(env.isPart a.part) then some .partition
    else if a.id == "" then some .emptyId
    else if (match a.ugi with | none => true | some u => u.user == "") && !(isForced a.tags) then some .userEmpty
    else if (match a.ugi with | some u => u.user != "" && !u.groups.isEmpty && !(env.userOK u.user) | none => false) then some .userInvalid
    else if (s.findApp a.id).isSome then some .duplicateApp
    else if !(env.place a) then some .placement
    else none
  | .appRemove r =>
    if !(env.isPart r.part) then some .partition
    else if (s.findApp r.id).isNone then some .application else none
  | .node n =>
    if !(nodeInPart env n) then some .nodePartition
    else if n.action == 1 || n.action == 6 then
      (if n.id == "" then some .emptyId
       else if (s.findNode n.id).isSome then some .nodeDuplicate
       else if hasNegativeValue n.res then some .negativeResource else none)
    else if (s.findNode n.id).isNone then some .nodeUnknown
    else if n.action == 2 then (if n.res.isNone then some .noChange else if hasNegativeValue n.res then some .negativeResource else none)
    else if n.action == 3 || n.action == 4 || n.action == 5 then none
    else some .unknownAction

/-- the input classes for which the unchanged code does NOT treat an invalid item as the property demands
    (each is a finding with a witness in YkProps/C13.lean and an entry in KNOWN_FINDINGS.txt) -/
inductive Gap
  | allocEmptyKey            -- an ask / allocation with an empty allocation key is accepted
  | appEmptyId               -- application with an empty id is accepted
  | nodeNegative             -- node registered / updated with a negative capacity (left as it is: a unit test registers one on purpose)
  | duplicateKey             -- an allocation key that already names something else is accepted
  | resizeUnbound            -- a resource update for a request entry that is allocated but not bound (left behind by a
                             -- TIMEOUT confirmation, or the real half of a replacement in flight) is booked as if bound
  | foreignMoved             -- an update of a foreign allocation naming another node leaves a ghost entry on that node
  | releaseUnknownCompletes  -- a release naming an unknown key moves an idle application to Completing
  deriving Repr, DecidableEq

/-- the application's request entry for the key is allocated but not in application.allocations -/
def unboundAsk (s : Core) (a : Alloc) : Bool :=
  !(isForeign a) &&
  (match s.findApp a.app with
   | some app => (match findAsk app a.key with
     | some ex => ex.allocated && !ex.bound
     | none => false)
   | none => false)

def gapOf (env : Env) (s : Core) : Item → Option Gap
  | .alloc a =>
    if !(env.isPart a.part) then none
    else if a.ph && a.tg == "" then none                              -- rejected since fix 8774879
    else if a.key == "" then some .allocEmptyKey
    else if isForeign a && hasNegativeValue a.res then none           -- rejected since fix db32327
    else if keyInUseElsewhere s a then some .duplicateKey
    else if foreignMoved s a then some .foreignMoved
    else if unboundAsk s a then some .resizeUnbound
    else none
  | .appNew a => if env.isPart a.part && a.id == "" then some .appEmptyId else none
  | .node n =>
    if !(nodeInPart env n) then none
    else if n.action == 1 || n.action == 6 then
      (if n.id == "" then none                                        -- rejected since fix e19e4b6
       else if hasNegativeValue n.res then some .nodeNegative else none)
    else if n.action == 2 && hasNegativeValue n.res then some .nodeNegative
    else none
  | .release r =>
    -- a release of a key the application does not know can still fire CompleteApplication (removeAsksInternal)
    if !(env.isPart r.part) || r.app == "" then none
    else match s.findApp r.app with
      | none => none
      | some app => if r.ttype != 2 && idleButHoldingAsks app then some .releaseUnknownCompletes else none
  | _ => none

/-- what the property demands for an invalid item, as a check of `handle`'s result: the ledgers as they were, and the
    rejection message of the protocol (exactly it) where the protocol has one, silence where it has none -/
def refusedAsDemanded (env : Env) (s : Core) (i : Item) : Bool :=
  match handle env s i with
  | .error _ => false
  | .ok r =>
    match rejection i, r.verdict with
    | some mkMsg, .reject w => r.msgs == [mkMsg w] && r.state == some s
    | none, .ignore _ => r.msgs.isEmpty && r.state == some s
    | _, _ => false

/-! ### executable comparison of the accounting of two states (node, queue, application, user, reservation ledgers) -/

def appSig (a : CApp) : String :=
  s!"state={a.state} queue={a.queue} pend={showR a.pending} alloc={showR a.allocated} ph={showR a.allocatedPh} " ++
  toString (sortByKey (a.items.map (fun x => (x.key, itemSig x ++ s!"/rel={x.release}/released={x.released}/preempted={x.preempted}")))) ++
  " resv=" ++ toString (sortByKey a.reservations)

def nodeSig (n : CNode) : String :=
  s!"total={showR n.total} occ={showR n.occupied} alloc={showR n.allocated} avail={showR n.available} sched={n.schedulable} " ++
  toString (sortByKey (n.allocs.map (fun a => (a.key, a.app ++ showR a.res)))) ++ " resv=" ++ toString (sortByKey (n.reservations.map (fun k => (k, ""))))

def queueSig (q : CQueue) : String :=
  s!"alloc={showR q.allocated} pend={showR q.pending} preempting={showR q.preempting} max={(q.max.map showR).getD "nil"} " ++
  s!"guaranteed={(q.guaranteed.map showR).getD "nil"} maxApps={q.maxApps} running={q.running} allocating={q.allocating} apps={q.apps} reserved={q.reserved.filter (fun r => r.2 != 0)}"

def firstDiff (what : String) (x y : List (String × String)) : Option String :=
  if x == y then none else
  match (x.zip y).find? (fun p => p.1 != p.2) with
  | some p => some s!"{what} before=[{p.1.1}: {p.1.2}] after=[{p.2.1}: {p.2.2}]"
  | none => some s!"{what} count before={x.length} after={y.length}"

/-- `none` = the accounting is exactly as it was. A queue that did not exist before may appear as long as it is empty
    (a dynamic queue created for an application that was then refused holds no accounting; it is removed by the queue
    cleaner); everything else must be identical. -/
def acctDiff (pre post : Core) : Option String :=
  let ns (c : Core) := sortByKey (c.nodes.map (fun n => (n.id, nodeSig n)))
  let qs (c : Core) := sortByKey (c.queues.map (fun q => (q.path, queueSig q)))
  let newEmpty (q : CQueue) : Bool := (pre.findQueue q.path).isNone && q.apps.isEmpty && isZero (some q.allocated) && isZero (some q.pending)
  let postQs := sortByKey ((post.queues.filter (fun q => !newEmpty q)).map (fun q => (q.path, queueSig q)))
  let as (c : Core) := sortByKey (c.liveApps.map (fun a => (a.id, appSig a)))
  (firstDiff "node" (ns pre) (ns post)).orElse fun _ =>
  (firstDiff "queue" (qs pre) postQs).orElse fun _ =>
  (firstDiff "application" (as pre) (as post)).orElse fun _ =>
  (if showR pre.total != showR post.total then some s!"partition-total before={showR pre.total} after={showR post.total}" else none).orElse fun _ =>
  (if pre.allocations != post.allocations then some s!"allocation-count before={pre.allocations} after={post.allocations}" else none).orElse fun _ =>
  (if pre.reservations != post.reservations then some s!"reservation-count before={pre.reservations} after={post.reservations}" else none).orElse fun _ =>
  (if sortByKey (pre.foreign.map (fun k => (k, ""))) != sortByKey (post.foreign.map (fun k => (k, ""))) then some s!"foreign before={pre.foreign} after={post.foreign}" else none).orElse fun _ =>
  (if pre.users != post.users then some "user-trackers" else none).orElse fun _ =>
  (if pre.groups != post.groups then some "group-trackers" else none)

end Si
end Yk
