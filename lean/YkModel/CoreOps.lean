/-
  The stepped model of the scheduler core (partition.go / context.go / application.go / queue.go / node.go):
  each operation updates every ledger in the order the Go code does.  The driver replays the requests the harness sent
  and the decisions the real scheduler announced on this model and compares all ledgers with the dump of the real
  ClusterContext; operations outside the modelled set make the driver resynchronise (and are counted).
  Exact arithmetic; `decPending` floors at zero as SubErrorNegative does.
-/
import YkModel.CoreState
namespace Yk
open Res

namespace Core

/-- ancestors-or-self of a queue path: "root.a.b" ↦ ["root.a.b", "root.a", "root"] -/
def pathChain (s : Core) (p : String) : List String :=
  (s.queues.filter (fun q => under p q.path)).map (·.path)

def updQueues (s : Core) (paths : List String) (f : CQueue → CQueue) : Core :=
  { s with queues := s.queues.map (fun q => if paths.contains q.path then f q else q) }

def updApp (s : Core) (id : String) (f : CApp → CApp) : Core :=
  { s with apps := s.apps.map (fun a => if a.live && a.id == id then f a else a) }

def updNode (s : Core) (id : String) (f : CNode → CNode) : Core :=
  { s with nodes := s.nodes.map (fun n => if n.id == id then f n else n) }

/-- SubErrorNegative(pending, delta) followed by Prune when nothing went negative; the negative types are reset to 0 -/
def decPendingRes (pending delta : Res) : Res :=
  let r := subEliminateNegative (some pending) (some delta)
  if (subNonNegative (some pending) (some delta)).2.isEmpty then prune r else r

/-- the application state machine, by name (the dump carries names) -/
def fireState (state : String) (e : AppEvent) : String :=
  match AppState.ofName state with
  | some a => (handle a e).name
  | none => state

/-- SetMaxResource on the root from the partition total -/
def setRootMax (s : Core) (total : Res) : Core :=
  { s with queues := s.queues.map (fun q => if q.parent.isNone then
      { q with max := if strictlyGreaterThanZero (some total) then some total else none } else q) }

/-! ### node requests -/

def nodeCreate (s : Core) (id : String) (cap : Res) (schedulable : Bool) : Core :=
  if (s.findNode id).isSome then s else
  let t := prune cap
  let n : CNode := { id := id, total := t, occupied := [], allocated := [], available := t, schedulable := schedulable, allocs := [], reservations := [] }
  let total := prune (addX s.total t)
  setRootMax { s with nodes := s.nodes ++ [n], total := total } total

def nodeUpdate (s : Core) (id : String) (cap : Res) : Core :=
  match s.findNode id with
  | none => s
  | some n =>
    if equals (some n.total) (some cap) false then s else
    let delta := subX cap n.total
    let t := prune cap
    let s1 := updNode s id (fun n => { n with total := t, available := prune (subX (subX t n.allocated) n.occupied) })
    let total := prune (addX s.total delta)
    setRootMax { s1 with total := total } total

def nodeSchedulable (s : Core) (id : String) (b : Bool) : Core := updNode s id (fun n => { n with schedulable := b })

/-! ### asks -/

/-- UpdateAllocation for a new key without node: a new request -/
def ask (s : Core) (app key : String) (res : Res) (ph : Bool) (tg reqNode : String) : Core × Bool :=
  match s.findApp app with
  | none => (s, false)
  | some a =>
    if isZero (some res) || !(strictlyGreaterThanZero (some res)) then (s, false) else
    if a.items.any (fun i => i.key == key && i.inReq) then (s, false)   -- repeated key: not modelled here (driver resyncs)
    else
      let st := if a.state == "New" || a.state == "Completing" then fireState a.state .run else a.state
      let item : CItem := { key := key, res := res, ph := ph, tg := tg, allocated := false, node := "", bound := false,
                            inReq := true, released := false, preempted := false, release := none, reqNode := reqNode }
      let phData := if ph then
          (if a.phData.any (·.1 == tg) then a.phData.map (fun d => if d.1 == tg then (d.1, d.2.1 + 1, d.2.2.1, d.2.2.2) else d)
           else a.phData ++ [(tg, 1, 0, 0)])
        else a.phData
      let s1 := updApp s app (fun a => { a with state := st, items := a.items ++ [item], pending := prune (addX a.pending res),
                                                 phData := phData, log := if st != a.state then a.log ++ [st] else a.log })
      (updQueues s1 (pathChain s a.queue) (fun q => { q with pending := addX q.pending res }), true)

/-! ### the scheduler binds an ask (tryNode + partition.allocate) -/

def schedAlloc (s : Core) (app key node : String) : Option Core :=
  match s.findApp app, s.findNode node with
  | some a, some n =>
    match a.items.find? (fun i => i.key == key && i.inReq && !i.allocated) with
    | none => none
    | some i =>
      -- node.TryAddAllocation
      if !(fitInStd (some n.available) (some i.res)) then none else
      let s1 := updNode s node (fun n => { n with
        allocs := n.allocs ++ [{ key := key, app := app, res := i.res, foreign := false, ph := i.ph }],
        allocated := addX n.allocated i.res, available := prune (subX n.available i.res) })
      -- queue.TryIncAllocatedResource (the driver checks "no new over-max" separately; here: the ledger effect)
      let chain := pathChain s a.queue
      let s2 := updQueues s1 chain (fun q => { q with allocated := addX q.allocated i.res, pending := decPendingRes q.pending i.res })
      -- allocateAsk + addAllocationInternal
      let s3 := updApp s2 app (fun a =>
        let items := a.items.map (fun x => if x.key == key then { x with allocated := true, bound := true, node := node } else x)
        let pending := prune (subX a.pending i.res)
        if i.ph then
          let aph := addX a.allocatedPh i.res
          -- all requested placeholders allocated: RunApplication
          let st := if equals (some aph) (some a.phAsk) false then fireState a.state .run else a.state
          { a with items := items, pending := pending, allocatedPh := aph, state := st,
                   log := if st != a.state then a.log ++ [st] else a.log }
        else
          let st := fireState a.state .run
          { a with items := items, pending := pending, allocated := addX a.allocated i.res, state := st,
                   log := if st != a.state then a.log ++ [st] else a.log })
      some { s3 with allocations := s3.allocations + 1, phAllocations := if i.ph then s3.phAllocations + 1 else s3.phAllocations }
  | _, _ => none

/-! ### releases requested by the RM (removeAllocation, termination type STOPPED_BY_RM / UNKNOWN, key given) -/

/-- removeAllocationInternal: the application after the bound allocation `i` is removed -/
def relApp (key : String) (i : CItem) (a : CApp) : CApp :=
  let items := a.items.map (fun x => if x.key == key then { x with bound := false } else x)
  if i.ph then
    let phData := a.phData.map (fun d => if d.1 == i.tg then (d.1, d.2.1, d.2.2.1, d.2.2.2 + 1) else d)
    let aph := prune (subX a.allocatedPh i.res)
    -- the last placeholder is gone: progress the application
    let st :=
      if isZero (some aph) &&
         ((a.state == "Completing" && !a.stateTimer) || (a.state == "Failing" && isZero (some a.allocated)) || a.state == "Resuming" ||
          (isZero (some a.pending) && isZero (some a.allocated) && a.state != "Failing")) then
        (if a.state == "Failing" then fireState a.state .fail
         else if a.state == "Resuming" then fireState a.state .run
         else fireState a.state .complete)
      else a.state
    -- a terminated application leaves the partition (terminated callback)
    { a with items := items, allocatedPh := aph, phData := phData, state := st,
             live := !(st == "Completed" || st == "Failed"),
             log := if st != a.state then a.log ++ [st] else a.log }
  else
    let alloc := prune (subX a.allocated i.res)
    -- (the last real allocation of a failing application: it has failed once the placeholders are gone as well)
    let st := if isZero (some a.pending) && isZero (some alloc) then
        (if a.state == "Failing" then (if isZero (some a.allocatedPh) then fireState a.state .fail else a.state)
         else fireState a.state .complete)
      else a.state
    { a with items := items, allocated := alloc, state := st, live := !(st == "Completed" || st == "Failed"),
             log := if st != a.state then a.log ++ [st] else a.log }

def releaseKey (s : Core) (app key : String) : Core :=
  match s.findApp app with
  | none => s
  | some a =>
    match a.items.find? (·.key == key) with
    | none => s
    | some i =>
      -- (1) a bound allocation: application, node, queue, counters
      let s1 : Core :=
        if i.bound then
          let a' := relApp key i a
          let sA := updApp s app (fun _ => a')
          let sN := match s.findNode i.node with
            | none => sA
            | some _ => updNode sA i.node (fun n =>
                { n with allocs := n.allocs.filter (·.key != key), allocated := prune (subX n.allocated i.res), available := addX n.available i.res })
          let sQ := if (s.findNode i.node).isSome && strictlyGreaterThanZero (some i.res) then
              updQueues sN (pathChain s a.queue) (fun q => { q with allocated := prune (subX q.allocated i.res) }) else sN
          -- a terminated application leaves its queue (terminated callback → Queue.RemoveApplication): what it still
          -- holds is taken off the queues
          let sT := if a'.live then sQ else
              updQueues sQ (pathChain s a.queue) (fun q => { q with pending := decPendingRes q.pending a'.pending,
                                                                    allocated := prune (subX (subX q.allocated a'.allocated) a'.allocatedPh) })
          { sT with allocations := sT.allocations - 1, phAllocations := if i.ph then sT.phAllocations - 1 else sT.phAllocations }
        else s
      -- (2) RemoveAllocationAsk(key)
      match s1.findApp app with
      | none => s1
      | some a1 =>
        match a1.items.find? (fun x => x.key == key && x.inReq) with
        | none => s1
        | some x =>
          let s2 := updApp s1 app (fun a =>
            let items := a.items.filter (·.key != key)
            let pending := if x.allocated then a.pending else prune (subX a.pending x.res)
            let hasPh := items.any (fun y => y.bound && y.ph)
            let st := if isZero (some pending) && isZero (some a.allocated) && a.state != "Failing" && a.state != "Completing" && !hasPh
                      then fireState a.state .complete else a.state
            { a with items := items, pending := pending, state := st, log := if st != a.state then a.log ++ [st] else a.log })
          if x.allocated then s2 else
            updQueues s2 (pathChain s a.queue) (fun q => { q with pending := decPendingRes q.pending x.res })

/-! ### foreign allocations -/

def foreignAdd (s : Core) (key node : String) (res : Res) : Core :=
  if s.foreign.contains key then s else
  match s.findNode node with
  | none => s
  | some _ =>
    let s1 := updNode s node (fun n => { n with allocs := n.allocs ++ [{ key := key, app := "", res := res, foreign := true, ph := false }],
                                                occupied := addX n.occupied res, available := prune (subX n.available res) })
    { s1 with foreign := s1.foreign ++ [key] }

def foreignRemove (s : Core) (key : String) : Core :=
  if !s.foreign.contains key then s else
  let s0 := { s with foreign := s.foreign.filter (· != key) }
  match s.nodes.find? (fun n => n.allocs.any (fun a => a.key == key && a.foreign)) with
  | none => s0
  | some n =>
    match n.allocs.find? (·.key == key) with
    | none => s0
    | some fa => updNode s0 n.id (fun n =>
        { n with allocs := n.allocs.filter (·.key != key), occupied := subX n.occupied fa.res, available := addX n.available fa.res })

/-! ### comparison of the ledgers of two states (model vs implementation) -/

def insKey (p : String × String) : List (String × String) → List (String × String)
  | [] => [p]
  | q :: t => if p.1 < q.1 then p :: q :: t else q :: insKey p t
def sortByKey (l : List (String × String)) : List (String × String) := l.foldl (fun acc p => insKey p acc) []

def insStrInt (p : String × Int) : List (String × Int) → List (String × Int)
  | [] => [p]
  | q :: t => if p.1 < q.1 then p :: q :: t else q :: insStrInt p t

def showR (r : Res) : String :=
  toString (((r.filter (fun p => p.2 != 0)).foldl (fun acc p => insStrInt p acc) []).map (fun p => p.1 ++ "=" ++ toString p.2))

def itemSig (i : CItem) : String :=
  s!"{showR (prune i.res)}/ph={i.ph}/alloc={i.allocated}/bound={i.bound}/req={i.inReq}/node={i.node}"

def ledgerDiff (m i : Core) : Option String :=
  let nodeSig (n : CNode) : String :=
    s!"total={showR n.total} occ={showR n.occupied} alloc={showR n.allocated} avail={showR n.available} sched={n.schedulable} " ++
    toString (sortByKey (n.allocs.map (fun a => (a.key, a.app ++ showR a.res))))
  let ns (c : Core) := sortByKey (c.nodes.map (fun n => (n.id, nodeSig n)))
  let qs (c : Core) := sortByKey (c.queues.map (fun q => (q.path, s!"alloc={showR q.allocated} pend={showR q.pending} max={(q.max.map showR).getD "nil"}")))
  let as (c : Core) := sortByKey (c.liveApps.map (fun a => (a.id,
      s!"state={a.state} pend={showR a.pending} alloc={showR a.allocated} ph={showR a.allocatedPh} " ++
      toString (sortByKey (a.items.map (fun x => (x.key, itemSig x)))))))
  let firstDiff (what : String) (x y : List (String × String)) : Option String :=
    if x == y then none else
    match (x.zip y).find? (fun p => p.1 != p.2) with
    | some p => some s!"{what} model=[{p.1.1}: {p.1.2}] impl=[{p.2.1}: {p.2.2}]"
    | none => some s!"{what} count model={x.length} impl={y.length}"
  (firstDiff "node" (ns m) (ns i)).orElse fun _ =>
  (firstDiff "queue" (qs m) (qs i)).orElse fun _ =>
  (firstDiff "app" (as m) (as i)).orElse fun _ =>
  (if showR m.total != showR i.total then some s!"total model={showR m.total} impl={showR i.total}" else none).orElse fun _ =>
  (if m.allocations != i.allocations then some s!"allocations model={m.allocations} impl={i.allocations}" else none).orElse fun _ =>
  (if (sortByKey (m.foreign.map (fun k => (k, "")))) != (sortByKey (i.foreign.map (fun k => (k, "")))) then some s!"foreign model={m.foreign} impl={i.foreign}" else none)

end Core
end Yk
