/-
  Model of pkg/common/resources/quantity.go `parse(value, milli)`.
  The regular expression `^(?P<Number>[0-9]+)\s*(?P<Suffix>([mkKMGTPE]i?)?)$` is written out as a
  recogniser (the three character classes are disjoint, so the greedy match is a `span`); the literal
  and the multiplier table are tied to the source by Generated/Consts.lean (T5).
-/
import YkModel.Int64
namespace Yk

inductive PErr where
  | invalid | overflow | suffix
  deriving DecidableEq, Repr

/-- unicode.IsSpace (what strings.TrimSpace trims) -/
def isSpaceUni (c : Char) : Bool :=
  let n := c.toNat
  (9 ≤ n && n ≤ 13) || n == 0x20 || n == 0x85 || n == 0xA0 || n == 0x1680 ||
  (0x2000 ≤ n && n ≤ 0x200A) || n == 0x2028 || n == 0x2029 || n == 0x202F || n == 0x205F || n == 0x3000

/-- RE2 `\s` : [\t\n\f\r ] -/
def isSpaceRe (c : Char) : Bool :=
  c == '\t' || c == '\n' || c == '\x0c' || c == '\r' || c == ' '

def isDig (c : Char) : Bool := '0' ≤ c && c ≤ '9'

def trimSpace (cs : List Char) : List Char :=
  ((cs.dropWhile isSpaceUni).reverse.dropWhile isSpaceUni).reverse

def digitsVal (ds : List Char) : Nat := ds.foldl (fun acc c => acc * 10 + (c.toNat - '0'.toNat)) 0

def suffixLead (c : Char) : Bool := "mkKMGTPE".toList.contains c

/-- the `multipliers` map -/
def multipliers : List (String × Int) :=
  [("", 1), ("m", 1), ("k", 1000), ("M", 1000000), ("G", 1000000000), ("T", 1000000000000),
   ("P", 1000000000000000), ("E", 1000000000000000000),
   ("Ki", 1024), ("Mi", 1048576), ("Gi", 1073741824), ("Ti", 1099511627776),
   ("Pi", 1125899906842624), ("Ei", 1152921504606846976)]

/-- regexp match: (number digits, suffix) -/
def matchLegal (cs : List Char) : Option (List Char × List Char) :=
  let (ds, rest) := cs.span isDig
  if ds.isEmpty then none else
  let rest := rest.dropWhile isSpaceRe
  match rest with
  | [] => some (ds, [])
  | [c] => if suffixLead c then some (ds, [c]) else none
  | [c, 'i'] => if suffixLead c then some (ds, [c, 'i']) else none
  | _ => none

/-- multiplier in force for a suffix: table lookup, `m` only for milli-units, ×1000 for milli-units otherwise -/
def scaleOf (sfx : String) (milli : Bool) : Option Int :=
  match multipliers.lookup sfx with
  | none => none
  | some sc => if sfx == "m" && !milli then none else some (if milli && sfx != "m" then sc * 1000 else sc)

def parseQ (value : String) (milli : Bool) : Except PErr Int :=
  match matchLegal (trimSpace value.toList) with
  | none => .error .invalid
  | some (ds, suf) =>
    let n : Int := digitsVal ds
    if n > maxI then .error .overflow else
    match scaleOf (String.ofList suf) milli with
    | none => .error .suffix
    | some sc => if n * sc > maxI then .error .overflow else .ok (n * sc)

end Yk
