/-
  Application state machine: the transition function is READ OFF the table regenerated from
  pkg/scheduler/objects/application_state.go (Generated/AppFsm.lean, translator T2) the way looplab/fsm does:
  the first transition whose event name and source state match.  `documented` is the life cycle as C10 states it.
-/
import YkModel.Generated.AppFsm
namespace Yk

inductive AppState where
  | new | accepted | running | rejected | completing | completed | failing | failed | expired | resuming
  deriving DecidableEq, Repr

inductive AppEvent where
  | run | reject | complete | fail | expire | resume
  deriving DecidableEq, Repr

namespace AppState
def all : List AppState := [new, accepted, running, rejected, completing, completed, failing, failed, expired, resuming]
def name : AppState → String
  | new => "New" | accepted => "Accepted" | running => "Running" | rejected => "Rejected" | completing => "Completing"
  | completed => "Completed" | failing => "Failing" | failed => "Failed" | expired => "Expired" | resuming => "Resuming"
def ofName (s : String) : Option AppState := all.find? (fun a => a.name == s)
end AppState

namespace AppEvent
def all : List AppEvent := [run, reject, complete, fail, expire, resume]
def name : AppEvent → String
  | run => "runApplication" | reject => "rejectApplication" | complete => "completeApplication"
  | fail => "failApplication" | expire => "expireApplication" | resume => "resumeApplication"
end AppEvent

/-- looplab/fsm `Event`: destination of the first matching (event, source) entry; none = event inappropriate -/
def fire (a : AppState) (e : AppEvent) : Option AppState :=
  match Gen.appTransitions.find? (fun t => t.1 == e.name && t.2.1.contains a.name) with
  | none => none
  | some t => AppState.ofName t.2.2

/-- The documented life cycle (C10): New to Accepted/Rejected/Failing/Resuming, Accepted to Running/Completing/
    Failing/Resuming, Running to Completing/Failing, Completing to Running/Completed, Failing to Failed,
    Resuming to Accepted, terminal states only to Expired. -/
def documented : AppState → AppState → Bool
  | .new, .accepted | .new, .rejected | .new, .failing | .new, .resuming => true
  | .accepted, .running | .accepted, .completing | .accepted, .failing | .accepted, .resuming => true
  | .running, .completing | .running, .failing => true
  | .completing, .running | .completing, .completed => true
  | .failing, .failed => true
  | .resuming, .accepted => true
  | .completed, .expired | .failed, .expired | .rejected, .expired => true
  | _, _ => false

/-- one observable state change (or none): HandleApplicationEvent swallows "no transition" and errors keep the state -/
def handle (a : AppState) (e : AppEvent) : AppState := (fire a e).getD a

def callbackCalls (key : String) : List (String × String) := (Gen.appCallbacks.lookup key).getD []

end Yk
