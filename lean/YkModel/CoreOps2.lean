/-
  The stepped model of the scheduler core, second part: the gang / removal / timer operations
  (partition.go removeAllocation with every termination type, removeApplication, removeNode / removeNodeAllocations;
  application.go tryPlaceholderAllocate, ReplaceAllocation, RemoveAllAllocations, removeAsksInternal(""),
  timeoutPlaceholderProcessing, timeoutStateTimer; node.go ReplaceAllocation; queue.go RemoveApplication).
  Same conventions as YkModel/CoreOps.lean: every ledger is updated in the order the Go code does, exact arithmetic,
  the scheduler's decisions are parameters (read from what the implementation announced, never predicted).
  Every operation is written in "list form": the new application list (`updApp`), the new node list (`updNode`), the
  new queue list (`updQueues` with one composite function per queue of the application's chain).
  Known defects of the code (KNOWN_FINDINGS C03.I7t / I7r / I7o) are modelled as the code behaves.
-/
import YkModel.CoreOps
namespace Yk
open Res

namespace Core

/-- si.TerminationType of a release -/
inductive TermType where
  | stopped | unknown | timeout | preempted | replaced
  deriving DecidableEq, Repr

def TermType.ofName : String → TermType
  | "STOPPED_BY_RM" => .stopped
  | "TIMEOUT" => .timeout
  | "PREEMPTED_BY_SCHEDULER" => .preempted
  | "PLACEHOLDER_REPLACED" => .replaced
  | _ => .unknown

/-- one observable state change: the state log and the state timer follow (leave_state clears the timer, entering
    Completing / Completed / Failed / Rejected arms it) -/
def setState (a : CApp) (st : String) : CApp :=
  if st == a.state then a else
  { a with state := st, log := a.log ++ [st],
           stateTimer := st == "Completing" || st == "Completed" || st == "Failed" || st == "Rejected" }

/-- a Completed / Failed application leaves partition.applications (terminated callback → moveTerminatedApp) -/
def terminated (st : String) : Bool := st == "Completed" || st == "Failed"

def bumpReplaced (tg : String) (d : List (String × Nat × Nat × Nat)) : List (String × Nat × Nat × Nat) :=
  d.map (fun d => if d.1 == tg then (d.1, d.2.1, d.2.2.1 + 1, d.2.2.2) else d)

def bumpTimedOut (tg : String) (d : List (String × Nat × Nat × Nat)) : List (String × Nat × Nat × Nat) :=
  d.map (fun d => if d.1 == tg then (d.1, d.2.1, d.2.2.1, d.2.2.2 + 1) else d)

/-- the item with key `key` is replaced by `g` of it -/
def updItem (key : String) (g : CItem → CItem) (l : List CItem) : List CItem :=
  l.map (fun x => if x.key == key then g x else x)

/-! ### queue functions (one queue of the application's chain) -/

/-- DecAllocatedResource(r) -/
def qDecAlloc (r : Res) (q : CQueue) : CQueue := { q with allocated := prune (subX q.allocated r) }

/-- decPendingResource(r) -/
def qDecPend (r : Res) (q : CQueue) : CQueue := { q with pending := decPendingRes q.pending r }

/-- incPendingResource(r) -/
def qIncPend (r : Res) (q : CQueue) : CQueue := { q with pending := addX q.pending r }

/-- DecPreemptingResource(r) -/
def qDecPreempting (r : Res) (q : CQueue) : CQueue := { q with preempting := prune (subX q.preempting r) }

/-- Queue.RemoveApplication(a'): what the application still holds is taken off the queue; the queue forgets it -/
def qLeave (a' : CApp) (q : CQueue) : CQueue :=
  { q with pending := decPendingRes q.pending a'.pending,
           allocated := prune (subX (subX q.allocated a'.allocated) a'.allocatedPh),
           apps := q.apps.filter (· != a'.id), allocating := q.allocating.filter (· != a'.id) }

/-- the resources of the allocations of `a` that are marked preempted -/
def preemptedSum (a : CApp) : Res :=
  sumRes ((a.items.filter (fun i => i.bound && i.preempted)).map (·.res))

/-! ### removeAllocation for a key, any termination type but a confirmed swap -/

/-- removeAllocationInternal(key, tt) on the application: the bound allocation `i` leaves application.allocations -/
def relAppT (tt : TermType) (key : String) (i : CItem) (a : CApp) : CApp :=
  -- (an allocation whose request is gone already disappears from the item list)
  let items := (updItem key (fun x => { x with bound := false }) a.items).filter (fun x => x.bound || x.inReq)
  if i.ph then
    let phData := if tt == .replaced then bumpReplaced i.tg a.phData else bumpTimedOut i.tg a.phData
    let aph := prune (subX a.allocatedPh i.res)
    -- the confirmation of a replacement is followed by its real allocation: the application is not idle (fix 3b9e769)
    let replacing := tt == .replaced && i.release.isSome
    -- a failing application is only done when its real allocations are gone too (fix 81c5cb7)
    let failed := a.state == "Failing" && isZero (some a.allocated)
    let st :=
      if isZero (some aph) &&
         ((a.state == "Completing" && !a.stateTimer && !replacing) || failed || a.state == "Resuming" ||
          (isZero (some a.pending) && isZero (some a.allocated) && !replacing && a.state != "Failing")) then
        (if a.state == "Failing" then fireState a.state .fail
         else if a.state == "Resuming" then fireState a.state .run
         else fireState a.state .complete)
      else a.state
    let a1 := setState { a with items := items, allocatedPh := aph, phData := phData } st
    { a1 with live := !(terminated st) }
  else
    let alloc := prune (subX a.allocated i.res)
    -- the last real allocation of a failing application: it has failed once the placeholders are gone as well (fix 81c5cb7)
    let st := if isZero (some a.pending) && isZero (some alloc) then
        (if a.state == "Failing" then (if isZero (some a.allocatedPh) then fireState a.state .fail else a.state)
         else fireState a.state .complete)
      else a.state
    let a1 := setState { a with items := items, allocated := alloc } st
    { a1 with live := !(terminated st) }

/-- node.RemoveAllocation(key) for a non-foreign allocation of size `r` -/
def nodeRm (key : String) (r : Res) (n : CNode) : CNode :=
  { n with allocs := n.allocs.filter (·.key != key), allocated := prune (subX n.allocated r), available := addX n.available r }

/-- the chain queue after the bound allocation `i` was released and the application became `a'` -/
def relQT (i : CItem) (a' : CApp) (onNode : Bool) (q : CQueue) : CQueue :=
  let q1 := if onNode && strictlyGreaterThanZero (some i.res) then qDecAlloc i.res q else q
  let q2 := if onNode && i.preempted && strictlyGreaterThanZero (some i.res) then qDecPreempting i.res q1 else q1
  if a'.live then q2 else qLeave a' q2

/-- removeAllocation, the part for a bound allocation `i` (application, node, queue chain, counters) -/
def relBoundT (s : Core) (tt : TermType) (app key : String) (a : CApp) (i : CItem) : Core :=
  if i.bound then
    let a' := relAppT tt key i a
    let onNode := (s.findNode i.node).isSome
    let sA := updApp s app (fun _ => a')
    let sN := if onNode then updNode sA i.node (nodeRm key i.res) else sA
    let sQ := updQueues sN (pathChain s a.queue) (relQT i a' onNode)
    { sQ with allocations := sQ.allocations - 1, phAllocations := if i.ph then sQ.phAllocations - 1 else sQ.phAllocations }
  else s

/-- removeAsksInternal(key) on the application: the ask `x` leaves application.requests -/
def askAppT (key : String) (x : CItem) (a : CApp) : CApp :=
  -- an allocation that stays in application.allocations stays in the item list without its request
  let items := (updItem key (fun y => { y with inReq := false }) a.items).filter (fun y => y.bound || y.inReq)
  let pending := if x.allocated then a.pending else prune (subX a.pending x.res)
  let hasPh := items.any (fun y => y.bound && y.ph)
  let st := if isZero (some pending) && isZero (some a.allocated) && a.state != "Failing" && a.state != "Completing" && !hasPh
            then fireState a.state .complete else a.state
  let a1 := setState { a with items := items, pending := pending, reservations := a.reservations.filter (·.1 != key) } st
  a1

/-- RemoveAllocationAsk(key): reservation of the ask, the ask, pending down the chain, state check -/
def askRemoveT (s1 : Core) (app key : String) (chain : List String) : Core :=
  match s1.findApp app with
  | none => s1
  | some a1 =>
    match a1.items.find? (fun x => x.key == key && x.inReq) with
    | none => s1
    | some x =>
      let s2 := updApp s1 app (askAppT key x)
      let s3 := if x.allocated then s2 else updQueues s2 chain (qDecPend x.res)
      -- unReserveInternal + queue.UnReserve (the partition counter is not touched on this path)
      match a1.reservations.find? (·.1 == key) with
      | none => s3
      | some r =>
        let s4 := updNode s3 r.2 (fun n => { n with reservations := n.reservations.filter (· != key) })
        { s4 with queues := s4.queues.map (fun q => if q.path == a1.queue then
            { q with reserved := q.reserved.filterMap (fun e => if e.1 == app then (if e.2 ≤ 1 then none else some (e.1, e.2 - 1)) else some e) } else q) }

/-- partition.removeAllocation(app, key, tt) for a key: STOPPED_BY_RM / UNKNOWN / TIMEOUT / PREEMPTED_BY_SCHEDULER, and
    PLACEHOLDER_REPLACED for an allocation without a linked replacement (a plain removal counted as replaced).
    A TIMEOUT release is the shim's confirmation of a release the core asked for: the ask stays in application.requests. -/
def releaseKeyT (s : Core) (tt : TermType) (app key : String) : Core :=
  match s.findApp app with
  | none => s
  | some a =>
    match a.items.find? (·.key == key) with
    | none => s
    | some i =>
      let s1 := relBoundT s tt app key a i
      if tt == .timeout then s1 else askRemoveT s1 app key (pathChain s a.queue)

/-! ### placeholder swap -/

/-- tryPlaceholderAllocate decided: real ask `realKey` replaces the bound placeholder `phKey`, the real allocation will
    live on `node`.  allocateAsk (pending down the chain), the links both ways, the placeholder marked released; when
    `node` is not the placeholder's node the real half is added to the new node now (TryAddAllocation), the queues are
    not touched. -/
def swapStart (s : Core) (app realKey phKey node : String) : Option Core :=
  match s.findApp app with
  | none => none
  | some a =>
    match a.items.find? (fun i => i.key == realKey && i.inReq && !i.allocated),
          a.items.find? (fun i => i.key == phKey && i.bound && i.ph) with
    | some r, some p =>
      let cross := p.node != node
      if cross && !((s.findNode node).any (fun n => fitInStd (some n.available) (some r.res))) then none else
      let sN := if cross then updNode s node (fun n => { n with
          allocs := n.allocs ++ [{ key := realKey, app := app, res := r.res, foreign := false, ph := false }],
          allocated := addX n.allocated r.res, available := prune (subX n.available r.res) }) else s
      let sA := updApp sN app (fun a => { a with
          items := updItem phKey (fun x => { x with released := true, release := some realKey })
                     (updItem realKey (fun x => { x with allocated := true, node := node, release := some phKey }) a.items),
          pending := prune (subX a.pending r.res) })
      some (updQueues sA (pathChain s a.queue) (qDecPend r.res))
    | _, _ => none

/-- the real allocation a placeholder is linked to: the application's item, or — when its ask was dropped while the swap
    was in flight (I7r, I7o) — what the node it was parked on still lists -/
def findReal (s : Core) (a : CApp) (rk : String) : Option CItem :=
  match a.items.find? (·.key == rk) with
  | some r => some r
  | none => s.nodes.findSome? (fun n => (n.allocs.find? (fun x => x.key == rk && x.app == a.id && !x.foreign)).map (fun x =>
      { key := rk, res := x.res, ph := false, tg := "", allocated := true, node := n.id, bound := false, inReq := false,
        released := false, preempted := false, release := none, reqNode := "" }))

/-- Application.ReplaceAllocation: the placeholder `p` leaves application.allocations (counted as replaced), the real
    allocation `r` enters it (addAllocationInternal with result type Replaced) -/
def replApp (p r : CItem) (a : CApp) : CApp :=
  -- removeAllocationInternal(p, PLACEHOLDER_REPLACED)
  let aph := prune (subX a.allocatedPh p.res)
  -- (a replacement is being confirmed: only a Failing / Resuming application progresses here — fix 3b9e769; its real
  --  allocation follows at once)
  let st1 :=
    if isZero (some aph) && ((a.state == "Failing" && isZero (some a.allocated)) || a.state == "Resuming") then
      (if a.state == "Failing" then fireState a.state .fail else fireState a.state .run)
    else a.state
  let a1 := setState { a with allocatedPh := aph, phData := bumpReplaced p.tg a.phData } st1
  -- addAllocationInternal(Replaced, r): no state change for the first replacement unless the application is Completing
  let st2 := if !(isZero (some a1.allocated)) || a1.state == "Completing" then fireState a1.state .run else a1.state
  let a2 := setState { a1 with allocated := addX a1.allocated r.res } st2
  let items0 := (updItem r.key (fun x => { x with bound := true, release := none })
                  (updItem p.key (fun x => { x with bound := false }) a.items)).filter (fun x => x.bound || x.inReq)
  let items := if a.items.any (·.key == r.key) then items0 else items0 ++ [{ r with bound := true, release := none }]
  { a2 with items := items, live := !(terminated st1) }

/-- node.ReplaceAllocation(phKey, real, delta) -/
def nodeSwap (app : String) (p r : CItem) (n : CNode) : CNode :=
  let delta := subX r.res p.res
  { n with allocs := n.allocs.filter (·.key != p.key) ++ [{ key := r.key, app := app, res := r.res, foreign := false, ph := false }],
           allocated := addX n.allocated delta, available := prune (subX n.available delta) }

/-- the size the queue gives back when the placeholder `p` is larger than the real allocation `r` (0 − delta) -/
def swapTotal (p r : CItem) : Res :=
  let delta := subX r.res p.res
  if hasNegativeValue (some delta) then subX [] delta else []

def swapQ (p r : CItem) (a' : CApp) (onNode : Bool) (q : CQueue) : CQueue :=
  let total := swapTotal p r
  let q1 := if onNode && strictlyGreaterThanZero (some total) then qDecAlloc total q else q
  let q2 := if onNode && p.preempted && strictlyGreaterThanZero (some p.res) then qDecPreempting p.res q1 else q1
  if a'.live then q2 else qLeave a' q2

/-- partition.removeAllocation(app, phKey, PLACEHOLDER_REPLACED): the shim confirms the swap -/
def swapConfirm (s : Core) (app phKey : String) : Core :=
  match s.findApp app with
  | none => s
  | some a =>
    match a.items.find? (·.key == phKey) with
    | none => s
    | some p =>
      match (if p.bound && p.ph then p.release else none).bind (findReal s a) with
      | none => releaseKeyT s .replaced app phKey
      | some r =>
        let a' := replApp p r a
        let onNode := (s.findNode p.node).isSome
        let sA := updApp s app (fun _ => a')
        let sN := if r.node == p.node then updNode sA p.node (nodeSwap app p r) else updNode sA p.node (nodeRm phKey p.res)
        let sQ := updQueues sN (pathChain s a.queue) (swapQ p r a' onNode)
        let s1 := { sQ with phAllocations := sQ.phAllocations - 1 }
        askRemoveT s1 app phKey (pathChain s a.queue)

/-! ### all allocations / all asks of an application -/

/-- the bound allocations of an application that their node lists -/
def onNodes (s : Core) (l : List CItem) : List CItem :=
  l.filter (fun i => i.bound && (s.findNode i.node).any (fun n => n.allocs.any (fun x => x.key == i.key)))

/-- node.RemoveAllocation for every allocation of the list -/
def rmFromNodes (s : Core) (l : List CItem) : Core :=
  l.foldl (fun c i => updNode c i.node (nodeRm i.key i.res)) s

def bumpTimedOutAll (l : List CItem) (d : List (String × Nat × Nat × Nat)) : List (String × Nat × Nat × Nat) :=
  l.foldl (fun d i => if i.bound && i.ph then bumpTimedOut i.tg d else d) d

/-- Application.RemoveAllAllocations -/
def relAllApp (a : CApp) : CApp :=
  let st := if isZero (some a.pending) then fireState a.state .complete else a.state
  let a1 := setState { a with items := (a.items.map (fun x => { x with bound := false })).filter (·.inReq),
                              allocated := [], allocatedPh := [], phData := bumpTimedOutAll a.items a.phData } st
  -- clearStateTimer at the end of RemoveAllAllocations
  { a1 with stateTimer := false, live := !(terminated st) }

/-- removeAsksInternal(""): every ask and every reservation of the application -/
def dropAsksApp (a : CApp) : CApp :=
  if !(a.items.any (·.inReq)) then a else
  let items := (a.items.filter (·.bound)).map (fun x => { x with inReq := false })
  let hasPh := items.any (fun y => y.ph)
  let st := if isZero (some a.allocated) && a.state != "Failing" && a.state != "Completing" && !hasPh
            then fireState a.state .complete else a.state
  setState { a with items := items, pending := [], reservations := [] } st

/-- the reservations of application `a` leave the nodes, its queue and (when the partition does the bookkeeping) the
    partition counter -/
def unreserveApp (s : Core) (a : CApp) (counter : Bool) : Core :=
  if a.reservations.isEmpty then s else
  { s with nodes := s.nodes.map (fun n => { n with reservations := n.reservations.filter (fun k => !(a.reservations.contains (k, n.id))) }),
           queues := s.queues.map (fun q => if q.path == a.queue then { q with reserved := q.reserved.filter (·.1 != a.id) } else q),
           reservations := if counter then s.reservations - a.reservations.length else s.reservations }

def relAllQ (total : Res) (preempting : Res) (a1 a2 : CApp) (asks : Bool) (q : CQueue) : CQueue :=
  let q1 := if strictlyGreaterThanZero (some total) then qDecAlloc total q else q
  let q2 := if strictlyGreaterThanZero (some preempting) then qDecPreempting preempting q1 else q1
  -- the terminated callback of RemoveAllAllocations reads the application before the asks are dropped or after: the
  -- quantities it takes off the queue are the same in both orders
  let q3 := if asks then qDecPend a1.pending q2 else q2
  if a2.live then q3 else qLeave a2 q3

/-- partition.removeAllocation(app, "", tt): every allocation of the application, and — unless this is a TIMEOUT
    confirmation — every ask -/
def releaseApp (s : Core) (tt : TermType) (app : String) : Core :=
  match s.findApp app with
  | none => s
  | some a =>
    let bound := a.items.filter (·.bound)
    let there := onNodes s a.items
    let total := sumRes (there.map (·.res))
    let preempting := sumRes ((there.filter (·.preempted)).map (·.res))
    let a1 := relAllApp a
    let asks := tt != .timeout && a1.live && a1.items.any (·.inReq)
    let a2 := if asks then dropAsksApp a1 else a1
    let a2 := { a2 with live := a1.live && !(terminated a2.state) }
    let sA := updApp s app (fun _ => a2)
    let sN := rmFromNodes sA there
    let sQ := updQueues sN (pathChain s a.queue) (relAllQ total preempting a1 a2 asks)
    let sR := if asks then unreserveApp sQ a false else sQ
    { sR with allocations := sR.allocations - bound.length, phAllocations := sR.phAllocations - (bound.filter (·.ph)).length }

/-- partition.removeApplication: the application leaves the partition, asks and reservations dropped, its queue forgets
    it (Queue.RemoveApplication), every allocation is taken off its node -/
def appRemove (s : Core) (app : String) : Core :=
  match s.findApp app with
  | none => s
  | some a =>
    let bound := a.items.filter (·.bound)
    let a1 := dropAsksApp a
    let sA := { s with apps := s.apps.filter (fun x => !(x.live && x.id == app)) }
    let sN := rmFromNodes sA (onNodes s a.items)
    let sQ := updQueues sN (pathChain s a.queue) (fun q =>
      let q1 := qLeave a1 (if a.items.any (·.inReq) then qDecPend a.pending q else q)
      let pre := preemptedSum a
      if isZero (some pre) then q1 else qDecPreempting pre q1)
    let sR := unreserveApp sQ a false
    { sR with allocations := sR.allocations - bound.length }

/-! ### timers -/

/-- timeoutPlaceholderProcessing. `ev` is the state the application announced (Resuming for a Soft, Failing for a Hard
    gang application; none when the event was not valid in its state). -/
def phTimeout (s : Core) (app : String) (ev : Option String) : Core :=
  match s.findApp app with
  | none => s
  | some a =>
    if (a.state == "Running" || a.state == "Completing") && !(isZero (some a.allocatedPh)) then
      -- case 1: the placeholders that are not being replaced are released by the shim; no ledger changes yet
      updApp s app (fun a => { a with items := a.items.map (fun x =>
        if x.bound && x.ph && !x.released && !x.preempted then { x with released := true } else x) })
    else
      -- case 2: the application fails / resumes, every allocation is marked released, every ask is dropped
      let a0 := match ev with | some st => setState a st | none => a
      let timedOut := a.items.filter (fun x => x.inReq && !x.allocated && !x.preempted)
      let a1 := { a0 with items := a0.items.map (fun x => if x.bound && !x.preempted then { x with released := true } else x),
                          phData := timedOut.foldl (fun d x => bumpTimedOut x.tg d) a0.phData }
      let a2 := dropAsksApp a1
      let sA := updApp s app (fun _ => a2)
      let sQ := if a.items.any (·.inReq) then updQueues sA (pathChain s a.queue) (qDecPend a.pending) else sA
      if a.items.any (·.inReq) then unreserveApp sQ a false else sQ

/-- timeoutStateTimer for a live application: a Completing application that still holds placeholders asks the shim to
    release them (no ledger change), otherwise it completes and leaves the partition -/
def stateTimeout (s : Core) (app : String) : Core :=
  match s.findApp app with
  | none => s
  | some a =>
    if a.state != "Completing" then s else
    if !(isZero (some a.allocatedPh)) then
      updApp s app (fun a => { a with stateTimer := false, items := a.items.map (fun x =>
        if x.bound && x.ph && !x.released && !x.preempted then { x with released := true } else x) })
    else
      let st := fireState a.state .complete
      let a' := { setState a st with live := !(terminated st), items := (a.items.filter (·.bound)).map (fun x => { x with inReq := false }) }
      let sA := updApp s app (fun _ => a')
      if a'.live then sA else updQueues sA (pathChain s a.queue) (qLeave a')

/-! ### node removal -/

/-- DeallocateAsk(key): the ask is outstanding again (a Completing application runs again); `other` is the item at the far end of the replacement link, which is
    cleared on both sides -/
def deallocApp (key other : String) (r : CItem) (a : CApp) : CApp :=
  { a with items := updItem other (fun x => { x with release := none })
                      (updItem key (fun x => { x with allocated := false, release := none }) a.items),
           pending := addX a.pending r.res }

/-- as for a new ask: a Completing application has something to schedule again (Application.DeallocateAsk) -/
def runAgain (a : CApp) : CApp :=
  if a.state == "Completing" then setState a (fireState a.state .run) else a

/-- Application.DeallocateAsk as the partition calls it: the ask is outstanding again and a Completing application runs again -/
def deallocAppRun (key other : String) (r : CItem) (a : CApp) : CApp := runAgain (deallocApp key other r a)

def unlinkApp (k1 k2 : String) (a : CApp) : CApp :=
  { a with items := updItem k2 (fun x => { x with release := none }) (updItem k1 (fun x => { x with release := none }) a.items) }

/-- the terminated callback runs in a goroutine of its own: while removeNodeAllocations walks over the allocations of
    the node an application that has just become Completed / Failed is still in partition.applications; it leaves when
    the loop is done (`sweepTerminated`) -/
def nodeRmQ (i : CItem) (q : CQueue) : CQueue :=
  let q1 := qDecAlloc i.res q
  if i.preempted then qDecPreempting i.res q1 else q1

/-- app.RemoveAllocation(key, UNKNOWN), queue.DecAllocatedResource, counters (the node itself is dropped afterwards) -/
def nodeRmBound (c : Core) (app key : String) : Core :=
  match c.findApp app with
  | none => c
  | some a =>
    match a.items.find? (·.key == key) with
    | none => c
    | some i =>
      if !i.bound then c else
      let a' := { relAppT .unknown key i a with live := true }
      let cA := updApp c app (fun _ => a')
      let cQ := updQueues cA (pathChain c a.queue) (nodeRmQ i)
      { cQ with allocations := cQ.allocations - 1, phAllocations := if i.ph then cQ.phAllocations - 1 else cQ.phAllocations }

/-- TryIncAllocatedResource(delta) with the negative part of real − placeholder -/
def nodeConfirmQ (delta : Res) (q : CQueue) : CQueue :=
  if hasNegativeValue (some delta) then { q with allocated := addX q.allocated delta } else q

/-- one allocation (key `key` of application `app`) of the node `nodeId` that is being removed: one round of the loop of
    removeNodeAllocations -/
def nodeRmAlloc (c : Core) (nodeId app key : String) : Core :=
  match c.findApp app with
  | none => c
  | some a =>
    match a.items.find? (·.key == key) with
    | none => c
    | some i =>
      let chain := pathChain c a.queue
      match i.release with
      | none => nodeRmBound c app key
      | some rk =>
        if i.ph then
          match findReal c a rk with
          | none =>
            -- the real ask is gone and its allocation is parked on no node: it was a same-node replacement; the links are
            -- cleared, DeallocateAsk fails (no such ask), the placeholder is released like any allocation of the node
            nodeRmBound (updApp c app (unlinkApp rk key)) app key
          | some r =>
            if r.node != nodeId then
              -- the real half waits on another node: the swap is confirmed now (queue: only the size difference; the
              -- placeholder counter of the partition is not decremented on this path)
              if !i.bound then c else
              let a' := { replApp i r a with live := true }
              updQueues (updApp c app (fun _ => a')) chain (nodeConfirmQ (subX r.res i.res))
            else
              -- same node: the replacement is reversed (links cleared, the real ask outstanding again), then the
              -- placeholder is released like any allocation of the node
              let c1 := if r.inReq && r.allocated then updQueues (updApp c app (deallocAppRun rk key r)) chain (qIncPend r.res)
                        else updApp c app (unlinkApp rk key)
              nodeRmBound c1 app key
        else
          -- the real half of a replacement parked on this node: reversed; the placeholder stays where it is
          if i.inReq && i.allocated then
            let c1 := updQueues (updApp c app (deallocAppRun key rk i)) chain (qIncPend i.res)
            nodeRmBound c1 app key
          else nodeRmBound (updApp c app (unlinkApp rk key)) app key

/-- moveTerminatedApp for one application: it leaves partition.applications and its queue -/
def leaveApp (c : Core) (app : String) : Core :=
  match c.findApp app with
  | none => c
  | some a =>
    let a' := { a with live := false, items := (a.items.filter (·.bound)).map (fun x => { x with inReq := false }) }
    updQueues (updApp c app (fun _ => a')) (pathChain c a.queue) (qLeave a')

/-- every application that became Completed / Failed during the operation leaves -/
def sweepTerminated (c : Core) : Core :=
  c.apps.foldl (fun c a => if a.live && terminated a.state then leaveApp c a.id else c) c

/-- unReserve(app, node, ask) for the reservation of ask `k` on node `id` -/
def unreserveOn (c : Core) (id k : String) : Core :=
  match c.liveApps.find? (fun a => a.reservations.contains (k, id)) with
  | none => c
  | some a =>
    { c with apps := c.apps.map (fun x => if x.live && x.id == a.id then { x with reservations := x.reservations.filter (· != (k, id)) } else x),
             queues := c.queues.map (fun q => if q.path == a.queue then
               { q with reserved := q.reserved.filterMap (fun e => if e.1 == a.id then (if e.2 ≤ 1 then none else some (e.1, e.2 - 1)) else some e) } else q),
             reservations := c.reservations - 1 }

/-- partition.removeNode: reservations on the node, its allocations, the node, the partition total and the root maximum -/
def nodeRemove (s : Core) (id : String) (order : List (String × String)) : Core :=
  match s.findNode id with
  | none => s
  | some n =>
    let s0 := n.reservations.foldl (fun c k => unreserveOn c id k) s
    -- the allocations of the node in the order the implementation walked over them (a Go map: `order`, read from the
    -- release messages), then the ones it did not announce
    let rest := ((n.allocs.filter (!·.foreign)).map (fun na => (na.app, na.key))).filter (fun p => !(order.contains p))
    let s1 := (order ++ rest).foldl (fun c p => nodeRmAlloc c id p.1 p.2) s0
    let s2 := sweepTerminated s1
    let total := prune (subX s2.total n.total)
    setRootMax { s2 with nodes := s2.nodes.filter (·.id != id), total := total } total

/-! ### reservations made and cancelled by a scheduling cycle (no ledger moves) -/

/-- partition.reserve(app, node, ask): application, node, queue and the partition counter -/
def reserve (s : Core) (app key node : String) : Core :=
  match s.findApp app with
  | none => s
  | some a =>
    if a.reservations.any (·.1 == key) then s else
    { s with apps := s.apps.map (fun x => if x.live && x.id == app then { x with reservations := x.reservations ++ [(key, node)] } else x),
             nodes := s.nodes.map (fun n => if n.id == node then { n with reservations := n.reservations ++ [key] } else n),
             queues := s.queues.map (fun q => if q.path == a.queue then
               { q with reserved := if q.reserved.any (·.1 == app) then q.reserved.map (fun e => if e.1 == app then (e.1, e.2 + 1) else e)
                                    else q.reserved ++ [(app, 1)] } else q),
             reservations := s.reservations + 1 }

/-- partition.unReserve(app, node, ask) -/
def unreserve (s : Core) (app key node : String) : Core :=
  match s.findApp app with
  | none => s
  | some a =>
    if !(a.reservations.contains (key, node)) then s else
    { s with apps := s.apps.map (fun x => if x.live && x.id == app then { x with reservations := x.reservations.filter (· != (key, node)) } else x),
             nodes := s.nodes.map (fun n => if n.id == node then { n with reservations := n.reservations.filter (· != key) } else n),
             queues := s.queues.map (fun q => if q.path == a.queue then
               { q with reserved := q.reserved.filterMap (fun e => if e.1 == app then (if e.2 ≤ 1 then none else some (e.1, e.2 - 1)) else some e) } else q),
             reservations := s.reservations - 1 }

/-- the reservation bookkeeping of a state: (application, ask, node) triples, what the nodes and queues list, the counter -/
def resvSig (s : Core) : List (String × String × String) × List (String × String) × List (String × String × Nat) × Nat :=
  ((s.liveApps.map (fun a => a.reservations.map (fun r => (a.id, r.1, r.2)))).flatten,
   (s.nodes.map (fun n => n.reservations.map (fun k => (n.id, k)))).flatten,
   (s.queues.map (fun q => (q.reserved.filter (·.2 != 0)).map (fun e => (q.path, e.1, e.2)))).flatten,
   s.reservations)

def sameSet {α : Type} [BEq α] (x y : List α) : Bool := x.length == y.length && x.all y.contains && y.all x.contains

def resvAgree (m i : Core) : Bool :=
  let a := resvSig m; let b := resvSig i
  sameSet a.1 b.1 && sameSet a.2.1 b.2.1 && sameSet a.2.2.1 b.2.2.1 && a.2.2.2 == b.2.2.2

/-! ### the domain of the release operations -/

/-- DecAllocatedResource refuses (and changes nothing) when a queue of the chain holds less than what is released.  The
    release operations above apply it without that guard: they are the model of the code on states where every queue
    on the chain of application `app` holds at least what the application books (true whenever the books agree); the
    driver does not step them elsewhere. -/
def queuesCover (s : Core) (app : String) : Bool :=
  match s.findApp app with
  | none => true
  | some a => (s.queues.filter (fun q => under a.queue q.path)).all (fun q =>
      fitInStd (some q.allocated) (some (addX a.allocated a.allocatedPh)))

/-! ### flags -/

/-- the release messages of a cycle that are not swaps only set flags (released / preempted, queue.preempting) -/
def markReleased (c : Core) (app key : String) (preempted : Bool) : Core :=
  match c.findApp app with
  | none => c
  | some a =>
    match a.items.find? (·.key == key) with
    | none => c
    | some i =>
      let c1 := updApp c app (fun a => { a with items := a.items.map (fun x =>
        if x.key == key then (if preempted then { x with preempted := true } else { x with released := true }) else x) })
      if preempted && !i.preempted then updQueues c1 (pathChain c a.queue) (fun q => { q with preempting := addX q.preempting i.res }) else c1

/-! ### bookkeeping-only operations -/

/-- dynamic queues the placement created (read from the new state; they start with empty ledgers) -/
def queuesAdd (s : Core) (newQueues : List CQueue) : Core :=
  let fresh := (newQueues.filter (fun q => (s.findQueue q.path).isNone)).map
    (fun q => { q with allocated := [], pending := [], preempting := [] })
  { s with queues := s.queues ++ fresh }

/-- a new application enters the partition (AddApplication): no ledger moves. `newQueues` are the dynamic queues the
    placement created for it — they stay when the application is rejected afterwards (`a = none`). -/
def appAdd (s : Core) (a : Option CApp) (newQueues : List CQueue) : Core :=
  let s1 := queuesAdd s newQueues
  match a with
  | none => s1
  | some a =>
    if (s.findApp a.id).isSome || !(s1.queues.any (·.path == a.queue)) then s1 else
    { s1 with apps := s1.apps ++ [{ a with live := true, items := [], pending := [], allocated := [], allocatedPh := [] }] }

/-- cleanupExpiredApps: expired applications leave the completed / rejected lists -/
def cleanup (s : Core) : Core := { s with apps := s.apps.filter (fun a => a.live || a.state != "Expired") }

end Core
end Yk
