/-
  Model of pkg/common/resources/resources.go: sparse resource vectors.
  `Res` = association list with unique keys (a Go map); `ORes` = `Option Res` where the code
  distinguishes a nil *Resource from an empty one.  Every operation is written as the loop the Go
  code runs; the calculators come from the regenerated `Generated/ResArith.lean`.
  Core Lean only; every definition is executable (the driver runs them against the implementation).
-/
import YkModel.Generated.ResArith
namespace Yk

abbrev Res := List (String × Int)
abbrev ORes := Option Res

namespace Res

/-- `r.Resources[k]` with the `ok` flag -/
def get? (r : Res) (k : String) : Option Int := r.lookup k
/-- `r.Resources[k]` (Go map read: missing gives 0) -/
def getD (r : Res) (k : String) : Int := (r.lookup k).getD 0
def has (r : Res) (k : String) : Bool := (r.lookup k).isSome

/-- `r.Resources[k] = v` -/
def set : Res → String → Int → Res
  | [], k, v => [(k, v)]
  | (k', v') :: t, k, v => if k' == k then (k', v) :: t else (k', v') :: set t k v

/-- `delete(r.Resources, k)` -/
def erase : Res → String → Res
  | [], _ => []
  | (k', v') :: t, k => if k' == k then t else (k', v') :: erase t k

def keys (r : Res) : List String := r.map Prod.fst

/-- keys are unique: the value is a Go map -/
def wf : Res → Bool
  | [] => true
  | (k, _) :: t => !(t.any (fun p => p.1 == k)) && wf t

end Res

open Res

/-- `nil` is replaced by `Zero` in most binary operations -/
def orZero (r : ORes) : Res := r.getD []

/-- Prune: drop explicit zero entries -/
def prune (r : Res) : Res := r.filter (fun p => p.2 != 0)

/-- the loop shared by Add/Sub/AddTo/SubFrom: clone `l`, then for every entry of `r`: out[k] = f(out[k], v) -/
def zipFold (f : Int → Int → Int) (l r : Res) : Res :=
  r.foldl (fun out p => out.set p.1 (f (out.getD p.1) p.2)) l

/-- Add(left, right) -/
def add (l r : ORes) : Res :=
  match r with
  | none => orZero l
  | some r => zipFold goAddVal (orZero l) r

/-- Sub(left, right) -/
def sub (l r : ORes) : Res :=
  match r with
  | none => orZero l
  | some r => zipFold goSubVal (orZero l) r

/-- Add/Sub with exact integer arithmetic: what Add/Sub compute while no quantity saturates
    (`YkProps/C18`: the calculators are exact inside the int64 range). Used by the L1/L2 models. -/
def addX (l r : Res) : Res := zipFold (· + ·) l r
def subX (l r : Res) : Res := zipFold (· - ·) l r

/-- AddTo: receiver nil stays nil -/
def addTo (l r : ORes) : ORes := match l with | none => none | some _ => some (add l r)
def subFrom (l r : ORes) : ORes := match l with | none => none | some _ => some (sub l r)

/-- SubOnlyExisting(base, delta) -/
def subOnlyExisting (base delta : ORes) : ORes :=
  match base, delta with
  | some b, some d => some (b.map (fun p => (p.1, goSubVal p.2 (d.getD p.1))))
  | b, _ => b

/-- AddOnlyExisting(base, delta) -/
def addOnlyExisting (base delta : ORes) : ORes :=
  match base, delta with
  | some b, some d => some (b.map (fun p => (p.1, goAddVal p.2 (d.getD p.1))))
  | b, _ => b

/-- subNonNegative: result and the list of types that went negative (in iteration order of `right`) -/
def subNonNegative (l r : ORes) : Res × List String :=
  match r with
  | none => (orZero l, [])
  | some r => r.foldl (fun (acc : Res × List String) p =>
      let v := goSubVal (acc.1.getD p.1) p.2
      if v < 0 then (acc.1.set p.1 0, acc.2 ++ [p.1]) else (acc.1.set p.1 v, acc.2)) (orZero l, [])

def subEliminateNegative (l r : ORes) : Res := (subNonNegative l r).1

/-- fitIn(smaller, skipUndef, actual) on receiver `r` -/
def fitIn (r smaller : ORes) (skipUndef actual : Bool) : Bool :=
  match smaller with
  | none => true
  | some s =>
    let r := orZero r
    s.all (fun p =>
      match r.get? p.1 with
      | none => if skipUndef then true else decide (p.2 ≤ 0)   -- largerValue = 0 either way
      | some lv => decide (p.2 ≤ (if actual then lv else max 0 lv)))

def fitInStd (r s : ORes) : Bool := fitIn r s false false
def fitInMaxUndef (r s : ORes) : Bool := fitIn r s true false
def fitInActual (r s : ORes) : Bool := fitIn r s true true

/-- Equals; `same` = the two pointers are identical -/
def equals (l r : ORes) (same : Bool) : Bool :=
  if same then true else
  match l, r with
  | some l, some r => l.all (fun p => r.getD p.1 == p.2) && r.all (fun p => l.getD p.1 == p.2)
  | none, none => true   -- nil == nil is pointer equality
  | _, _ => false

def deepEquals (l r : ORes) (same : Bool) : Bool :=
  if same then true else
  match l, r with
  | some l, some r => (r.length == l.length) && l.all (fun p => r.get? p.1 == some p.2)
  | none, none => true
  | _, _ => false

def matchAny (r other : ORes) (same : Bool) : Bool :=
  match r, other with
  | some r, some o => if same then true else r.any (fun p => o.has p.1)
  | _, _ => false

def isZero (r : ORes) : Bool :=
  match r with
  | none => true
  | some r => r.all (fun p => p.2 == 0)

def equalsOrEmpty (l r : ORes) (same : Bool) : Bool :=
  if isZero l && isZero r then true else equals l r same

def multiply (base : ORes) (ratio : Int) : Res :=
  match base with
  | none => []
  | some b => if ratio == 0 then [] else b.map (fun p => (p.1, goMulVal p.2 ratio))

def strictlyGreaterThan (larger smaller : ORes) : Bool :=
  let l := orZero larger
  let s := orZero smaller
  if l.any (fun p => decide (s.getD p.1 > p.2)) then false
  else if s.any (fun p => decide (l.getD p.1 < p.2)) then false
  else l.any (fun p => s.getD p.1 != p.2) || s.any (fun p => l.getD p.1 != p.2)

def strictlyGreaterThanOrEquals (larger smaller : ORes) : Bool :=
  let l := orZero larger
  let s := orZero smaller
  l.all (fun p => decide (s.getD p.1 ≤ p.2)) && s.all (fun p => decide (p.2 ≤ l.getD p.1))

def isEmpty (r : ORes) : Bool := match r with | none => true | some r => r.isEmpty

/-- internalStrictlyOnlyExisting -/
def strictlyOnlyExisting (r smaller : ORes) (doEquals : Bool) : Bool :=
  let l := orZero r
  let s := orZero smaller
  let sEmpty := s.isEmpty
  if l.any (fun p => match s.get? p.1 with | some v => decide (v > p.2) | none => false) then false
  else
    let common := l.filter (fun p => s.has p.1)
    if sEmpty && !l.isEmpty then l.all (fun p => decide (0 < p.2))
    else if !common.isEmpty then
      (if doEquals then true else common.any (fun p => s.getD p.1 != p.2))
    else !l.isEmpty && !sEmpty

def strictlyGreaterThanZero (r : ORes) : Bool :=
  match r with
  | none => false
  | some r => if r.any (fun p => decide (p.2 < 0)) then false else r.any (fun p => decide (p.2 > 0))

def componentWiseMin (l r : ORes) : ORes :=
  match l, r with
  | none, none => none
  | none, some r => some r
  | some l, none => some l
  | some l, some r =>
    let out := l.foldl (fun (out : Res) p =>
      match r.get? p.1 with | some v => out.set p.1 (min p.2 v) | none => out.set p.1 p.2) []
    some (r.foldl (fun (out : Res) p =>
      match l.get? p.1 with | some v => out.set p.1 (min p.2 v) | none => out.set p.1 p.2) out)

def mergeIfNotPresent (l r : ORes) : ORes :=
  match l, r with
  | none, none => none
  | none, some r => some r
  | some l, none => some l
  | some l, some r => some (r.foldl (fun (out : Res) p => if l.has p.1 then out else out.set p.1 p.2) l)

def componentWiseMinOnlyExisting (l r : ORes) : ORes :=
  match l, r with
  | none, _ => none
  | some l, none => some l
  | some l, some r => some (l.map (fun p => match r.get? p.1 with | some v => (p.1, min p.2 v) | none => p))

def hasNegativeValue (r : ORes) : Bool :=
  match r with | none => false | some r => r.any (fun p => decide (p.2 < 0))

def componentWiseMax (l r : ORes) : Res :=
  match l, r with
  | some l, some r =>
    let out := l.foldl (fun (out : Res) p => out.set p.1 (max p.2 (r.getD p.1))) []
    r.foldl (fun (out : Res) p => out.set p.1 (max p.2 (l.getD p.1))) out
  | _, _ => []

end Yk
