/-
  C12 — restart recovery.  The core keeps no state: after a restart the shim replays what it knows and the core
  rebuilds every ledger from those SI messages.  This file models
    * the replay: registered nodes (`Core.nodeCreate`), applications (`appSub`: partition.AddApplication after the
      placement decision, incl. the task-group checks, which a force-created application skips), bound
      allocations (`recAlloc`: the "new allocation already assigned" branch of partition.UpdateAllocation —
      Queue.IncAllocatedResource without limit, Node.AddAllocation forced, Application.RecoverAllocationAsk +
      AddAllocation), foreign allocations (`Core.foreignAdd`), outstanding asks (`Core.ask`);
    * the snapshot the shim holds of a running core (`snapOf`), and
    * the totals recomputed from a snapshot (`Tot…`), the executable statement of the property.
  The queue tree of the restarted core (configured queues plus the queues its placement created) is an input: placement
  and queue creation are C17's subject.
-/
import YkModel.CoreOps
namespace Yk
open Res

/-- an application as the shim resubmits it, with the placement decision of the restarted core -/
structure RApp where
  id : String
  queue : String        -- the queue PlaceApplication chose ("" = no rule matched)
  user : String
  phAsk : Res           -- AddApplicationRequest.PlaceholderAsk
  fifo : Bool           -- Queue.SupportTaskGroup of that queue
  forced : Bool         -- the force-create tag: decides the placement, and AddApplication skips the task-group checks
  deriving Repr, DecidableEq

/-- a bound allocation (node set) or an outstanding ask (node ignored) -/
structure RAlloc where
  app : String
  key : String
  node : String
  res : Res
  ph : Bool
  tg : String
  reqNode : String
  deriving Repr, DecidableEq

inductive RItem where
  | node (id : String) (cap : Res) (sched : Bool)
  | app (a : RApp)
  | alloc (x : RAlloc)
  | foreign (key node : String) (res : Res)
  | ask (x : RAlloc)
  | undrain (id : String)
  deriving Repr, DecidableEq

namespace Core

/-- Queue.internalGetMax -/
def internalGetMax (qmax parentLimit : ORes) : ORes :=
  match parentLimit with
  | none => qmax
  | some p => match qmax with
    | none => some p
    | some m => componentWiseMin (some p) (some m)

/-- Queue.GetMaxQueueSet: the configured maxima on the path from below the root down to the queue (the dump lists
    parents before children) -/
def maxQueueSet (s : Core) (path : String) : ORes :=
  (s.queues.filter (fun q => q.parent.isSome && under path q.path)).foldl (fun acc q => internalGetMax q.max acc) none

/-- the task-group checks of partition.AddApplication: a gang request needs a FIFO leaf and must fit the configured maxima
    of the path.  A force-created application (recovered with its pods already running) skips them. -/
def gangFits (s : Core) (a : RApp) : Bool :=
  a.forced || isZero (some a.phAsk) ||
    (a.fifo && (match s.maxQueueSet a.queue with
                | none => true
                | some m => fitInMaxUndef (some m) (some a.phAsk)))

/-- the application object partition.AddApplication stores: state New, nothing asked, nothing allocated -/
def newApp (a : RApp) : CApp :=
  { id := a.id, live := true, queue := a.queue, state := "New", user := a.user, pending := [], allocated := [],
    allocatedPh := [], phAsk := a.phAsk, items := [], reservations := [], phData := [], log := [] }

/-- partition.AddApplication accepts: the id is new, the queue the placement chose exists (or could be created) and is a
    leaf, the task-group checks pass (skipped for a forced application).  Quotas and application limits are not looked at. -/
def appAddOK (s : Core) (a : RApp) : Bool :=
  !(s.findApp a.id).isSome && (match s.findQueue a.queue with | none => false | some q => q.leaf) && s.gangFits a

/-- partition.AddApplication for the queue the placement chose -/
def appSub (s : Core) (a : RApp) : Core × Bool :=
  if s.appAddOK a then
    ({ s with apps := s.apps ++ [newApp a],
              queues := s.queues.map (fun q => if q.path == a.queue then { q with apps := q.apps ++ [a.id] } else q) }, true)
  else (s, false)

/-- the entry of application.requests / allocations for a recovered allocation -/
def recItem (x : RAlloc) : CItem :=
  { key := x.key, res := x.res, ph := x.ph, tg := x.tg, allocated := true, node := x.node, bound := true,
    inReq := true, released := false, preempted := false, release := none, reqNode := x.reqNode }

/-- placeholder data after addPlaceholderData -/
def recPhData (x : RAlloc) (a : CApp) : List (String × Nat × Nat × Nat) :=
  if x.ph then
    (if a.phData.any (·.1 == x.tg) then a.phData.map (fun d => if d.1 == x.tg then (d.1, d.2.1 + 1, d.2.2.1, d.2.2.2) else d)
     else a.phData ++ [(x.tg, 1, 0, 0)])
  else a.phData

/-- state and state log after RecoverAllocationAsk (New → Accepted) and AddAllocation (a real allocation runs the
    application; a placeholder does once all requested placeholders are allocated) -/
def recState (x : RAlloc) (a : CApp) : String × List String :=
  let st1 := if a.state == "New" then fireState a.state .run else a.state
  let st2 := if x.ph then
      (if equals (some (addX a.allocatedPh x.res)) (some a.phAsk) false then fireState st1 .run else st1)
    else fireState st1 .run
  (st2, (if st1 != a.state then a.log ++ [st1] else a.log) ++ (if st2 != st1 then [st2] else []))

/-- the application after RecoverAllocationAsk + AddAllocation of a recovered allocation -/
def recApp (x : RAlloc) (a : CApp) : CApp :=
  { a with items := a.items ++ [recItem x], phData := recPhData x a,
           allocated := if x.ph then a.allocated else addX a.allocated x.res,
           allocatedPh := if x.ph then addX a.allocatedPh x.res else a.allocatedPh,
           state := (recState x a).1, log := (recState x a).2 }

/-- the checks of partition.UpdateAllocation before the branch "new allocation already assigned": the node is registered,
    the resource is not zero and not negative, the key is new for the application.  No quota, no capacity. -/
def recAllocOK (s : Core) (a : CApp) (x : RAlloc) : Bool :=
  (s.findNode x.node).isSome && !(isZero (some x.res)) && strictlyGreaterThanZero (some x.res) &&
    !(a.items.any (·.key == x.key))     -- a known key is an update, not a recovery (keys of a replay are fresh)

/-- the branch itself, for application `a` -/
def recAllocDo (s : Core) (a : CApp) (x : RAlloc) : Core :=
  -- queue.IncAllocatedResource: every queue on the path, no limit
  let s1 := updQueues s (pathChain s a.queue) (fun q => { q with allocated := addX q.allocated x.res })
  -- node.AddAllocation (forced)
  let s2 := updNode s1 x.node (fun n => { n with
    allocs := n.allocs ++ [{ key := x.key, app := x.app, res := x.res, foreign := false, ph := x.ph }],
    allocated := addX n.allocated x.res, available := prune (subX n.available x.res) })
  -- app.RecoverAllocationAsk + app.AddAllocation
  let s3 := updApp s2 x.app (recApp x)
  { s3 with allocations := s3.allocations + 1, phAllocations := if x.ph then s3.phAllocations + 1 else s3.phAllocations }

/-- partition.UpdateAllocation for an allocation the shim reports as bound -/
def recAlloc (s : Core) (x : RAlloc) : Core × Bool :=
  match s.findApp x.app with
  | none => (s, false)
  | some a => if s.recAllocOK a x then (s.recAllocDo a x, true) else (s, false)

/-- the resource-change block of partition.UpdateAllocation for an OUTSTANDING ask (Application.UpdateAllocationResources,
    branch "update pending resources"): the ask takes the new size, application and queue pending move by the delta.
    Nothing is booked on any node: a pending ask has none. -/
def resizePending (s : Core) (a : CApp) (i : CItem) (res : Res) : Core :=
  let delta := prune (subX res i.res)
  if isZero (some delta) || isZero (some res) then s else
  let s1 := updApp s a.id (fun a => { a with
    items := a.items.map (fun y => if y.key == i.key then { y with res := res } else y),
    pending := prune (addX a.pending delta) })
  updQueues s1 (pathChain s a.queue) (fun q => { q with pending := addX q.pending delta })

/-- the branch "transitioning from requested to allocated" of partition.UpdateAllocation for the size the application
    holds: Application.AllocateAsk (pending moves), Queue.IncAllocatedResource without limit, Node.AddAllocation forced
    with the application's own object, Application.AddAllocation.  The ledger effect of `Core.schedAlloc` without its
    capacity and quota checks. -/
def bindHeld (s : Core) (x : RAlloc) : Core × Bool :=
  match s.findApp x.app, s.findNode x.node with
  | some a, some _ =>
    match a.items.find? (fun i => i.key == x.key && i.inReq && !i.allocated) with
    | none => (s, false)
    | some i =>
      let s1 := updNode s x.node (fun n => { n with
        allocs := n.allocs ++ [{ key := x.key, app := x.app, res := i.res, foreign := false, ph := i.ph }],
        allocated := addX n.allocated i.res, available := prune (subX n.available i.res) })
      let s2 := updQueues s1 (pathChain s a.queue) (fun q => { q with allocated := addX q.allocated i.res, pending := decPendingRes q.pending i.res })
      let s3 := updApp s2 x.app (fun a =>
        let items := a.items.map (fun y => if y.key == x.key then { y with allocated := true, bound := true, node := x.node } else y)
        let pending := prune (subX a.pending i.res)
        if i.ph then
          let aph := addX a.allocatedPh i.res
          let st := if equals (some aph) (some a.phAsk) false then fireState a.state .run else a.state
          { a with items := items, pending := pending, allocatedPh := aph, state := st,
                   log := if st != a.state then a.log ++ [st] else a.log }
        else
          let st := fireState a.state .run
          { a with items := items, pending := pending, allocated := addX a.allocated i.res, state := st,
                   log := if st != a.state then a.log ++ [st] else a.log })
      ({ s3 with allocations := s3.allocations + 1, phAllocations := if i.ph then s3.phAllocations + 1 else s3.phAllocations }, true)
  | _, _ => (s, false)

/-- partition.UpdateAllocation for a key the application knows as an outstanding ask and the shim now reports as bound,
    possibly with another size: first the resource change of the pending ask (`resizePending`), then the transition with
    the new size (`bindHeld`). -/
def recBind (s : Core) (x : RAlloc) : Core × Bool :=
  match s.findApp x.app, s.findNode x.node with
  | some a, some _ =>
    match a.items.find? (fun i => i.key == x.key && i.inReq && !i.allocated) with
    | none => (s, false)
    | some i =>
      if isZero (some x.res) || !(strictlyGreaterThanZero (some x.res)) then (s, false)
      else (s.resizePending a i x.res).bindHeld x
  | _, _ => (s, false)

/-- partition.UpdateAllocation for an allocation reported with its node: the recovery branch for a key the application
    does not know, the transition branch for a key it holds as an outstanding ask -/
def recPlaced (s : Core) (x : RAlloc) : Core × Bool :=
  match s.findApp x.app with
  | none => (s, false)
  | some a => if a.items.any (·.key == x.key) then s.recBind x else s.recAlloc x

/-- handleForeignAllocation for a new key: accepted iff the node is registered -/
def recForeign (s : Core) (key node : String) (res : Res) : Core × Bool :=
  if s.foreign.contains key then (s, false) else
  match s.findNode node with
  | none => (s, false)
  | some _ => (s.foreignAdd key node res, true)

/-- a new request of a replay: `Core.ask` for a key the application does not know -/
def recAsk (s : Core) (x : RAlloc) : Core × Bool :=
  match s.findApp x.app with
  | none => (s, false)
  | some a => if a.items.any (·.key == x.key) then (s, false) else s.ask x.app x.key x.res x.ph x.tg x.reqNode

def recNode (s : Core) (id : String) (cap : Res) (sched : Bool) : Core × Bool :=
  if (s.findNode id).isSome then (s, false) else (s.nodeCreate id cap sched, true)

/-- one replayed item: the new state and whether the core accepted it -/
def rstep (s : Core) : RItem → Core × Bool
  | .node id cap sched => s.recNode id cap sched
  | .app a => s.appSub a
  | .alloc x => s.recAlloc x
  | .foreign key node res => s.recForeign key node res
  | .ask x => s.recAsk x
  | .undrain id => (s.nodeSchedulable id true, true)

/-- the whole replay: final state and the items the core accepted, in order -/
def replay (s : Core) : List RItem → Core × List RItem
  | [] => (s, [])
  | it :: rest =>
    let r := s.rstep it
    let t := replay r.1 rest
    (t.1, if r.2 then it :: t.2 else t.2)

/-- the restarted core before the replay: the queue tree, nothing else -/
def fresh (queues : List CQueue) : Core :=
  { nodes := [], queues := queues.map (fun q => { q with allocated := [], pending := [], preempting := [], running := 0, allocating := [],
                                                         apps := [], reserved := [] }),
    apps := [], total := [], allocations := 0, phAllocations := 0, reservations := 0, foreign := [], users := [], groups := [] }

/-! ### the totals recomputed from a list of (accepted) replay items — the statement of the property -/

def allocsOf (items : List RItem) : List RAlloc := items.filterMap (fun | .alloc x => some x | _ => none)
def asksOf (items : List RItem) : List RAlloc := items.filterMap (fun | .ask x => some x | _ => none)
def appsOf (items : List RItem) : List RApp := items.filterMap (fun | .app a => some a | _ => none)
def foreignOf (items : List RItem) : List (String × String × Res) :=
  items.filterMap (fun | .foreign k n r => some (k, n, r) | _ => none)

/-- queue / user of an application according to the replayed submissions -/
def queueOfApp (items : List RItem) (app : String) : String := (((appsOf items).find? (·.id == app)).map (·.queue)).getD ""
def userOfApp (items : List RItem) (app : String) : String := (((appsOf items).find? (·.id == app)).map (·.user)).getD ""

def totAppAllocated (items : List RItem) (app : String) : Res :=
  sumRes (((allocsOf items).filter (fun x => x.app == app && !x.ph)).map (·.res))
def totAppPlaceholder (items : List RItem) (app : String) : Res :=
  sumRes (((allocsOf items).filter (fun x => x.app == app && x.ph)).map (·.res))
def totAppPending (items : List RItem) (app : String) : Res :=
  sumRes (((asksOf items).filter (fun x => x.app == app)).map (·.res))
def totNodeAllocated (items : List RItem) (node : String) : Res :=
  sumRes (((allocsOf items).filter (fun x => x.node == node)).map (·.res))
def totNodeOccupied (items : List RItem) (node : String) : Res :=
  sumRes (((foreignOf items).filter (fun f => f.2.1 == node)).map (·.2.2))
def totQueueAllocated (items : List RItem) (path : String) : Res :=
  sumRes (((allocsOf items).filter (fun x => under (queueOfApp items x.app) path)).map (·.res))
def totQueuePending (items : List RItem) (path : String) : Res :=
  sumRes (((asksOf items).filter (fun x => under (queueOfApp items x.app) path)).map (·.res))
def totUserAllocated (items : List RItem) (user path : String) : Res :=
  sumRes (((allocsOf items).filter (fun x => userOfApp items x.app == user && under (queueOfApp items x.app) path)).map (·.res))

/-- The property on a state `b` reached by replaying `acc` (the accepted items): every per-object total of `b` is the
    total recomputed from `acc`.  Returns the first offender. -/
def totalsOK (b : Core) (acc : List RItem) : Option String :=
  (b.liveApps.findSome? (fun a =>
    if !sparseEq a.allocated (totAppAllocated acc a.id) then some s!"app-allocated {a.id}"
    else if !sparseEq a.allocatedPh (totAppPlaceholder acc a.id) then some s!"app-placeholder {a.id}"
    else if !sparseEq a.pending (totAppPending acc a.id) then some s!"app-pending {a.id}"
    else none)).orElse fun _ =>
  (b.nodes.findSome? (fun n =>
    if !sparseEq n.allocated (totNodeAllocated acc n.id) then some s!"node-allocated {n.id}"
    else if !sparseEq n.occupied (totNodeOccupied acc n.id) then some s!"node-occupied {n.id}"
    else none)).orElse fun _ =>
  (b.queues.findSome? (fun q =>
    if !sparseEq q.allocated (totQueueAllocated acc q.path) then some s!"queue-allocated {q.path}"
    else if !sparseEq q.pending (totQueuePending acc q.path) then some s!"queue-pending {q.path}"
    else none)).orElse fun _ =>
  ((appsOf acc).findSome? (fun a =>
    let want := totUserAllocated acc a.user a.queue
    match (b.users.lookup a.user).bind (fun es => es.find? (·.path == a.queue)) with
    | some e => if sparseEq e.usage want then none else some s!"user-usage {a.user}@{a.queue}"
    | none => if isZero (some want) then none else some s!"user-usage-untracked {a.user}@{a.queue}"))

/-! ### what the shim holds of a running core -/

/-- bound allocations of the live applications -/
def snapAllocs (a : Core) : List RAlloc :=
  (a.liveApps.map (fun ap => (ap.items.filter (·.bound)).map (fun i =>
    ({ app := ap.id, key := i.key, node := i.node, res := i.res, ph := i.ph, tg := i.tg, reqNode := i.reqNode } : RAlloc)))).flatten

/-- outstanding asks from the shim's point of view: the asks the core has not allocated, and the real halves of
    placeholder replacements in flight (the core has chosen a node, the shim has not been told) -/
def snapAsks (a : Core) : List RAlloc :=
  (a.liveApps.map (fun ap => (ap.items.filter (fun i => !i.bound && i.inReq && (!i.allocated || i.inflightReal))).map (fun i =>
    ({ app := ap.id, key := i.key, node := "", res := i.res, ph := i.ph, tg := i.tg, reqNode := i.reqNode } : RAlloc)))).flatten

def snapForeign (a : Core) : List (String × String × Res) :=
  (a.nodes.map (fun n => (n.allocs.filter (·.foreign)).map (fun x => (x.key, n.id, x.res)))).flatten

/-- Σ of the in-flight real halves of an application: counted as allocated by the old core, outstanding for the shim -/
def inflightOfApp (ap : CApp) : Res := sumRes ((ap.items.filter (fun i => i.inReq && i.inflightReal)).map (·.res))

/-- Σ of the in-flight real halves the old core has already put on node `n` (replacement on another node) -/
def inflightOnNode (a : Core) (n : CNode) : Res :=
  sumRes ((n.allocs.filter (fun na => !na.foreign && a.liveApps.any (fun ap => ap.id == na.app &&
            ap.items.any (fun i => i.key == na.key && i.inflightReal)))).map (·.res))

end Core
end Yk

/-! ### old core against new core, object by object (evaluated by the driver on the two dumps) -/

namespace Yk
open Res
namespace Core

private def viewSig (x : RAlloc) (bound : Bool) : String × String :=
  (x.key, s!"{x.app}/{bound}/{if bound then x.node else ""}/{showR (prune x.res)}/ph={x.ph}")

/-- the shim's snapshot `acc` holds for application `id` exactly what the old core `a` holds -/
def sameAppView (a : Core) (acc : List RItem) (id : String) : Bool :=
  sortByKey (((snapAllocs a).filter (·.app == id)).map (viewSig · true) ++ ((snapAsks a).filter (·.app == id)).map (viewSig · false)) ==
  sortByKey (((allocsOf acc).filter (·.app == id)).map (viewSig · true) ++ ((asksOf acc).filter (·.app == id)).map (viewSig · false))

/-- … and for node `id` (bound allocations and foreign pods) -/
def sameNodeView (a : Core) (acc : List RItem) (id : String) : Bool :=
  sortByKey (((snapAllocs a).filter (·.node == id)).map (fun x => (x.key, showR (prune x.res))) ++
             ((snapForeign a).filter (·.2.1 == id)).map (fun f => (f.1, "f" ++ showR (prune f.2.2)))) ==
  sortByKey (((allocsOf acc).filter (·.node == id)).map (fun x => (x.key, showR (prune x.res))) ++
             ((foreignOf acc).filter (·.2.1 == id)).map (fun f => (f.1, "f" ++ showR (prune f.2.2))))

/-- the applications at or below `path` are the same on both sides, in the same place, and the shim holds exactly what
    the old core holds for each of them (an application without asks and allocations counts for nothing) -/
def sameAppsUnder (a b : Core) (acc : List RItem) (path : String) (onlyUser : Option String) : Bool :=
  let sel (ap : CApp) := under ap.queue path && (match onlyUser with | none => true | some u => ap.user == u)
  (a.liveApps.filter sel).all (fun ap => sameAppView a acc ap.id &&
      (ap.items.isEmpty || b.liveApps.any (fun bp => bp.id == ap.id && sel bp))) &&
  (b.liveApps.filter sel).all (fun bp => sameAppView a acc bp.id &&
      (bp.items.isEmpty || a.liveApps.any (fun ap => ap.id == bp.id && sel ap)))

/-- Σ in-flight real halves of the applications at or below `path` -/
def inflightUnder (a : Core) (path : String) : Res :=
  sumRes ((a.liveApps.filter (fun ap => under ap.queue path)).map inflightOfApp)

/-- Old core `a` against restarted core `b` (which accepted `acc`): for every node, application, queue and user/queue
    pair that exists in both and for which the shim held exactly what the old core held, allocated and pending totals
    agree — up to the placeholder replacements in flight, which the old core counts as allocated (on the node it chose)
    and the shim as outstanding.  Returns the first offender. -/
def agreeOK (a b : Core) (acc : List RItem) : Option String :=
  (a.liveApps.findSome? (fun ap => match b.findApp ap.id with
    | none => none
    | some bp =>
      if !sameAppView a acc ap.id then none
      else if !sparseEq ap.allocated bp.allocated then some s!"app-allocated {ap.id}"
      else if !sparseEq ap.allocatedPh bp.allocatedPh then some s!"app-placeholder {ap.id}"
      else if !sparseEq (addX ap.pending (inflightOfApp ap)) bp.pending then some s!"app-pending {ap.id}"
      else none)).orElse fun _ =>
  (a.nodes.findSome? (fun n => match b.findNode n.id with
    | none => none
    | some m =>
      if !sameNodeView a acc n.id then none
      else if !sparseEq n.total m.total then some s!"node-capacity {n.id}"
      else if !sparseEq n.allocated (addX m.allocated (inflightOnNode a n)) then some s!"node-allocated {n.id}"
      else if !sparseEq n.occupied m.occupied then some s!"node-occupied {n.id}"
      else none)).orElse fun _ =>
  (a.queues.findSome? (fun q => match b.findQueue q.path with
    | none => none
    | some r =>
      if !sameAppsUnder a b acc q.path none then none
      else if !sparseEq q.allocated r.allocated then some s!"queue-allocated {q.path}"
      else if !sparseEq (addX q.pending (inflightUnder a q.path)) r.pending then some s!"queue-pending {q.path}"
      else none)).orElse fun _ =>
  (a.users.findSome? (fun u => u.2.findSome? (fun e =>
    match (b.users.lookup u.1).bind (fun es => es.find? (·.path == e.path)) with
    | none => none
    | some f =>
      if !sameAppsUnder a b acc e.path (some u.1) then none
      else if !sparseEq e.usage f.usage then some s!"user-usage {u.1}@{e.path}"
      else none)))

/-- somewhere the shim's snapshot and the old core disagree (diagnostics) -/
def viewDiffers (a : Core) (acc : List RItem) : Bool :=
  a.liveApps.any (fun ap => !sameAppView a acc ap.id) || a.nodes.any (fun n => !sameNodeView a acc n.id)

end Core
end Yk
