/-
  Model of pkg/scheduler/ugm: queue_tracker.go, user_tracker.go, group_tracker.go, manager.go (C05).

  A queue-tracker tree is a flat association list `queue path ↦ Node` (a path is the list of queue names from the
  root, `["root","a","b"]`); the children of `p` are the entries `p ++ [c]`.  Every operation of QueueTracker walks one
  hierarchy from the root, so the walk becomes a fold over the non-empty prefixes of the hierarchy.  Go maps are
  association lists with unique keys; iteration is in list order (the harness re-runs every case to detect a
  dependence on Go's random map order).  Arithmetic is exact (no quantity saturates; C18 owns saturation).
  Hierarchies start with "root" (the manager is only ever called with paths below the root queue).
  Core Lean only; every definition is structurally recursive and executable: the driver runs them against the real
  manager and the property file evaluates them with `decide`.
-/
import YkModel.Res
namespace Yk.Ugm
open Yk Yk.Res

abbrev Path := List String

/-! ### Go maps -/

def aget {α β} [DecidableEq α] : List (α × β) → α → Option β
  | [], _ => none
  | (k', v) :: t, k => if k' = k then some v else aget t k

/-- `m[k] = v` -/
def aset {α β} [DecidableEq α] : List (α × β) → α → β → List (α × β)
  | [], k, v => [(k, v)]
  | (k', v') :: t, k, v => if k' = k then (k', v) :: t else (k', v') :: aset t k v

/-- `delete(m, k)` -/
def adel {α β} [DecidableEq α] : List (α × β) → α → List (α × β)
  | [], _ => []
  | (k', v') :: t, k => if k' = k then adel t k else (k', v') :: adel t k

/-- update the value stored under `k`, if any -/
def amod {α β} [DecidableEq α] : List (α × β) → α → (β → β) → List (α × β)
  | [], _, _ => []
  | (k', v') :: t, k, f => if k' = k then (k', f v') :: t else (k', v') :: amod t k f

def ahas {α β} [DecidableEq α] (l : List (α × β)) (k : α) : Bool := (aget l k).isSome

/-- two-level map `m[p][u]` -/
def aget2 {α β γ} [DecidableEq α] [DecidableEq β] (l : List (α × List (β × γ))) (p : α) (u : β) : Option γ :=
  match aget l p with | some m => aget m u | none => none

def aset2 {α β γ} [DecidableEq α] [DecidableEq β] (l : List (α × List (β × γ))) (p : α) (u : β) (v : γ) : List (α × List (β × γ)) :=
  aset l p (aset ((aget l p).getD []) u v)

/-! ### LimitConfig, QueueTracker -/

/-- LimitConfig -/
structure Limit where
  maxRes : ORes
  maxApps : Nat
  deriving DecidableEq, Repr

/-- one QueueTracker (without its children map: the children of `p` are the entries `p ++ [c]` of the tree) -/
structure Node where
  usage : ORes := none          -- resourceUsage (nil until the first increase)
  apps : List String := []      -- runningApplications
  maxRes : ORes := none         -- maxResources
  maxApps : Nat := 0            -- maxRunningApps
  wild : Bool := false          -- useWildCard
  deriving DecidableEq, Repr

abbrev Tree := List (Path × Node)

/-- newQueueTracker: a user's tracker for a queue with a wildcard limit in the ACTIVE configuration starts with it -/
def newNode (wild : List (Path × Limit)) (isUser : Bool) (p : Path) : Node :=
  if isUser then
    match aget wild p with
    | some l => { maxRes := l.maxRes, maxApps := l.maxApps, wild := true }
    | none => {}
  else {}

/-- the non-empty prefixes of a hierarchy, root first: the queue trackers a walk visits -/
def prefixesFrom (pre : Path) : List String → List Path
  | [] => []
  | c :: rest => (pre ++ [c]) :: prefixesFrom (pre ++ [c]) rest

def prefixes (h : Path) : List Path := prefixesFrom [] h

def rootPath : Path := ["root"]

/-- newRootQueueTracker -/
def newTree (wild : List (Path × Limit)) (isUser : Bool) : Tree := [(rootPath, newNode wild isUser rootPath)]

/-- "create if not exists" on the way down -/
def ensurePath (wild : List (Path × Limit)) (isUser : Bool) (t : Tree) (h : Path) : Tree :=
  (prefixes h).foldl (fun t p => if ahas t p then t else t ++ [(p, newNode wild isUser p)]) t

def incNode (app : String) (r : Res) (n : Node) : Node :=
  { n with usage := some (prune (addX (n.usage.getD []) r)), apps := if n.apps.contains app then n.apps else n.apps ++ [app] }

/-- QueueTracker.increaseTrackedResource -/
def increase (wild : List (Path × Limit)) (isUser : Bool) (t : Tree) (h : Path) (app : String) (r : Res) : Tree :=
  (prefixes h).foldl (fun t p => amod t p (incNode app r)) (ensurePath wild isUser t h)

/-- `len(qt.childQueueTrackers) != 0` -/
def hasChild (t : Tree) (p : Path) : Bool := t.any (fun e => e.1.length == p.length + 1 && e.1.dropLast == p)

/-- the removal test shared by decreaseTrackedResource and canBeRemovedInternal -/
def removable (t : Tree) (p : Path) (n : Node) : Bool :=
  !hasChild t p && n.apps.isEmpty && isZero n.usage && n.maxApps == 0 && isZero n.maxRes

def decNode (app : String) (r : Res) (rm : Bool) (n : Node) : Node :=
  { n with usage := n.usage.map (fun u => prune (subX u r)), apps := if rm then n.apps.filter (· != app) else n.apps }

/-- the part of decreaseTrackedResource after the recursion: subtract, drop the application, report "remove me" -/
def decFinish (app : String) (r : Res) (rm : Bool) (cur : Path) (t : Tree) : Tree × Bool :=
  let t' := amod t cur (decNode app r rm)
  (t', match aget t' cur with | some n => removable t' cur n | none => false)

/-- QueueTracker.decreaseTrackedResource at tracker `cur` with the remaining hierarchy `rest` below it: a missing child
    makes this level return early (nothing subtracted here), the levels above still subtract -/
def decGo (app : String) (r : Res) (rm : Bool) : Path → List String → Tree → Tree × Bool
  | cur, [], t => decFinish app r rm cur t
  | cur, c :: rest, t =>
    if ahas t (cur ++ [c]) then
      let res := decGo app r rm (cur ++ [c]) rest t
      decFinish app r rm cur (if res.2 then adel res.1 (cur ++ [c]) else res.1)
    else (t, false)

def decrease (t : Tree) (h : Path) (app : String) (r : Res) (rm : Bool) : Tree × Bool :=
  match h with
  | [] => (t, false)
  | r0 :: rest => decGo app r rm [r0] rest t

/-- QueueTracker.setLimit -/
def setLimit (wild : List (Path × Limit)) (isUser : Bool) (t : Tree) (h : Path) (maxRes : ORes) (maxApps : Nat)
    (useWild doWildCardCheck : Bool) : Tree :=
  amod (ensurePath wild isUser t h) h (fun n =>
    if doWildCardCheck && !n.wild then n else { n with maxRes := maxRes, maxApps := maxApps, wild := useWild })

/-- SubOnlyExisting with exact arithmetic -/
def subOnlyExistingX (base delta : ORes) : ORes :=
  match base, delta with
  | some b, some d => some (b.map (fun p => (p.1, p.2 - d.getD p.1)))
  | b, _ => b

def nodeHeadroom (n : Node) : ORes := if isZero n.maxRes then none else subOnlyExistingX n.maxRes n.usage

/-- the headroom of the walk: from the leaf upwards, every tracker with a maximum takes the component-wise minimum -/
def headroomStep (t : Tree) (p : Path) (child : ORes) : ORes :=
  match aget t p with
  | some n => (match nodeHeadroom n with | none => child | some hr => componentWiseMin (some hr) child)
  | none => child

def headroomOf (t : Tree) (h : Path) : ORes := (prefixes h).foldr (headroomStep t) none

/-- QueueTracker.headroom: not read-only, creates the trackers on the way down -/
def headroom (wild : List (Path × Limit)) (isUser : Bool) (t : Tree) (h : Path) : Tree × ORes :=
  (ensurePath wild isUser t h, headroomOf (ensurePath wild isUser t h) h)

def nodeCanRun (app : String) (n : Node) : Bool :=
  n.apps.contains app || n.maxApps == 0 || decide (n.apps.length + 1 ≤ n.maxApps)

def canRunOf (t : Tree) (h : Path) (app : String) : Bool :=
  (prefixes h).all (fun p => match aget t p with | some n => nodeCanRun app n | none => true)

/-- QueueTracker.canRunApp: not read-only either -/
def canRunApp (wild : List (Path × Limit)) (isUser : Bool) (t : Tree) (h : Path) (app : String) : Tree × Bool :=
  (ensurePath wild isUser t h, canRunOf (ensurePath wild isUser t h) h app)

/-- isQueuePathTrackedCompletely -/
def tracked (t : Tree) (h : Path) : Bool := !h.isEmpty && (prefixes h).all (fun p => ahas t p)

/-- isUnlinkRequired -/
def unlinkRequired (t : Tree) (h : Path) : Bool :=
  tracked t h && (match aget t h with | some n => n.apps.isEmpty | none => false)

def subtreeNoApps (t : Tree) (p : Path) : Bool := t.all (fun e => !(p.isPrefixOf e.1) || e.2.apps.isEmpty)

/-- QueueTracker.unlink for a completely tracked hierarchy: below the end queue every tracker that runs nothing and
    keeps no child is deleted bottom-up (whatever limits it carries), then the end queue itself is detached from its
    parent when it runs nothing and has no child left; the ancestors stay -/
def unlink (t : Tree) (h : Path) : Tree :=
  let t1 := t.filter (fun e => !(h.isPrefixOf e.1 && decide (h.length < e.1.length) && subtreeNoApps t e.1))
  if decide (1 < h.length) && (match aget t1 h with | some n => n.apps.isEmpty && !hasChild t1 h | none => false)
  then adel t1 h else t1

def active (n : Node) : Bool := !n.apps.isEmpty && !isZero n.usage
def resetNode (n : Node) : Node := if active n then { n with usage := none, apps := [] } else n

/-- every tracker strictly below `h` on the way to `d` has applications and usage (the recursion of
    decreaseTrackedResourceUsageDownwards only enters such children) -/
def activeChain (t : Tree) (h d : Path) : Bool :=
  ((prefixes d).filter (fun p => decide (h.length < p.length))).all (fun p =>
    match aget t p with | some n => active n | none => false)

/-- QueueTracker.decreaseTrackedResourceUsageDownwards for a completely tracked hierarchy: usage and applications are
    dropped on the end queue, on the children reached through trackers that have both, and on EVERY ancestor up to the
    root (each only when it has applications and usage); returns the applications of the end queue -/
def decreaseDownwards (t : Tree) (h : Path) : Tree × List String :=
  (t.map (fun e =>
      if e.1.isPrefixOf h then (e.1, resetNode e.2)
      else if h.isPrefixOf e.1 && activeChain t h e.1 then (e.1, resetNode e.2) else e),
   match aget t h with | some n => n.apps | none => [])

/-- QueueTracker.canBeRemoved (the root tracker needs an empty children map itself) -/
def canBeRemoved (t : Tree) : Bool :=
  match aget t rootPath with | some n => removable t rootPath n | none => true

/-! ### trackers and the manager -/

structure UT where
  qt : Tree
  appGroups : List (String × Option String) := []   -- appGroupTrackers: none = resolved to "no group"
  deriving DecidableEq, Repr

structure GT where
  qt : Tree
  apps : List (String × String) := []               -- applications: app ↦ user
  deriving DecidableEq, Repr

structure Mgr where
  users : List (String × UT) := []
  groups : List (String × GT) := []
  userWild : List (Path × Limit) := []               -- userWildCardLimitsConfig
  groupWild : List (Path × Limit) := []              -- groupWildCardLimitsConfig
  confGroups : List (Path × List String) := []       -- configuredGroups
  userLimits : List (Path × List (String × Limit)) := []
  groupLimits : List (Path × List (String × Limit)) := []
  deriving DecidableEq, Repr

def newUT (m : Mgr) : UT := { qt := newTree m.userWild true }
def newGT : GT := { qt := newTree [] false }

/-- getUserTracker: creates the tracker when missing -/
def ensureUser (m : Mgr) (u : String) : Mgr :=
  if ahas m.users u then m else { m with users := m.users ++ [(u, newUT m)] }

def updUser (m : Mgr) (u : String) (f : UT → UT) : Mgr := { m with users := amod m.users u f }
def updGroup (m : Mgr) (g : String) (f : GT → GT) : Mgr := { m with groups := amod m.groups g f }

/-- ensureGroupInternal: first configured group (configuration order) of the queue that the user belongs to, else the
    group wildcard of the queue, else the same question for the parent queue -/
def ensureGroupAux (m : Mgr) (ugs : List String) : Nat → Path → String
  | 0, _ => ""
  | n + 1, p =>
    match ((aget m.confGroups p).getD []).find? (fun cg => ugs.contains cg) with
    | some g => g
    | none =>
      if ahas m.groupWild p then "*"
      else if p.length ≤ 1 then "" else ensureGroupAux m ugs n p.dropLast

def ensureGroup (m : Mgr) (ugs : List String) (q : Path) : String :=
  if ugs.isEmpty then "" else ensureGroupAux m ugs q.length q

def hasGroupForApp (m : Mgr) (u app : String) : Bool :=
  match aget m.users u with | some ut => ahas ut.appGroups app | none => false

/-- getGroupForApp: "" when the application resolved to no group or is not known -/
def groupForApp (m : Mgr) (u app : String) : String :=
  match aget m.users u with
  | some ut => (match aget ut.appGroups app with | some (some g) => g | _ => "")
  | none => ""

/-- ensureGroupTrackerForApp -/
def ensureGroupTrackerForApp (m : Mgr) (q : Path) (app u : String) (ugs : List String) : Mgr :=
  if hasGroupForApp m u app then m else
  let g := ensureGroup m ugs q
  let m1 := if g != "" && !ahas m.groups g then { m with groups := m.groups ++ [(g, newGT)] } else m
  updUser m1 u (fun ut => { ut with appGroups := aset ut.appGroups app (if g == "" then none else some g) })

/-- Manager.IncreaseTrackedResource -/
def increaseM (m : Mgr) (q : Path) (app : String) (r : Res) (u : String) (ugs : List String) : Mgr :=
  if q.isEmpty || app == "" || u == "" then m else
  let m1 := ensureUser m u
  let m2 := if hasGroupForApp m1 u app then m1 else ensureGroupTrackerForApp m1 q app u ugs
  let m3 := updUser m2 u (fun ut => { ut with qt := increase m2.userWild true ut.qt q app r })
  let g := groupForApp m3 u app
  if g == "" then m3 else
  updGroup m3 g (fun gt => { qt := increase [] false gt.qt q app r, apps := aset gt.apps app u })

/-- Manager.DecreaseTrackedResource -/
def decreaseM (m : Mgr) (q : Path) (app : String) (r : Res) (u : String) (rm : Bool) : Mgr :=
  if q.isEmpty || app == "" || u == "" then m else
  match aget m.users u with
  | none => m
  | some ut =>
    let g := groupForApp m u app
    let d := decrease ut.qt q app r rm
    let ut' : UT := { qt := d.1, appGroups := if rm then adel ut.appGroups app else ut.appGroups }
    let m1 : Mgr := if d.2 then { m with users := adel m.users u } else { m with users := aset m.users u ut' }
    if g == "" then m1 else
    match aget m1.groups g with
    | none => m1
    | some gt =>
      let dg := decrease gt.qt q app r rm
      let gt' : GT := { qt := dg.1, apps := if rm then adel gt.apps app else gt.apps }
      if dg.2 then { m1 with groups := adel m1.groups g } else { m1 with groups := aset m1.groups g gt' }

/-- Manager.Headroom -/
def headroomM (m : Mgr) (q : Path) (app u : String) (ugs : List String) : Mgr × ORes :=
  let m1 := ensureUser m u
  let uh : ORes := match aget m1.users u with | some ut => (headroom m1.userWild true ut.qt q).2 | none => none
  let m2 := updUser m1 u (fun ut => { ut with qt := (headroom m1.userWild true ut.qt q).1 })
  let m3 := if hasGroupForApp m2 u app then m2 else ensureGroupTrackerForApp m2 q app u ugs
  let g := groupForApp m3 u app
  if g == "" then (m3, uh) else
  match aget m3.groups g with
  | none => (m3, uh)
  | some gt => (updGroup m3 g (fun gt => { gt with qt := (headroom [] false gt.qt q).1 }),
                componentWiseMin uh (headroom [] false gt.qt q).2)

/-- Manager.CanRunApp -/
def canRunM (m : Mgr) (q : Path) (app u : String) (ugs : List String) : Mgr × Bool :=
  let m1 := ensureUser m u
  let uc : Bool := match aget m1.users u with | some ut => (canRunApp m1.userWild true ut.qt q app).2 | none => true
  let m2 := updUser m1 u (fun ut => { ut with qt := (canRunApp m1.userWild true ut.qt q app).1 })
  let m3 := if hasGroupForApp m2 u app then m2 else ensureGroupTrackerForApp m2 q app u ugs
  let g := groupForApp m3 u app
  if g == "" then (m3, uc) else
  match aget m3.groups g with
  | none => (m3, uc)
  | some gt => (updGroup m3 g (fun gt => { gt with qt := (canRunApp [] false gt.qt q app).1 }),
                uc && (canRunApp [] false gt.qt q app).2)

/-! ### Manager.UpdateConfig -/

/-- one `limits:` entry of a queue (MaxResources already parsed: NewResourceFromConf never returns nil) -/
structure LimitEntry where
  users : List String
  groups : List String
  maxRes : ORes
  maxApps : Nat
  deriving DecidableEq, Repr

/-- a queue configuration tree flattened in the order internalProcessConfig visits it (queue, then its children) -/
abbrev Cfg := List (Path × List LimitEntry)

/-- the temporary maps UpdateConfig fills while parsing -/
structure NewCfg where
  userLimits : List (Path × List (String × Limit)) := []
  groupLimits : List (Path × List (String × Limit)) := []
  userWild : List (Path × Limit) := []
  groupWild : List (Path × Limit) := []
  confGroups : List (Path × List String) := []
  deriving DecidableEq, Repr

/-- Manager.setUserLimits: applied to the tracker AT ONCE, while the old configuration is still the active one -/
def setUserLimits (m : Mgr) (u : String) (lc : Limit) (p : Path) : Mgr :=
  updUser (ensureUser m u) u (fun ut => { ut with qt := setLimit m.userWild true ut.qt p lc.maxRes lc.maxApps false false })

def ensureGroupT (m : Mgr) (g : String) : Mgr :=
  if ahas m.groups g then m else { m with groups := m.groups ++ [(g, newGT)] }

/-- Manager.setGroupLimits -/
def setGroupLimits (m : Mgr) (g : String) (lc : Limit) (p : Path) : Mgr :=
  updGroup (ensureGroupT m g) g (fun gt => { gt with qt := setLimit [] false gt.qt p lc.maxRes lc.maxApps false false })

def procUser (p : Path) (lc : Limit) (s : Mgr × NewCfg) (u : String) : Mgr × NewCfg :=
  if u == "" then s
  else if u == "*" then (s.1, { s.2 with userWild := aset s.2.userWild p lc })
  else (setUserLimits s.1 u lc p, { s.2 with userLimits := aset2 s.2.userLimits p u lc })

def procGroup (p : Path) (lc : Limit) (s : Mgr × NewCfg) (g : String) : Mgr × NewCfg :=
  if g == "" then s
  else
    let n1 := { s.2 with groupLimits := aset2 s.2.groupLimits p g lc }
    (setGroupLimits s.1 g lc p,
     if g == "*" then { n1 with groupWild := aset n1.groupWild p lc }
     else { n1 with confGroups := aset n1.confGroups p (((aget n1.confGroups p).getD []) ++ [g]) })

def procEntry (p : Path) (s : Mgr × NewCfg) (l : LimitEntry) : Mgr × NewCfg :=
  let lc : Limit := { maxRes := l.maxRes, maxApps := l.maxApps }
  l.groups.foldl (procGroup p lc) (l.users.foldl (procUser p lc) s)

/-- internalProcessConfig -/
def processConfig (m : Mgr) (c : Cfg) : Mgr × NewCfg :=
  c.foldl (fun s q => q.2.foldl (procEntry q.1) s) (m, {})

/-- resetGroupEarlierUsage -/
def resetGroupEarlierUsage (m : Mgr) (g : String) (p : Path) : Mgr :=
  match aget m.groups g with
  | none => m
  | some gt =>
    if !tracked gt.qt p then m else
    let dd := decreaseDownwards gt.qt p
    -- break the application → group link of the users (the group tracker keeps its `applications` entries)
    let users := dd.2.foldl (fun us app =>
      match aget gt.apps app with
      | some u => amod us u (fun ut => { ut with appGroups := adel ut.appGroups app })
      | none => us) m.users
    let t1 := setLimit [] false dd.1 p none 0 false false
    let t2 := if unlinkRequired t1 p then unlink t1 p else t1
    if canBeRemoved t2 then { m with users := users, groups := adel m.groups g }
    else { m with users := users, groups := aset m.groups g { gt with qt := t2 } }

/-- resetUserEarlierUsage -/
def resetUserEarlierUsage (m : Mgr) (u : String) (p : Path) : Mgr :=
  match aget m.users u with
  | none => m
  | some ut =>
    if !tracked ut.qt p then m else
    let t1 := setLimit m.userWild true ut.qt p none 0 false false
    let t2 := if unlinkRequired t1 p then unlink t1 p else t1
    if canBeRemoved t2 then { m with users := adel m.users u }
    else { m with users := aset m.users u { ut with qt := t2 } }

/-- clearEarlierSetGroupLimits / clearEarlierSetUserLimits: every (queue, name) of the old configuration that the new
    one does not repeat -/
def dropped (old new : List (Path × List (String × Limit))) : List (Path × String) :=
  old.flatMap (fun e => (e.2.filter (fun ul => !(aget2 new e.1 ul.1).isSome)).map (fun ul => (e.1, ul.1)))

/-- clearEarlierSetLimits with the iteration order of the two Go maps made explicit: groups first, then users -/
def clearEarlierSetLimitsL (m : Mgr) (gl ul : List (Path × String)) : Mgr :=
  ul.foldl (fun m e => resetUserEarlierUsage m e.2 e.1) (gl.foldl (fun m e => resetGroupEarlierUsage m e.2 e.1) m)

def clearEarlierSetLimits (m : Mgr) (n : NewCfg) : Mgr :=
  clearEarlierSetLimitsL m (dropped m.groupLimits n.groupLimits) (dropped m.userLimits n.userLimits)

/-- `!ok || !exists` of clearEarlierSetUserWildCardLimits: the user is not named on the queue in both configurations -/
def notNamedInBoth (m : Mgr) (n : NewCfg) (p : Path) (u : String) : Bool :=
  !(aget2 n.userLimits p u).isSome || !(aget2 m.userLimits p u).isSome

def mapUsers (m : Mgr) (f : String → UT → UT) : Mgr := { m with users := m.users.map (fun e => (e.1, f e.1 e.2)) }

/-- clearEarlierSetUserWildCardLimits, one queue path of the OLD wildcard configuration -/
def wildStep (n : NewCfg) (m : Mgr) (e : Path × Limit) : Mgr :=
  let p := e.1
  let someQPMissing := !ahas m.userLimits p || !ahas n.userLimits p
  match aget n.userWild p with
  | none =>
    if someQPMissing then
      mapUsers m (fun u ut => if notNamedInBoth m n p u then { ut with qt := setLimit m.userWild true ut.qt p none 0 false true } else ut)
    else m      -- named users on the queue before and after: nothing is cleared
  | some nl =>
    if someQPMissing && (e.2.maxApps != nl.maxApps || !equals e.2.maxRes nl.maxRes false) then
      mapUsers m (fun u ut => if notNamedInBoth m n p u then { ut with qt := setLimit m.userWild true ut.qt p nl.maxRes nl.maxApps true true } else ut)
    else m

def clearEarlierSetUserWildCardLimits (m : Mgr) (n : NewCfg) : Mgr := m.userWild.foldl (wildStep n) m

/-- applyWildCardUserLimits -/
def applyWildCardUserLimits (m : Mgr) (n : NewCfg) : Mgr :=
  n.userWild.foldl (fun m e =>
    mapUsers m (fun u ut => if (aget2 n.userLimits e.1 u).isSome then ut
                            else { ut with qt := setLimit m.userWild true ut.qt e.1 e.2.maxRes e.2.maxApps true false })) m

/-- replaceLimitConfigs -/
def replaceLimitConfigs (m : Mgr) (n : NewCfg) : Mgr :=
  { m with userLimits := n.userLimits, groupLimits := n.groupLimits, userWild := n.userWild, groupWild := n.groupWild,
           confGroups := n.confGroups }

/-- the phases of UpdateConfig after parsing, for a given iteration order of the dropped (queue, name) pairs -/
def finishConfig (s : Mgr × NewCfg) (gl ul : List (Path × String)) : Mgr :=
  let m2 := clearEarlierSetLimitsL s.1 gl ul
  let m3 := clearEarlierSetUserWildCardLimits m2 s.2
  let m4 := applyWildCardUserLimits m3 s.2
  replaceLimitConfigs m4 s.2

/-- Manager.UpdateConfig: the five phases in the order of the code (maps iterated in list order) -/
def updateConfig (m : Mgr) (c : Cfg) : Mgr :=
  let s := processConfig m c
  finishConfig s (dropped s.1.groupLimits s.2.groupLimits) (dropped s.1.userLimits s.2.userLimits)

/-! ### histories -/

inductive Op where
  | conf (c : Cfg)
  | headroom (q : Path) (app u : String) (ugs : List String)
  | canRun (q : Path) (app u : String) (ugs : List String)
  | inc (q : Path) (app : String) (r : Res) (u : String) (ugs : List String)
  | dec (q : Path) (app : String) (r : Res) (u : String) (rm : Bool)
  deriving Repr

def step (m : Mgr) : Op → Mgr
  | .conf c => updateConfig m c
  | .headroom q app u ugs => (headroomM m q app u ugs).1
  | .canRun q app u ugs => (canRunM m q app u ugs).1
  | .inc q app r u ugs => increaseM m q app r u ugs
  | .dec q app r u rm => decreaseM m q app r u rm

def run (m : Mgr) (ops : List Op) : Mgr := ops.foldl step m

def lastCfg : List Op → Option Cfg
  | [] => none
  | .conf c :: t => (match lastCfg t with | some c' => some c' | none => some c)
  | _ :: t => lastCfg t

/-! ### the statement: limits in force vs limits configured -/

/-- a limit as far as enforcement sees it: an all-zero / missing maximum is "no resource limit" -/
def effLimit (maxRes : ORes) (maxApps : Nat) : ORes × Nat := (if isZero maxRes then none else maxRes, maxApps)

/-- the last `limits:` entry of queue `p` that names user `u` -/
def lastUserEntry (c : Cfg) (p : Path) (u : String) : Option LimitEntry :=
  (((c.filter (fun q => q.1 == p)).flatMap (·.2)).filter (fun l => l.users.contains u)).getLast?

def lastGroupEntry (c : Cfg) (p : Path) (g : String) : Option LimitEntry :=
  (((c.filter (fun q => q.1 == p)).flatMap (·.2)).filter (fun l => l.groups.contains g)).getLast?

/-- the limit the configuration gives user `u` on queue `p`: the entry naming the user, else the wildcard entry, else none
    (last entry wins when a name is repeated, as in the maps the configuration is parsed into) -/
def configuredUser (c : Cfg) (u : String) (p : Path) : ORes × Nat :=
  match lastUserEntry c p u with
  | some l => effLimit l.maxRes l.maxApps
  | none =>
    match lastUserEntry c p "*" with
    | some l => effLimit l.maxRes l.maxApps
    | none => (none, 0)

/-- the limit the configuration gives group `g` (a named group or the group "*" all unmatched users fall into) -/
def configuredGroup (c : Cfg) (g : String) (p : Path) : ORes × Nat :=
  match lastGroupEntry c p g with
  | some l => effLimit l.maxRes l.maxApps
  | none => (none, 0)

/-- the limit in force for user `u` on queue `p`: what the user's queue tracker holds; when the tracker (or the user)
    does not exist yet, what the next Headroom/CanRunApp/Increase call will create it with -/
def inForceUser (m : Mgr) (u : String) (p : Path) : ORes × Nat :=
  match (aget m.users u).bind (fun ut => aget ut.qt p) with
  | some n => effLimit n.maxRes n.maxApps
  | none => match aget m.userWild p with
    | some l => effLimit l.maxRes l.maxApps
    | none => (none, 0)

def inForceGroup (m : Mgr) (g : String) (p : Path) : ORes × Nat :=
  match (aget m.groups g).bind (fun gt => aget gt.qt p) with
  | some n => effLimit n.maxRes n.maxApps
  | none => (none, 0)

/-- usage lookup: a missing tracker counts nothing -/
def usageAt (t : Tree) (p : Path) (k : String) : Int :=
  match aget t p with | some n => (n.usage.getD []).getD k | none => 0

/-! ### hypotheses of the partial reload statement (decidable; on the active configuration maps of the manager and the
    maps the new configuration is parsed into) -/

/-- the maps a configuration is parsed into (they do not depend on the trackers) -/
def parseCfg (c : Cfg) : NewCfg := (processConfig {} c).2

/-- excludes F17: no queue loses its wildcard user limit while users are named on it before AND after the reload -/
def noWildcardDropBesideNamed (m : Mgr) (n : NewCfg) : Bool :=
  m.userWild.all (fun e => ahas n.userWild e.1 || !(ahas m.userLimits e.1 && ahas n.userLimits e.1))

/-- excludes F18 / group-lost: nobody loses the limit of a queue and keeps (or gets) a limit on that queue's subtree -/
def noDropAboveKept (old new : List (Path × List (String × Limit))) : Bool :=
  (dropped old new).all (fun d => new.all (fun e => !(d.1.isPrefixOf e.1 && ahas e.2 d.2)))

def nodupB : List String → Bool
  | [] => true
  | a :: t => !t.contains a && nodupB t

/-- at most one queue per user / group loses its limit (one resetUserEarlierUsage / resetGroupEarlierUsage per tracker: the
    iteration order of the old limit map cannot matter) -/
def singleDrop (old new : List (Path × List (String × Limit))) : Bool := nodupB ((dropped old new).map (·.2))

/-- every `limits:` entry sets a limit and every queue path starts at the root (configs.Validate) -/
def properCfgB (c : Cfg) : Bool :=
  c.all (fun q => q.1.take 1 == rootPath && q.2.all (fun l => !(l.maxApps == 0 && isZero l.maxRes)))

/-! ### application → group links -/

/-- appGroupTrackers[app] of user `u`: `none` = not resolved yet, `some none` = resolved to "no group" -/
def linkOf (m : Mgr) (u app : String) : Option (Option String) :=
  match aget m.users u with | some ut => aget ut.appGroups app | none => none

/-- the application is running for the user (listed by the root queue tracker) -/
def trackedApp (m : Mgr) (u app : String) : Bool :=
  match aget m.users u with
  | some ut => (match aget ut.qt rootPath with | some n => n.apps.contains app | none => false)
  | none => false

/-- operations that must keep the link of application `app` of user `u`: everything but a configuration reload and the
    removeApp release of that application (queue paths start at the root) -/
def opKeepsLink : Op → String → String → Bool
  | .conf _, _, _ => false
  | .dec q app' _ u' rm, u, app => (q.take 1 == rootPath) && !(rm && u' == u && app' == app)
  | _, _, _ => true

/-! ### the ledger the accounting statements compare with -/

/-- a live allocation of an application in a queue -/
structure Alloc where
  app : String
  q : Path
  r : Res
  deriving DecidableEq, Repr

/-- queue `p` is on the path of queue `q` -/
def onPath (p q : Path) : Bool := (prefixes q).contains p

/-- what the live allocations add up to on queue `p`, type `k` -/
def sumLive (live : List Alloc) (p : Path) (k : String) : Int :=
  (live.map (fun a => if onPath p a.q then a.r.getD k else 0)).sum

/-- everything that happens to the queue trackers of ONE user or group tracker (the wildcard configuration a new queue
    tracker is created from may differ from call to call: it is the configuration active at that moment) -/
inductive TOp where
  | inc (w : List (Path × Limit)) (a : Alloc)
  | dec (a : Alloc) (rm : Bool)
  | touch (w : List (Path × Limit)) (h : Path)        -- headroom / canRunApp: create the trackers of the walk
  | setLimit (w : List (Path × Limit)) (h : Path) (maxRes : ORes) (maxApps : Nat) (useWild check : Bool)
  | unlink (h : Path)

def tstep (isUser : Bool) (s : Tree × List Alloc) : TOp → Tree × List Alloc
  | .inc w a => (increase w isUser s.1 a.q a.app a.r, s.2 ++ [a])
  | .dec a rm => ((decrease s.1 a.q a.app a.r rm).1, s.2.erase a)
  | .touch w h => (ensurePath w isUser s.1 h, s.2)
  | .setLimit w h mr ma uw ck => (setLimit w isUser s.1 h mr ma uw ck, s.2)
  | .unlink h => (unlink s.1 h, s.2)

/-- the callers' contract (Application.incUserResourceUsage / decUserResourceUsage): releases are for live allocations,
    removeApp only with the last one of the application -/
def opOk (live : List Alloc) : TOp → Prop
  | .inc _ a => wf a.r = true
  | .dec a rm => a ∈ live ∧ (rm = true → ∀ b ∈ live.erase a, b.app ≠ a.app)
  | _ => True

def histOk (isUser : Bool) : Tree × List Alloc → List TOp → Prop
  | _, [] => True
  | s, op :: rest => opOk s.2 op ∧ histOk isUser (tstep isUser s op) rest

/-! ### the ledger of a manager history -/

/-- the live allocations of one user -/
def userAllocs (L : List (String × Alloc)) (u : String) : List Alloc := (L.filter (fun e => e.1 == u)).map (·.2)

def mLedger (L : List (String × Alloc)) : Op → List (String × Alloc)
  | .inc q app r u _ => L ++ [(u, ⟨app, q, r⟩)]
  | .dec q app r u _ => L.erase (u, ⟨app, q, r⟩)
  | _ => L

/-- the callers' contract for manager histories (Application.incUserResourceUsage / decUserResourceUsage): queue paths
    start at the root, releases are for live allocations, removeApp only with the last allocation of the application;
    configuration reloads, Headroom and CanRunApp may come at any time -/
def mOpOk (L : List (String × Alloc)) : Op → Prop
  | .inc q app r u _ => q.take 1 = rootPath ∧ app ≠ "" ∧ u ≠ "" ∧ wf r = true
  | .dec q app r u rm => (u, (⟨app, q, r⟩ : Alloc)) ∈ L ∧
      (rm = true → ∀ b ∈ userAllocs (L.erase (u, ⟨app, q, r⟩)) u, b.app ≠ app)
  | _ => True

/-- the live allocations of the applications linked to group `g` -/
def groupAllocs (m : Mgr) (L : List (String × Alloc)) (g : String) : List Alloc :=
  (L.filter (fun e => groupForApp m e.1 e.2.app == g)).map (·.2)

/-- the contract for the group statement: as `mOpOk`, application ids are unique across users (as in the core), and no
    configuration reload -/
def gOpOk (L : List (String × Alloc)) : Op → Prop
  | .conf _ => False
  | .inc q app r u ugs => mOpOk L (.inc q app r u ugs) ∧ ∀ e ∈ L, e.2.app = app → e.1 = u
  | op => mOpOk L op

def mStep (s : Mgr × List (String × Alloc)) (op : Op) : Mgr × List (String × Alloc) := (step s.1 op, mLedger s.2 op)

def mHistOk : Mgr × List (String × Alloc) → List Op → Prop
  | _, [] => True
  | s, op :: rest => mOpOk s.2 op ∧ mHistOk (mStep s op) rest

def gHistOk : Mgr × List (String × Alloc) → List Op → Prop
  | _, [] => True
  | s, op :: rest => gOpOk s.2 op ∧ gHistOk (mStep s op) rest

end Yk.Ugm
