/-
  C17 — the executable statement: the clauses of the property as Boolean functions of
  (queue tree before, rule list, application, regexp oracle) and an observed answer (outcome, queue tree after).
  The driver evaluates them on what the IMPLEMENTATION answered; YkProps/C17.lean proves them for the model.
-/
import YkModel.Place
namespace Yk.Place

/-- the rule the property designates: the first rule, in configured order, that yields a queue name passing the checks.
    `none` when no rule does or when a rule fails (error / panic) before one is found. -/
def choose (rx : Str → Str → Bool) (t : Tree) (a : App) : List Rule → Option (Rule × QName)
  | [] => none
  | r :: rest =>
    match runRule rx t a r with
    | .err _ => none
    | res =>
      match yields t res rest.isEmpty with
      | none => choose rx t a rest
      | some n =>
        match eligible t a n with
        | none => none
        | some true => some (r, n)
        | some false => choose rx t a rest

/-- some existing queue on the path (the queue itself or an ancestor) lets the user in through its submit or admin ACL -/
def aclOnPath (t : Tree) (u : User) (q : QName) : Bool :=
  (List.range (q.length + 1)).any (fun k => decide (0 < k) && ownAllows t u (q.take k))

/-- the filter as configured: the type is `deny` whatever its capitalisation (the configuration check accepts any) -/
def Filter.specAllow (rx : Str → Str → Bool) (f : Filter) (u : User) : Bool :=
  let allow := decide (lower f.cfgType ≠ sDeny)
  if f.empty then allow
  else if f.filterUser rx u.name then allow
  else if u.groups.any (f.filterGroup rx) then allow
  else !allow

def isRecoveryRule (r : Rule) : Bool :=
  match r with
  | [n] => decide (n.kind = .recovery)
  | _ => false

/-- queues of `t'` that `t` does not have -/
def newQueues (t t' : Tree) : List Queue := t'.filter (fun q => (findQ t q.path).isNone)

structure Observed where
  outcome : Outcome
  after : Tree

/-- L1: an accepted application is in a leaf queue of the tree afterwards -/
def clauseL1 (o : Observed) : Bool :=
  match o.outcome with
  | .accepted q => match findQ o.after q with | some x => x.leaf | none => false
  | _ => true

/-- L2: if that queue existed before it was a leaf and — unless it is the recovery queue of a forced application — not
    draining -/
def clauseL2 (t : Tree) (a : App) (o : Observed) : Bool :=
  match o.outcome with
  | .accepted q => match findQ t q with
    | some x => x.leaf && (!x.draining || (a.forced && decide (q = recoveryQ)))
    | none => true
  | _ => true

/-- L3: the case L2 leaves out — a forced application is not put into a draining recovery queue either -/
def clauseL3 (t : Tree) (a : App) (o : Observed) : Bool :=
  match o.outcome with
  | .accepted q => match findQ t q with
    | some x => !(a.forced && decide (q = recoveryQ)) || !x.draining
    | none => true
  | _ => true

/-- A1: unless force-created into the recovery queue, the user passes the submit or admin ACL of the queue or of an
    ancestor that existed before -/
def clauseA1 (t : Tree) (a : App) (o : Observed) : Bool :=
  match o.outcome with
  | .accepted q => (a.forced && decide (q = recoveryQ)) || aclOnPath t a.user q
  | _ => true

/-- R1: the queue is the one designated by the first rule that yields a queue passing the checks -/
def clauseR1 (rx : Str → Str → Bool) (t : Tree) (rules : List Rule) (a : App) (o : Observed) : Bool :=
  match o.outcome with
  | .accepted q => match choose rx t a rules with | some (_, n) => decide (lowerName n = q) | none => false
  | _ => true

/-- the rules with every filter type read as configured (`deny` in any capitalisation denies) -/
def normRules (rules : List Rule) : List Rule :=
  rules.map (fun r => r.map (fun nd => { nd with filter := { nd.filter with allow := decide (lower nd.filter.cfgType ≠ sDeny) } }))

/-- F1: the answer is the one the rules designate when the filter types are read as configured: an accepted
    application is in the queue of the first passing rule, a "no rule matched" rejection means no rule passes -/
def clauseF1 (rx : Str → Str → Bool) (t : Tree) (rules : List Rule) (a : App) (o : Observed) : Bool :=
  match o.outcome with
  | .accepted q => match choose rx t a (normRules rules) with | some (_, n) => decide (lowerName n = q) | none => false
  | .rejected .noRule => decide (place rx t a (normRules rules) = .rejected)
  | _ => true

/-- N1: no rule designates a queue (and none fails) ⇒ rejected as "no placement rule matched" -/
def clauseN1 (rx : Str → Str → Bool) (t : Tree) (rules : List Rule) (a : App) (o : Observed) : Bool :=
  match place rx t a rules with
  | .rejected => decide (o.outcome = .rejected .noRule)
  | _ => true

/-- C1: queues appear only for a chosen rule with create enabled (or the recovery rule of a forced application);
    they lie on the path of the designated name, whose parts are valid names; the deepest queue that existed is not a
    leaf; a new leaf has that queue's child template applied, new parents carry it on -/
def clauseC1 (rx : Str → Str → Bool) (t : Tree) (rules : List Rule) (a : App) (o : Observed) : Bool :=
  let nq := newQueues t o.after
  nq.isEmpty ||
  match choose rx t a rules with
  | none => false
  | some (r, n) =>
    ((r.head?.map (·.create)).getD false || (isRecoveryRule r && a.forced)) &&
    n.all validQueueName &&
    nq.all (fun q => q.path.isPrefixOf (lowerName n) && !q.managed && !q.draining) &&
    (match walkUp t n with
     | none => false
     | some anc => !anc.leaf && nq.all (fun q => if q.leaf then q.cfg = anc.tpl && q.tpl = [] else q.tpl = anc.tpl && q.cfg = []))

/-- V1: the recovery queue is only used for force-created applications -/
def clauseV1 (a : App) (o : Observed) : Bool :=
  match o.outcome with
  | .accepted q => !decide (q = recoveryQ) || a.forced
  | _ => true

/-- P1: placement does not panic -/
def clauseP1 (o : Observed) : Bool := !decide (o.outcome = .panic)

/-- C2 created-queue-settings-follow-template: the effective settings of a queue created by a rule (sort policy, priority
    sort / policy / offset, preemption policy / delay, quota preemption delay, ask backoff) are the ones
    UpdateQueueProperties derives (`dynSettings`) from the properties of the child template of the deepest queue that
    existed — a new leaf from the template's properties, a new parent from nothing while it carries the template's
    properties on -/
def clauseC2 (rx : Str → Str → Bool) (t : Tree) (rules : List Rule) (a : App) (o : Observed) : Bool :=
  let nq := newQueues t o.after
  nq.isEmpty ||
  match choose rx t a rules with
  | none => false
  | some (_, n) =>
    match walkUp t n with
    | none => false
    | some anc =>
      nq.all (fun q =>
        if q.leaf then decide (q.tplProps = []) && decide (q.set = dynSettings q.path true anc.tplProps)
        else decide (q.tplProps = anc.tplProps) && decide (q.set = dynSettings q.path false []))

/-- V2: the recovery queue path is not taken by anything but the recovery leaf: a call creates no parent queue at
    root.@recovery@ and nothing below it -/
def clauseV2 (t : Tree) (o : Observed) : Bool :=
  (newQueues t o.after).all (fun q => !(recoveryQ.isPrefixOf q.path) || (decide (q.path = recoveryQ) && q.leaf))

end Yk.Place
