/- The first configuration loaded into an empty manager is in force exactly as configured (YkProps/C05
   limits_follow_config_first_load). -/
import YkProofs.UgmCfg
namespace Yk.Ugm
open Yk Yk.Res Yk.QTree

/-! ### the limit fields of a tracker tree, described by a view -/

abbrev Triple := ORes × Nat × Bool
def triple (n : Node) : Triple := (n.maxRes, n.maxApps, n.wild)
def dflt : Triple := (none, 0, false)
def t3 (lc : Limit) : Triple := (lc.maxRes, lc.maxApps, false)
def t3w (lc : Limit) : Triple := (lc.maxRes, lc.maxApps, true)

/-- every tracker of the tree holds the limit `view` gives its queue (nothing when it gives none), and every queue
    `view` gives a limit has a tracker -/
def Q (qt : Tree) (view : Path → Option Triple) : Prop :=
  (∀ p n, aget qt p = some n → triple n = (view p).getD dflt) ∧ (∀ p, (view p).isSome = true → ahas qt p = true)

theorem Q_congr {qt : Tree} {v v' : Path → Option Triple} (h : Q qt v) (e : ∀ p, v p = v' p) : Q qt v' := by
  constructor
  · intro p n hn; rw [← e]; exact h.1 p n hn
  · intro p hp; rw [← e] at hp; exact h.2 p hp

theorem newNode_default {w : List (Path × Limit)} {isUser : Bool} (h : w = [] ∨ isUser = false) (p : Path) :
    newNode w isUser p = {} := by
  unfold newNode
  rcases h with h | h
  · subst h; cases isUser <;> rfl
  · subst h; rfl

theorem Q_newTree {w : List (Path × Limit)} {isUser : Bool} (h : w = [] ∨ isUser = false) :
    Q (newTree w isUser) (fun _ => none) := by
  constructor
  · intro p n hn
    unfold newTree at hn
    rw [aget_cons] at hn
    by_cases e : rootPath = p
    · simp only [e, if_true, Option.some.injEq] at hn; subst hn; rw [newNode_default h]; rfl
    · simp [e, aget_nil] at hn
  · intro p hp; cases hp

theorem mem_prefixesFrom_self : ∀ (rest : List String) (pre : Path), rest ≠ [] → pre ++ rest ∈ prefixesFrom pre rest := by
  intro rest
  induction rest with
  | nil => intro pre h; exact absurd rfl h
  | cons c rest ih =>
    intro pre _
    simp only [prefixesFrom]
    by_cases hr : rest = []
    · subst hr; exact List.mem_cons_self
    · have := ih (pre ++ [c]) hr
      rw [List.append_assoc] at this
      exact List.mem_cons_of_mem _ this

theorem mem_prefixes_self {p : Path} (h : p ≠ []) : p ∈ prefixes p := by
  have := mem_prefixesFrom_self p [] h
  simpa [prefixes] using this

theorem Q_setLimit {qt : Tree} {view : Path → Option Triple} (h : Q qt view) {w : List (Path × Limit)} {isUser : Bool}
    (hd : w = [] ∨ isUser = false) {p : Path} (hp : p ≠ []) (mr : ORes) (ma : Nat) (uw : Bool) :
    Q (setLimit w isUser qt p mr ma uw false) (fun p' => if p = p' then some (mr, ma, uw) else view p') := by
  have hget : ∀ p', aget (setLimit w isUser qt p mr ma uw false) p' =
      if p = p' then (aget (ensurePath w isUser qt p) p').map (fun n => { n with maxRes := mr, maxApps := ma, wild := uw })
      else aget (ensurePath w isUser qt p) p' := by
    intro p'
    unfold setLimit
    rw [aget_amod]
    simp
  constructor
  · intro p' n hn
    rw [hget] at hn
    by_cases e : p = p'
    · subst e
      simp only [if_true] at hn ⊢
      cases hq : aget (ensurePath w isUser qt p) p with
      | none => rw [hq] at hn; cases hn
      | some n0 => rw [hq] at hn; simp only [Option.map_some, Option.some.injEq] at hn; subst hn; rfl
    · simp only [e, if_false] at hn ⊢
      rw [aget_ensurePath] at hn
      cases hq : aget qt p' with
      | some n0 => rw [hq] at hn; cases hn; exact h.1 p' _ hq
      | none =>
        rw [hq] at hn
        have hv : view p' = none := by
          cases hv : view p' with
          | none => rfl
          | some x =>
            have := h.2 p' (by rw [hv]; rfl)
            rw [ahas_eq, hq] at this; cases this
        by_cases hm : p' ∈ prefixes p
        · simp only [hm, if_true, Option.some.injEq] at hn; subst hn
          rw [newNode_default hd, hv]; rfl
        · simp [hm] at hn
  · intro p' hs
    rw [ahas_eq, hget]
    by_cases e : p = p'
    · subst e
      obtain ⟨n, hn⟩ := ensurePath_has w isUser qt p p (mem_prefixes_self hp)
      simp [hn]
    · simp only [e, if_false] at hs ⊢
      have := h.2 p' hs
      rw [ahas_eq] at this
      rw [aget_ensurePath]
      cases hq : aget qt p' with
      | some n0 => rfl
      | none => rw [hq] at this; cases this

/-! ### user and group trackers vs the maps being parsed -/

def UsersQ (users : List (String × UT)) (view : String → Path → Option Triple) : Prop :=
  ∀ u ut, aget users u = some ut → Q ut.qt (view u)
def GroupsQ (groups : List (String × GT)) (view : String → Path → Option Triple) : Prop :=
  ∀ g gt, aget groups g = some gt → Q gt.qt (view g)
/-- a name with a limit somewhere has a tracker -/
def NamedHas {β : Type} (l : List (String × β)) (view : String → Path → Option Triple) : Prop :=
  ∀ u p, (view u p).isSome = true → ahas l u = true

theorem aget_ensureUser (m : Mgr) (u u' : String) :
    aget (ensureUser m u).users u' = match aget m.users u' with
      | some ut => some ut | none => if u = u' then some (newUT m) else none := by
  unfold ensureUser
  by_cases h : ahas m.users u = true
  · rw [if_pos h]
    cases hh : aget m.users u' with
    | some ut => rfl
    | none =>
      have : u ≠ u' := by intro e; subst e; rw [ahas_eq, hh] at h; cases h
      simp [this]
  · rw [if_neg h]; simp only; rw [aget_append_single]; cases aget m.users u' <;> rfl

theorem aget_ensureGroupT (m : Mgr) (g g' : String) :
    aget (ensureGroupT m g).groups g' = match aget m.groups g' with
      | some gt => some gt | none => if g = g' then some newGT else none := by
  unfold ensureGroupT
  by_cases h : ahas m.groups g = true
  · rw [if_pos h]
    cases hh : aget m.groups g' with
    | some gt => rfl
    | none =>
      have : g ≠ g' := by intro e; subst e; rw [ahas_eq, hh] at h; cases h
      simp [this]
  · rw [if_neg h]; simp only; rw [aget_append_single]; cases aget m.groups g' <;> rfl

theorem setUserLimits_spec {m : Mgr} {view : String → Path → Option Triple} (hq : UsersQ m.users view)
    (hn : NamedHas m.users view) (hw : m.userWild = []) (u : String) (lc : Limit) {p : Path} (hp : p ≠ []) :
    UsersQ (setUserLimits m u lc p).users (fun u' p' => if u = u' ∧ p = p' then some (t3 lc) else view u' p') ∧
    NamedHas (setUserLimits m u lc p).users (fun u' p' => if u = u' ∧ p = p' then some (t3 lc) else view u' p') ∧
    (setUserLimits m u lc p).groups = m.groups ∧ (setUserLimits m u lc p).userWild = m.userWild ∧
    (setUserLimits m u lc p).userLimits = m.userLimits ∧ (setUserLimits m u lc p).groupLimits = m.groupLimits := by
  have hget : ∀ u', aget (setUserLimits m u lc p).users u' =
      if u = u' then (aget (ensureUser m u).users u').map (fun ut => { ut with qt := setLimit m.userWild true ut.qt p lc.maxRes lc.maxApps false false })
      else aget (ensureUser m u).users u' := by
    intro u'; unfold setUserLimits updUser; simp only; rw [aget_amod]
  refine ⟨?_, ?_, ?_, ?_, ?_, ?_⟩
  · intro u' ut hut
    rw [hget, aget_ensureUser] at hut
    by_cases e : u = u'
    · subst e
      simp only [if_true] at hut
      -- the tracker before: existing, or fresh with an empty view
      have hq0 : ∃ ut0 : UT, ut = { ut0 with qt := setLimit m.userWild true ut0.qt p lc.maxRes lc.maxApps false false } ∧ Q ut0.qt (view u) := by
        cases hh : aget m.users u with
        | some ut0 => rw [hh] at hut; simp only [Option.map_some, Option.some.injEq] at hut; exact ⟨ut0, hut.symm, hq u ut0 hh⟩
        | none =>
          rw [hh] at hut; simp only [if_true, Option.map_some, Option.some.injEq] at hut
          refine ⟨newUT m, hut.symm, ?_⟩
          apply Q_congr (Q_newTree (Or.inl hw))
          intro p'
          cases hv : view u p' with
          | none => rfl
          | some x => have := hn u p' (by rw [hv]; rfl); rw [ahas_eq, hh] at this; cases this
      obtain ⟨ut0, hut0, hq0⟩ := hq0
      subst hut0
      apply Q_congr (Q_setLimit hq0 (Or.inl hw) hp lc.maxRes lc.maxApps false)
      intro p'
      by_cases ep : p = p'
      · simp [ep, t3]
      · simp [ep]
    · simp only [e, if_false] at hut
      have hut' : aget m.users u' = some ut := by
        cases hh : aget m.users u' with
        | some x => rw [hh] at hut; exact hut
        | none => rw [hh] at hut; simp [e] at hut
      apply Q_congr (hq u' ut hut')
      intro p'; simp [e]
  · intro u' p' hs
    rw [ahas_eq, hget, aget_ensureUser]
    by_cases e : u = u'
    · subst e
      cases hh : aget m.users u with
      | some x => simp
      | none => simp
    · simp only [e, false_and, if_false] at hs ⊢
      have := hn u' p' hs
      rw [ahas_eq] at this
      cases hh : aget m.users u' with
      | some x => rfl
      | none => rw [hh] at this; cases this
  · unfold setUserLimits updUser ensureUser; split <;> rfl
  · unfold setUserLimits updUser ensureUser; split <;> rfl
  · unfold setUserLimits updUser ensureUser; split <;> rfl
  · unfold setUserLimits updUser ensureUser; split <;> rfl

theorem setGroupLimits_spec {m : Mgr} {view : String → Path → Option Triple} (hq : GroupsQ m.groups view)
    (hn : NamedHas m.groups view) (g : String) (lc : Limit) {p : Path} (hp : p ≠ []) :
    GroupsQ (setGroupLimits m g lc p).groups (fun g' p' => if g = g' ∧ p = p' then some (t3 lc) else view g' p') ∧
    NamedHas (setGroupLimits m g lc p).groups (fun g' p' => if g = g' ∧ p = p' then some (t3 lc) else view g' p') ∧
    (setGroupLimits m g lc p).users = m.users ∧ (setGroupLimits m g lc p).userWild = m.userWild ∧
    (setGroupLimits m g lc p).userLimits = m.userLimits ∧ (setGroupLimits m g lc p).groupLimits = m.groupLimits := by
  have hget : ∀ g', aget (setGroupLimits m g lc p).groups g' =
      if g = g' then (aget (ensureGroupT m g).groups g').map (fun gt => { gt with qt := setLimit [] false gt.qt p lc.maxRes lc.maxApps false false })
      else aget (ensureGroupT m g).groups g' := by
    intro g'; unfold setGroupLimits updGroup; simp only; rw [aget_amod]
  refine ⟨?_, ?_, ?_, ?_, ?_, ?_⟩
  · intro g' gt hgt
    rw [hget, aget_ensureGroupT] at hgt
    by_cases e : g = g'
    · subst e
      simp only [if_true] at hgt
      have hq0 : ∃ gt0 : GT, gt = { gt0 with qt := setLimit [] false gt0.qt p lc.maxRes lc.maxApps false false } ∧ Q gt0.qt (view g) := by
        cases hh : aget m.groups g with
        | some gt0 => rw [hh] at hgt; simp only [Option.map_some, Option.some.injEq] at hgt; exact ⟨gt0, hgt.symm, hq g gt0 hh⟩
        | none =>
          rw [hh] at hgt; simp only [if_true, Option.map_some, Option.some.injEq] at hgt
          refine ⟨newGT, hgt.symm, ?_⟩
          apply Q_congr (Q_newTree (Or.inr rfl))
          intro p'
          cases hv : view g p' with
          | none => rfl
          | some x => have := hn g p' (by rw [hv]; rfl); rw [ahas_eq, hh] at this; cases this
      obtain ⟨gt0, hgt0, hq0⟩ := hq0
      subst hgt0
      apply Q_congr (Q_setLimit hq0 (Or.inr rfl) hp lc.maxRes lc.maxApps false)
      intro p'
      by_cases ep : p = p'
      · simp [ep, t3]
      · simp [ep]
    · simp only [e, if_false] at hgt
      have hgt' : aget m.groups g' = some gt := by
        cases hh : aget m.groups g' with
        | some x => rw [hh] at hgt; exact hgt
        | none => rw [hh] at hgt; simp [e] at hgt
      apply Q_congr (hq g' gt hgt')
      intro p'; simp [e]
  · intro g' p' hs
    rw [ahas_eq, hget, aget_ensureGroupT]
    by_cases e : g = g'
    · subst e
      cases hh : aget m.groups g with
      | some x => simp
      | none => simp
    · simp only [e, false_and, if_false] at hs ⊢
      have := hn g' p' hs
      rw [ahas_eq] at this
      cases hh : aget m.groups g' with
      | some x => rfl
      | none => rw [hh] at this; cases this
  · unfold setGroupLimits updGroup ensureGroupT; split <;> rfl
  · unfold setGroupLimits updGroup ensureGroupT; split <;> rfl
  · unfold setGroupLimits updGroup ensureGroupT; split <;> rfl
  · unfold setGroupLimits updGroup ensureGroupT; split <;> rfl

/-! ### internalProcessConfig keeps trackers and parsed maps in step -/

theorem aget2_aset2 {α β γ : Type} [DecidableEq α] [DecidableEq β] (l : List (α × List (β × γ))) (p : α) (u : β) (v : γ)
    (p' : α) (u' : β) : aget2 (aset2 l p u v) p' u' = if p = p' ∧ u = u' then some v else aget2 l p' u' := by
  unfold aget2 aset2
  rw [aget_aset]
  by_cases e : p = p'
  · subst e
    simp only [if_true, true_and]
    rw [aget_aset]
    cases aget l p with
    | none => simp [aget_nil]
    | some m => simp
  · simp [e]

theorem UsersQ_congr {us : List (String × UT)} {v v' : String → Path → Option Triple} (h : UsersQ us v)
    (e : ∀ u p, v u p = v' u p) : UsersQ us v' := fun u ut hut => Q_congr (h u ut hut) (e u)
theorem GroupsQ_congr {gs : List (String × GT)} {v v' : String → Path → Option Triple} (h : GroupsQ gs v)
    (e : ∀ u p, v u p = v' u p) : GroupsQ gs v' := fun u ut hut => Q_congr (h u ut hut) (e u)
theorem NamedHas_congr {β : Type} {l : List (String × β)} {v v' : String → Path → Option Triple} (h : NamedHas l v)
    (e : ∀ u p, v u p = v' u p) : NamedHas l v' := fun u p hs => h u p (by rw [e]; exact hs)

structure K (s : Mgr × NewCfg) : Prop where
  uw : s.1.userWild = []
  ul : s.1.userLimits = []
  gl : s.1.groupLimits = []
  uq : UsersQ s.1.users (fun u p => (aget2 s.2.userLimits p u).map t3)
  un : NamedHas s.1.users (fun u p => (aget2 s.2.userLimits p u).map t3)
  gq : GroupsQ s.1.groups (fun g p => (aget2 s.2.groupLimits p g).map t3)
  gn : NamedHas s.1.groups (fun g p => (aget2 s.2.groupLimits p g).map t3)

theorem K_init : K (({} : Mgr), ({} : NewCfg)) := by
  refine ⟨rfl, rfl, rfl, ?_, ?_, ?_, ?_⟩
  · intro u ut h; cases h
  · intro u p h; cases h
  · intro u ut h; cases h
  · intro u p h; cases h

theorem K_procUser {s : Mgr × NewCfg} (h : K s) {p : Path} (hp : p ≠ []) (lc : Limit) (u : String) : K (procUser p lc s u) := by
  unfold procUser
  split
  · exact h
  · split
    · exact ⟨h.uw, h.ul, h.gl, h.uq, h.un, h.gq, h.gn⟩
    · obtain ⟨a1, a2, a3, a4, a5, a6⟩ := setUserLimits_spec h.uq h.un h.uw u lc hp
      have hv : ∀ u' p', (if u = u' ∧ p = p' then some (t3 lc) else (aget2 s.2.userLimits p' u').map t3) =
          (aget2 (aset2 s.2.userLimits p u lc) p' u').map t3 := by
        intro u' p'; rw [aget2_aset2]
        by_cases e : p = p' ∧ u = u'
        · simp [e.1, e.2]
        · have : ¬ (u = u' ∧ p = p') := fun x => e ⟨x.2, x.1⟩
          simp [e, this]
      refine ⟨by rw [a4]; exact h.uw, by rw [a5]; exact h.ul, by rw [a6]; exact h.gl,
        UsersQ_congr a1 hv, NamedHas_congr a2 hv, ?_, ?_⟩
      · show GroupsQ (setUserLimits s.1 u lc p).groups _; rw [a3]; exact h.gq
      · show NamedHas (setUserLimits s.1 u lc p).groups _; rw [a3]; exact h.gn

theorem K_procGroup {s : Mgr × NewCfg} (h : K s) {p : Path} (hp : p ≠ []) (lc : Limit) (g : String) : K (procGroup p lc s g) := by
  unfold procGroup
  split
  · exact h
  · obtain ⟨a1, a2, a3, a4, a5, a6⟩ := setGroupLimits_spec h.gq h.gn g lc hp
    have hv : ∀ g' p', (if g = g' ∧ p = p' then some (t3 lc) else (aget2 s.2.groupLimits p' g').map t3) =
        (aget2 (aset2 s.2.groupLimits p g lc) p' g').map t3 := by
      intro g' p'; rw [aget2_aset2]
      by_cases e : p = p' ∧ g = g'
      · simp [e.1, e.2]
      · have : ¬ (g = g' ∧ p = p') := fun x => e ⟨x.2, x.1⟩
        simp [e, this]
    simp only
    have hgl : ∀ b : Bool, (if b = true then
          ({ s.2 with groupLimits := aset2 s.2.groupLimits p g lc, groupWild := aset s.2.groupWild p lc } : NewCfg)
        else { s.2 with groupLimits := aset2 s.2.groupLimits p g lc,
                        confGroups := aset s.2.confGroups p ((aget s.2.confGroups p).getD [] ++ [g]) }).groupLimits
          = aset2 s.2.groupLimits p g lc ∧
        (if b = true then
          ({ s.2 with groupLimits := aset2 s.2.groupLimits p g lc, groupWild := aset s.2.groupWild p lc } : NewCfg)
        else { s.2 with groupLimits := aset2 s.2.groupLimits p g lc,
                        confGroups := aset s.2.confGroups p ((aget s.2.confGroups p).getD [] ++ [g]) }).userLimits
          = s.2.userLimits := by
      intro b; cases b <;> exact ⟨rfl, rfl⟩
    obtain ⟨e1, e2⟩ := hgl (g == "*")
    refine ⟨by rw [a4]; exact h.uw, by rw [a5]; exact h.ul, by rw [a6]; exact h.gl, ?_, ?_, ?_, ?_⟩
    · show UsersQ (setGroupLimits s.1 g lc p).users _
      rw [a3]; simp only; rw [e2]; exact h.uq
    · show NamedHas (setGroupLimits s.1 g lc p).users _
      rw [a3]; simp only; rw [e2]; exact h.un
    · show GroupsQ (setGroupLimits s.1 g lc p).groups _
      simp only; rw [e1]; exact GroupsQ_congr a1 hv
    · show NamedHas (setGroupLimits s.1 g lc p).groups _
      simp only; rw [e1]; exact NamedHas_congr a2 hv

theorem foldl_preserves {σ α : Type} (f : σ → α → σ) (P : σ → Prop) (l : List α) (hf : ∀ s a, a ∈ l → P s → P (f s a)) :
    ∀ s, P s → P (l.foldl f s) := by
  induction l with
  | nil => intro s h; exact h
  | cons a l ih =>
    intro s h
    rw [List.foldl_cons]
    exact ih (fun s b hb => hf s b (List.mem_cons_of_mem _ hb)) _ (hf s a List.mem_cons_self h)

theorem K_procEntry {s : Mgr × NewCfg} (h : K s) {p : Path} (hp : p ≠ []) (l : LimitEntry) : K (procEntry p s l) := by
  unfold procEntry
  apply foldl_preserves _ K _ (fun s g _ hs => K_procGroup hs hp _ g)
  exact foldl_preserves _ K _ (fun s u _ hs => K_procUser hs hp _ u) _ h

theorem K_processConfig (c : Cfg) (hc : ∀ q ∈ c, q.1 ≠ []) : K (processConfig {} c) := by
  unfold processConfig
  apply foldl_preserves _ K c _ _ K_init
  intro s q hq hs
  exact foldl_preserves _ K _ (fun s l _ hs => K_procEntry hs (hc q hq) l) _ hs

/-! ### the parsed maps hold the last entry of the configuration -/

def lcOf (l : LimitEntry) : Limit := { maxRes := l.maxRes, maxApps := l.maxApps }

/-- last entry of `ls` if any, else `init` -/
def lastOr (init : Option Limit) (ls : List LimitEntry) : Option Limit :=
  match ls.getLast? with | some l => some (lcOf l) | none => init

theorem lastOr_nil (init : Option Limit) : lastOr init [] = init := rfl

theorem lastOr_cons (init : Option Limit) (l : LimitEntry) (ls : List LimitEntry) :
    lastOr init (l :: ls) = lastOr (some (lcOf l)) ls := by
  unfold lastOr
  cases ls with
  | nil => rfl
  | cons a ls =>
    rw [List.getLast?_cons_cons]
    cases h : (a :: ls).getLast? with
    | none => rw [List.getLast?_eq_none_iff] at h; cases h
    | some x => rfl

theorem lastOr_append (init : Option Limit) (a b : List LimitEntry) : lastOr init (a ++ b) = lastOr (lastOr init a) b := by
  induction a generalizing init with
  | nil => rfl
  | cons x a ih => rw [List.cons_append, lastOr_cons, lastOr_cons, ih]

/-- a projection of the parsed maps that user entries hit on `hitU`, group entries on `hitG` -/
structure Proj (π : NewCfg → Option Limit) (hitU hitG : Path → String → Bool) : Prop where
  user : ∀ p lc (s : Mgr × NewCfg) x, π (procUser p lc s x).2 = if hitU p x then some lc else π s.2
  group : ∀ p lc (s : Mgr × NewCfg) x, π (procGroup p lc s x).2 = if hitG p x then some lc else π s.2

theorem proj_users {π : NewCfg → Option Limit} {hitU hitG : Path → String → Bool} (h : Proj π hitU hitG) (p : Path) (lc : Limit) :
    ∀ (xs : List String) (s : Mgr × NewCfg), π (xs.foldl (procUser p lc) s).2 = if xs.any (hitU p) then some lc else π s.2 := by
  intro xs
  induction xs with
  | nil => intro s; rfl
  | cons x xs ih =>
    intro s
    rw [List.foldl_cons, ih, h.user, List.any_cons]
    cases hitU p x <;> cases xs.any (hitU p) <;> simp

theorem proj_groups {π : NewCfg → Option Limit} {hitU hitG : Path → String → Bool} (h : Proj π hitU hitG) (p : Path) (lc : Limit) :
    ∀ (xs : List String) (s : Mgr × NewCfg), π (xs.foldl (procGroup p lc) s).2 = if xs.any (hitG p) then some lc else π s.2 := by
  intro xs
  induction xs with
  | nil => intro s; rfl
  | cons x xs ih =>
    intro s
    rw [List.foldl_cons, ih, h.group, List.any_cons]
    cases hitG p x <;> cases xs.any (hitG p) <;> simp

def hits (hitU hitG : Path → String → Bool) (p : Path) (l : LimitEntry) : Bool := l.users.any (hitU p) || l.groups.any (hitG p)

theorem proj_entry {π : NewCfg → Option Limit} {hitU hitG : Path → String → Bool} (h : Proj π hitU hitG) (p : Path)
    (s : Mgr × NewCfg) (l : LimitEntry) :
    π (procEntry p s l).2 = if hits hitU hitG p l then some (lcOf l) else π s.2 := by
  unfold procEntry hits
  simp only
  rw [proj_groups h, proj_users h]
  cases l.users.any (hitU p) <;> cases l.groups.any (hitG p) <;> simp [lcOf]

theorem proj_queue {π : NewCfg → Option Limit} {hitU hitG : Path → String → Bool} (h : Proj π hitU hitG) (p : Path) :
    ∀ (ls : List LimitEntry) (s : Mgr × NewCfg),
      π (ls.foldl (procEntry p) s).2 = lastOr (π s.2) (ls.filter (hits hitU hitG p)) := by
  intro ls
  induction ls with
  | nil => intro s; rfl
  | cons l ls ih =>
    intro s
    rw [List.foldl_cons, ih, proj_entry h, List.filter_cons]
    by_cases hh : hits hitU hitG p l = true
    · rw [if_pos hh, if_pos hh, lastOr_cons]
    · rw [if_neg hh, if_neg hh]

theorem proj_config {π : NewCfg → Option Limit} {hitU hitG : Path → String → Bool} (h : Proj π hitU hitG) :
    ∀ (c : Cfg) (s : Mgr × NewCfg),
      π (c.foldl (fun s q => q.2.foldl (procEntry q.1) s) s).2
        = lastOr (π s.2) (c.flatMap (fun q => q.2.filter (hits hitU hitG q.1))) := by
  intro c
  induction c with
  | nil => intro s; rfl
  | cons q c ih =>
    intro s
    rw [List.foldl_cons, ih, proj_queue h, List.flatMap_cons, lastOr_append]

theorem any_and_const (b : Bool) (f : String → Bool) (l : List String) : l.any (fun x => b && f x) = (b && l.any f) := by
  induction l with
  | nil => cases b <;> rfl
  | cons a l ih => rw [List.any_cons, List.any_cons, ih]; cases b <;> cases f a <;> simp

theorem any_false (l : List String) : l.any (fun _ => false) = false := by
  induction l with
  | nil => rfl
  | cons a l ih => rw [List.any_cons, ih]; rfl

theorem flatMap_filter_path (c : Cfg) (p : Path) (f : LimitEntry → Bool) :
    c.flatMap (fun q => q.2.filter (fun l => decide (q.1 = p) && f l)) = ((c.filter (fun q => q.1 == p)).flatMap (·.2)).filter f := by
  induction c with
  | nil => rfl
  | cons q c ih =>
    rw [List.flatMap_cons, ih, List.filter_cons]
    by_cases e : q.1 = p
    · have : (q.1 == p) = true := by simpa using e
      rw [if_pos this, List.flatMap_cons, List.filter_append]
      simp [e]
    · have : ¬ (q.1 == p) = true := by simpa using e
      rw [if_neg this]
      simp [e]

/-- the named-user map -/
theorem proj_userLimits (p : Path) (u : String) (h1 : u ≠ "") (h2 : u ≠ "*") :
    Proj (fun n => aget2 n.userLimits p u) (fun p' x => decide (p' = p) && (u == x)) (fun _ _ => false) := by
  constructor
  · intro p' lc s x
    unfold procUser
    by_cases e1 : (x == "") = true
    · rw [if_pos e1]
      have : x = "" := by simpa using e1
      have hx : (u == x) = false := by subst this; simpa using h1
      simp [hx]
    · rw [if_neg e1]
      by_cases e2 : (x == "*") = true
      · rw [if_pos e2]
        have : x = "*" := by simpa using e2
        have hx : (u == x) = false := by subst this; simpa using h2
        simp [hx]
      · rw [if_neg e2]
        simp only
        rw [aget2_aset2]
        by_cases e : p' = p ∧ x = u
        · obtain ⟨ea, eb⟩ := e; subst ea; subst eb; simp
        · by_cases ea : p' = p
          · have : ¬ x = u := fun eb => e ⟨ea, eb⟩
            have hx : (u == x) = false := by simpa using fun eq => this eq.symm
            simp [e, hx]
          · simp [e, ea]
  · intro p' lc s x
    unfold procGroup
    split
    · simp
    · simp only; split <;> simp

/-- the wildcard-user map -/
theorem proj_userWild (p : Path) :
    Proj (fun n => aget n.userWild p) (fun p' x => decide (p' = p) && ("*" == x)) (fun _ _ => false) := by
  constructor
  · intro p' lc s x
    unfold procUser
    by_cases e1 : (x == "") = true
    · rw [if_pos e1]
      have : x = "" := by simpa using e1
      subst this; simp
    · rw [if_neg e1]
      by_cases e2 : (x == "*") = true
      · rw [if_pos e2]
        have : x = "*" := by simpa using e2
        subst this
        simp only
        rw [aget_aset]
        by_cases ea : p' = p
        · simp [ea]
        · simp [ea]
      · rw [if_neg e2]
        have hx : ("*" == x) = false := by
          have : ¬ x = "*" := by simpa using e2
          simpa using fun eq => this eq.symm
        simp [hx]
  · intro p' lc s x
    unfold procGroup
    split
    · simp
    · simp only; split <;> simp

/-- the group map (named groups and the group "*") -/
theorem proj_groupLimits (p : Path) (g : String) (h1 : g ≠ "") :
    Proj (fun n => aget2 n.groupLimits p g) (fun _ _ => false) (fun p' x => decide (p' = p) && (g == x)) := by
  constructor
  · intro p' lc s x
    unfold procUser
    split
    · simp
    · split <;> simp
  · intro p' lc s x
    unfold procGroup
    by_cases e1 : (x == "") = true
    · rw [if_pos e1]
      have : x = "" := by simpa using e1
      have hx : (g == x) = false := by subst this; simpa using h1
      simp [hx]
    · rw [if_neg e1]
      simp only
      have hgl : ∀ b : Bool, (if b = true then
            ({ s.2 with groupLimits := aset2 s.2.groupLimits p' x lc, groupWild := aset s.2.groupWild p' lc } : NewCfg)
          else { s.2 with groupLimits := aset2 s.2.groupLimits p' x lc,
                          confGroups := aset s.2.confGroups p' ((aget s.2.confGroups p').getD [] ++ [x]) }).groupLimits
            = aset2 s.2.groupLimits p' x lc := by
        intro b; cases b <;> rfl
      rw [hgl, aget2_aset2]
      by_cases e : p' = p ∧ x = g
      · obtain ⟨ea, eb⟩ := e; subst ea; subst eb; simp
      · by_cases ea : p' = p
        · have : ¬ x = g := fun eb => e ⟨ea, eb⟩
          have hx : (g == x) = false := by simpa using fun eq => this eq.symm
          simp [e, hx]
        · simp [e, ea]

theorem contains_eq_any (l : List String) (u : String) : l.any (fun x => u == x) = l.contains u := by
  induction l with
  | nil => rfl
  | cons a l ih => rw [List.any_cons, List.contains_cons, ih]

theorem maps_userLimits_any (m : Mgr) (c : Cfg) (p : Path) (u : String) (h1 : u ≠ "") (h2 : u ≠ "*") :
    aget2 (processConfig m c).2.userLimits p u = (lastUserEntry c p u).map lcOf := by
  have := proj_config (proj_userLimits p u h1 h2) c (m, ({} : NewCfg))
  unfold processConfig
  rw [this]
  have hh : (fun (q : Path × List LimitEntry) => q.2.filter (hits (fun p' x => decide (p' = p) && (u == x)) (fun _ _ => false) q.1))
      = (fun q => q.2.filter (fun l => decide (q.1 = p) && l.users.contains u)) := by
    funext q; congr 1; funext l
    unfold hits; rw [any_and_const, any_false, contains_eq_any]; simp
  rw [hh, flatMap_filter_path]
  unfold lastOr lastUserEntry
  cases (List.filter (fun l => l.users.contains u) (List.flatMap (fun x => x.2) (List.filter (fun q => q.1 == p) c))).getLast? <;> rfl

theorem maps_userLimits (c : Cfg) (p : Path) (u : String) (h1 : u ≠ "") (h2 : u ≠ "*") :
    aget2 (processConfig {} c).2.userLimits p u = (lastUserEntry c p u).map lcOf := maps_userLimits_any {} c p u h1 h2

theorem maps_userWild_any (m : Mgr) (c : Cfg) (p : Path) :
    aget (processConfig m c).2.userWild p = (lastUserEntry c p "*").map lcOf := by
  have := proj_config (proj_userWild p) c (m, ({} : NewCfg))
  unfold processConfig
  rw [this]
  have hh : (fun (q : Path × List LimitEntry) => q.2.filter (hits (fun p' x => decide (p' = p) && ("*" == x)) (fun _ _ => false) q.1))
      = (fun q => q.2.filter (fun l => decide (q.1 = p) && l.users.contains "*")) := by
    funext q; congr 1; funext l
    unfold hits; rw [any_and_const, any_false, contains_eq_any]; simp
  rw [hh, flatMap_filter_path]
  unfold lastOr lastUserEntry
  cases (List.filter (fun l => l.users.contains "*") (List.flatMap (fun x => x.2) (List.filter (fun q => q.1 == p) c))).getLast? <;> rfl

theorem maps_userWild (c : Cfg) (p : Path) :
    aget (processConfig {} c).2.userWild p = (lastUserEntry c p "*").map lcOf := maps_userWild_any {} c p

theorem maps_groupLimits_any (m : Mgr) (c : Cfg) (p : Path) (g : String) (h1 : g ≠ "") :
    aget2 (processConfig m c).2.groupLimits p g = (lastGroupEntry c p g).map lcOf := by
  have := proj_config (proj_groupLimits p g h1) c (m, ({} : NewCfg))
  unfold processConfig
  rw [this]
  have hh : (fun (q : Path × List LimitEntry) => q.2.filter (hits (fun _ _ => false) (fun p' x => decide (p' = p) && (g == x)) q.1))
      = (fun q => q.2.filter (fun l => decide (q.1 = p) && l.groups.contains g)) := by
    funext q; congr 1; funext l
    unfold hits; rw [any_and_const, any_false, contains_eq_any]; simp
  rw [hh, flatMap_filter_path]
  unfold lastOr lastGroupEntry
  cases (List.filter (fun l => l.groups.contains g) (List.flatMap (fun x => x.2) (List.filter (fun q => q.1 == p) c))).getLast? <;> rfl

theorem maps_groupLimits (c : Cfg) (p : Path) (g : String) (h1 : g ≠ "") :
    aget2 (processConfig {} c).2.groupLimits p g = (lastGroupEntry c p g).map lcOf := maps_groupLimits_any {} c p g h1

/-! ### the wildcard map has unique, non-empty queue paths -/

def akeys {β : Type} (l : List (Path × β)) : List Path := l.map Prod.fst

theorem mem_aset {β : Type} {l : List (Path × β)} {k : Path} {v : β} {e : Path × β} (h : e ∈ aset l k v) : e ∈ l ∨ e = (k, v) := by
  induction l with
  | nil => simp [aset] at h; exact Or.inr h
  | cons a l ih =>
    obtain ⟨a1, a2⟩ := a
    by_cases hk : a1 = k
    · simp only [aset, hk, if_true, List.mem_cons] at h
      rcases h with h | h
      · exact Or.inr h
      · exact Or.inl (List.mem_cons_of_mem _ h)
    · simp only [aset, hk, if_false, List.mem_cons] at h
      rcases h with h | h
      · exact Or.inl (h ▸ List.mem_cons_self)
      · rcases ih h with h | h
        · exact Or.inl (List.mem_cons_of_mem _ h)
        · exact Or.inr h

theorem akeys_aset_nodup {β : Type} {l : List (Path × β)} (h : (akeys l).Nodup) (k : Path) (v : β) : (akeys (aset l k v)).Nodup := by
  induction l with
  | nil => simp [aset, akeys]
  | cons a l ih =>
    obtain ⟨a1, a2⟩ := a
    unfold akeys at h ih ⊢
    rw [List.map_cons, List.nodup_cons] at h
    by_cases hk : a1 = k
    · simp only [aset, hk, if_true, List.map_cons, List.nodup_cons]
      subst hk; exact h
    · simp only [aset, hk, if_false, List.map_cons, List.nodup_cons]
      refine ⟨?_, ih h.2⟩
      intro hm
      obtain ⟨e, he, he1⟩ := List.mem_map.mp hm
      rcases mem_aset he with he | he
      · exact h.1 (List.mem_map.mpr ⟨e, he, he1⟩)
      · subst he; exact hk he1.symm

def W (s : Mgr × NewCfg) : Prop := (akeys s.2.userWild).Nodup ∧ ∀ e ∈ s.2.userWild, e.1 ≠ []

theorem W_procUser {s : Mgr × NewCfg} (h : W s) {p : Path} (hp : p ≠ []) (lc : Limit) (u : String) : W (procUser p lc s u) := by
  unfold procUser
  split
  · exact h
  · split
    · refine ⟨akeys_aset_nodup h.1 p lc, ?_⟩
      intro e he
      rcases mem_aset he with he | he
      · exact h.2 e he
      · subst he; exact hp
    · exact h

theorem W_procGroup {s : Mgr × NewCfg} (h : W s) (p : Path) (lc : Limit) (g : String) : W (procGroup p lc s g) := by
  unfold procGroup
  split
  · exact h
  · simp only; split <;> exact h

theorem W_processConfig_any (m : Mgr) (c : Cfg) (hc : ∀ q ∈ c, q.1 ≠ []) : W (processConfig m c) := by
  unfold processConfig
  apply foldl_preserves _ W c _ _ (show W (m, ({} : NewCfg)) from ⟨List.nodup_nil, fun e he => by cases he⟩)
  intro s q hq hs
  apply foldl_preserves _ W _ _ _ hs
  intro s l _ hs
  unfold procEntry
  apply foldl_preserves _ W _ (fun s g _ hs => W_procGroup hs _ _ g)
  exact foldl_preserves _ W _ (fun s u _ hs => W_procUser hs (hc q hq) _ u) _ hs

theorem W_processConfig (c : Cfg) (hc : ∀ q ∈ c, q.1 ≠ []) : W (processConfig {} c) := W_processConfig_any {} c hc

/-! ### applyWildCardUserLimits -/

/-- named limit, else the wildcard limit of the queues handled so far -/
def viewD (n : NewCfg) (done : List (Path × Limit)) (u : String) (p : Path) : Option Triple :=
  match aget2 n.userLimits p u with
  | some lc => some (t3 lc)
  | none => (aget done p).map t3w

theorem aget_map_vals (l : List (String × UT)) (f : String → UT → UT) (u : String) :
    aget (l.map (fun e => (e.1, f e.1 e.2))) u = (aget l u).map (f u) := by
  induction l with
  | nil => rfl
  | cons a l ih =>
    obtain ⟨a1, a2⟩ := a
    by_cases h : a1 = u
    · subst h; simp [aget]
    · simp [aget, h, ih]

theorem aget_none_of_not_mem_akeys {β : Type} {l : List (Path × β)} {p : Path} (h : p ∉ akeys l) : aget l p = none := by
  cases hh : aget l p with
  | none => rfl
  | some v => exact absurd (List.mem_map_of_mem (f := Prod.fst) (aget_mem hh)) h

theorem aget_mapUsers (m : Mgr) (f : String → UT → UT) (u : String) :
    aget (mapUsers m f).users u = (aget m.users u).map (f u) := aget_map_vals m.users f u

def wildStepFn (n : NewCfg) (m : Mgr) (e : Path × Limit) : Mgr :=
  mapUsers m (fun u ut => if (aget2 n.userLimits e.1 u).isSome then ut
                          else { ut with qt := setLimit m.userWild true ut.qt e.1 e.2.maxRes e.2.maxApps true false })

theorem applyWild_fold (n : NewCfg) : ∀ (todo done : List (Path × Limit)) (m : Mgr),
    (akeys (done ++ todo)).Nodup → (∀ e ∈ todo, e.1 ≠ []) → m.userWild = [] → UsersQ m.users (viewD n done) →
    (todo.foldl (wildStepFn n) m).userWild = [] ∧ UsersQ (todo.foldl (wildStepFn n) m).users (viewD n (done ++ todo)) ∧
    (∀ u, ahas (todo.foldl (wildStepFn n) m).users u = ahas m.users u) ∧ (todo.foldl (wildStepFn n) m).groups = m.groups := by
  intro todo
  induction todo with
  | nil =>
    intro done m _ _ hw hq
    refine ⟨hw, ?_, fun _ => rfl, rfl⟩
    rw [List.append_nil]; exact hq
  | cons e todo ih =>
    intro done m hnd hne hw hq
    obtain ⟨pw, lw⟩ := e
    rw [List.foldl_cons]
    have hpw : pw ≠ [] := hne (pw, lw) List.mem_cons_self
    have hdone : aget done pw = none := by
      apply aget_none_of_not_mem_akeys
      intro hm
      unfold akeys at hnd hm
      rw [List.map_append, List.map_cons] at hnd
      have hdis := (List.nodup_append.mp hnd).2.2
      exact hdis pw hm pw (by simp) rfl
    have hview : ∀ u p, aget2 n.userLimits pw u = none →
        (if pw = p then some (lw.maxRes, lw.maxApps, true) else viewD n done u p) = viewD n (done ++ [(pw, lw)]) u p := by
      intro u p hnn
      unfold viewD
      rw [aget_append_single]
      by_cases e : pw = p
      · subst e; rw [hnn, hdone]; simp [t3w]
      · simp only [e, if_false]
        cases aget2 n.userLimits p u with
        | some lc => rfl
        | none => simp only; cases aget done p <;> rfl
    have hview' : ∀ u p, (aget2 n.userLimits pw u).isSome = true → viewD n done u p = viewD n (done ++ [(pw, lw)]) u p := by
      intro u p hs
      unfold viewD
      rw [aget_append_single]
      cases hh : aget2 n.userLimits p u with
      | some lc => rfl
      | none =>
        simp only
        have : pw ≠ p := by intro e; subst e; rw [hh] at hs; cases hs
        cases aget done p with
        | some x => rfl
        | none => simp [this]
    have h1q : UsersQ (wildStepFn n m (pw, lw)).users (viewD n (done ++ [(pw, lw)])) := by
      intro u ut1 hut1
      unfold wildStepFn at hut1
      rw [aget_mapUsers] at hut1
      cases hut : aget m.users u with
      | none => rw [hut] at hut1; cases hut1
      | some ut =>
        rw [hut] at hut1
        simp only [Option.map_some, Option.some.injEq] at hut1
        by_cases hs : (aget2 n.userLimits pw u).isSome = true
        · rw [if_pos hs] at hut1; subst hut1
          exact Q_congr (hq u ut hut) (fun p => hview' u p hs)
        · rw [if_neg hs] at hut1; subst hut1
          have hnn : aget2 n.userLimits pw u = none := by
            cases hh : aget2 n.userLimits pw u with
            | none => rfl
            | some x => rw [hh] at hs; exact absurd rfl hs
          simp only
          rw [hw]
          exact Q_congr (Q_setLimit (hq u ut hut) (Or.inl rfl) hpw lw.maxRes lw.maxApps true) (fun p => hview u p hnn)
    have h1w : (wildStepFn n m (pw, lw)).userWild = [] := hw
    have h1has : ∀ u, ahas (wildStepFn n m (pw, lw)).users u = ahas m.users u := by
      intro u
      unfold wildStepFn
      rw [ahas_eq, ahas_eq, aget_mapUsers]
      cases aget m.users u <;> rfl
    have hnd' : (akeys ((done ++ [(pw, lw)]) ++ todo)).Nodup := by rw [List.append_assoc]; exact hnd
    obtain ⟨i1, i2, i3, i4⟩ := ih (done ++ [(pw, lw)]) (wildStepFn n m (pw, lw)) hnd'
      (fun e he => hne e (List.mem_cons_of_mem _ he)) h1w h1q
    refine ⟨i1, ?_, fun u => (i3 u).trans (h1has u), i4⟩
    rw [List.append_assoc] at i2; exact i2

theorem applyWild_eq (m : Mgr) (n : NewCfg) : applyWildCardUserLimits m n = n.userWild.foldl (wildStepFn n) m := rfl

/-! ### the first load -/

theorem effLimit_none : effLimit none 0 = (none, 0) := rfl

theorem updateConfig_empty (c : Cfg) (hc : ∀ q ∈ c, q.1 ≠ []) :
    updateConfig {} c = replaceLimitConfigs (applyWildCardUserLimits (processConfig {} c).1 (processConfig {} c).2) (processConfig {} c).2 := by
  have k := K_processConfig c hc
  unfold updateConfig finishConfig
  simp only
  rw [k.gl, k.ul]
  simp only [dropped, List.flatMap_nil, clearEarlierSetLimitsL, List.foldl_nil]
  unfold clearEarlierSetUserWildCardLimits
  rw [k.uw]
  rfl

/-- LIMITS FOLLOW THE CONFIGURATION for the first configuration loaded into an empty manager -/
theorem first_load (c : Cfg) (hc : ∀ q ∈ c, q.1 ≠ []) :
    (∀ u p, u ≠ "" → u ≠ "*" → inForceUser (updateConfig {} c) u p = configuredUser c u p) ∧
    (∀ g p, g ≠ "" → inForceGroup (updateConfig {} c) g p = configuredGroup c g p) := by
  have k := K_processConfig c hc
  have w := W_processConfig c hc
  rw [updateConfig_empty c hc]
  generalize hs : processConfig {} c = s at k w
  have hmaps1 : ∀ p u, u ≠ "" → u ≠ "*" → aget2 s.2.userLimits p u = (lastUserEntry c p u).map lcOf := by
    intro p u h1 h2; rw [← hs]; exact maps_userLimits c p u h1 h2
  have hmaps2 : ∀ p, aget s.2.userWild p = (lastUserEntry c p "*").map lcOf := by
    intro p; rw [← hs]; exact maps_userWild c p
  have hmaps3 : ∀ p g, g ≠ "" → aget2 s.2.groupLimits p g = (lastGroupEntry c p g).map lcOf := by
    intro p g h1; rw [← hs]; exact maps_groupLimits c p g h1
  have hq0 : UsersQ s.1.users (viewD s.2 []) := by
    apply UsersQ_congr k.uq
    intro u p; unfold viewD
    cases aget2 s.2.userLimits p u <;> rfl
  obtain ⟨_, a2, a3, a4⟩ := applyWild_fold s.2 s.2.userWild [] s.1 (by simpa using w.1) w.2 k.uw hq0
  rw [List.nil_append, ← applyWild_eq] at a2
  rw [← applyWild_eq] at a3 a4
  generalize applyWildCardUserLimits s.1 s.2 = m4 at a2 a3 a4
  constructor
  · intro u p h1 h2
    unfold inForceUser configuredUser replaceLimitConfigs
    simp only
    rw [hmaps2 p]
    have hnamed := hmaps1 p u h1 h2
    cases hut : aget m4.users u with
    | some ut =>
      have hQ := a2 u ut hut
      simp only [Option.bind_some]
      cases hnode : aget ut.qt p with
      | some node =>
        have ht := hQ.1 p node hnode
        unfold viewD at ht
        rw [hnamed, hmaps2 p] at ht
        simp only
        cases hl : lastUserEntry c p u with
        | some l =>
          rw [hl] at ht
          simp only [Option.map_some, Option.getD_some, triple, t3, lcOf, Prod.mk.injEq] at ht
          rw [ht.1, ht.2.1]
        | none =>
          rw [hl] at ht
          simp only [Option.map_none]  at ht
          cases hl2 : lastUserEntry c p "*" with
          | some l =>
            rw [hl2] at ht
            simp only [Option.map_some, Option.getD_some, triple, t3w, lcOf, Prod.mk.injEq] at ht
            rw [ht.1, ht.2.1]
          | none =>
            rw [hl2] at ht
            simp only [Option.map_none, Option.getD_none, triple, dflt, Prod.mk.injEq] at ht
            rw [ht.1, ht.2.1]; rfl
      | none =>
        simp only
        -- no tracker for the queue: the user is not named there
        have hnn : lastUserEntry c p u = none := by
          cases hl : lastUserEntry c p u with
          | none => rfl
          | some l =>
            exfalso
            have : (viewD s.2 s.2.userWild u p).isSome = true := by
              unfold viewD; rw [hnamed, hl]; rfl
            have := hQ.2 p this
            rw [ahas_eq, hnode] at this; cases this
        rw [hnn]
        cases lastUserEntry c p "*" <;> rfl
    | none =>
      simp only [Option.bind_none]
      have hnn : lastUserEntry c p u = none := by
        cases hl : lastUserEntry c p u with
        | none => rfl
        | some l =>
          exfalso
          have h5 := k.un u p (by simp only; rw [hnamed, hl]; rfl)
          rw [← a3 u, ahas_eq, hut] at h5; cases h5
      rw [hnn]
      cases lastUserEntry c p "*" <;> rfl
  · intro g p h1
    unfold inForceGroup configuredGroup replaceLimitConfigs
    simp only
    rw [a4]
    have hnamed := hmaps3 p g h1
    cases hgt : aget s.1.groups g with
    | some gt =>
      have hQ := k.gq g gt hgt
      simp only [Option.bind_some]
      cases hnode : aget gt.qt p with
      | some node =>
        have ht := hQ.1 p node hnode
        simp only at ht
        rw [hnamed] at ht
        cases hl : lastGroupEntry c p g with
        | some l =>
          rw [hl] at ht
          simp only [Option.map_some, Option.getD_some, triple, t3, lcOf, Prod.mk.injEq] at ht
          simp only; rw [ht.1, ht.2.1]
        | none =>
          rw [hl] at ht
          simp only [Option.map_none, Option.getD_none, triple, dflt, Prod.mk.injEq] at ht
          simp only; rw [ht.1, ht.2.1]; rfl
      | none =>
        simp only
        have hnn : lastGroupEntry c p g = none := by
          cases hl : lastGroupEntry c p g with
          | none => rfl
          | some l =>
            exfalso
            have := hQ.2 p (by simp only; rw [hnamed, hl]; rfl)
            rw [ahas_eq, hnode] at this; cases this
        rw [hnn]
    | none =>
      simp only [Option.bind_none]
      have hnn : lastGroupEntry c p g = none := by
        cases hl : lastGroupEntry c p g with
        | none => rfl
        | some l =>
          exfalso
          have h5 := k.gn g p (by simp only; rw [hnamed, hl]; rfl)
          rw [ahas_eq, hgt] at h5; cases h5
      rw [hnn]

end Yk.Ugm
