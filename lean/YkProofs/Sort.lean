/-
  Proofs for C19 (scheduling order): stable insertion sort, comparators are strict weak orders, sorted asks.
-/
import YkModel.Sort
namespace Yk

/-! ### sortedBy as Pairwise -/

theorem sortedBy_iff {α} (lt : α → α → Bool) (l : List α) :
    sortedBy lt l = true ↔ l.Pairwise (fun a b => lt b a = false) := by
  induction l with
  | nil => simp [sortedBy]
  | cons x t ih => simp [sortedBy, ih, List.pairwise_cons]

theorem pairwise_getElem? {α} {R : α → α → Prop} {l : List α} (h : l.Pairwise R) :
    ∀ (i j : Nat) x y, i < j → l[i]? = some x → l[j]? = some y → R x y := by
  induction h with
  | nil => intro i j x y _ hx; simp at hx
  | @cons a t ha _ ih =>
    intro i j x y hij hx hy
    cases j with
    | zero => omega
    | succ j' =>
      rw [List.getElem?_cons_succ] at hy
      cases i with
      | zero =>
        rw [List.getElem?_cons_zero] at hx
        cases hx
        exact ha y (List.mem_of_getElem? hy)
      | succ i' =>
        rw [List.getElem?_cons_succ] at hx
        exact ih i' j' x y (by omega) hx hy

/-! ### stable insertion sort -/

theorem insertStable_perm {α} (lt : α → α → Bool) (x : α) (l : List α) :
    (insertStable lt x l).Perm (x :: l) := by
  induction l with
  | nil => exact List.Perm.refl _
  | cons y t ih =>
    simp only [insertStable]
    split
    · exact List.Perm.refl _
    · exact (List.Perm.cons y ih).trans (List.Perm.swap x y t)

theorem insertStable_sorted {α} (lt : α → α → Bool) (hirr : ∀ a, lt a a = false)
    (htr : ∀ a b c, lt a b = true → lt b c = true → lt a c = true) (x : α) (l : List α)
    (hs : sortedBy lt l = true) : sortedBy lt (insertStable lt x l) = true := by
  induction l with
  | nil => simp [insertStable, sortedBy]
  | cons y t ih =>
    rw [sortedBy_iff, List.pairwise_cons] at hs
    obtain ⟨hy, ht⟩ := hs
    simp only [insertStable]
    split
    next hxy =>
      rw [sortedBy_iff, List.pairwise_cons, List.pairwise_cons]
      refine ⟨?_, hy, ht⟩
      intro w hw
      cases hwx : lt w x with
      | false => rfl
      | true =>
        have hwy := htr w x y hwx hxy
        rcases List.mem_cons.mp hw with rfl | hw'
        · rw [hirr] at hwy; cases hwy
        · rw [hy w hw'] at hwy; cases hwy
    next hxy =>
      have ih' := ih ((sortedBy_iff lt t).mpr ht)
      rw [sortedBy_iff] at ih'
      rw [sortedBy_iff, List.pairwise_cons]
      refine ⟨?_, ih'⟩
      intro w hw
      rcases List.mem_cons.mp ((insertStable_perm lt x t).mem_iff.mp hw) with rfl | hw'
      · simpa using hxy
      · exact hy w hw'

theorem foldl_insertStable {α} (lt : α → α → Bool) (hirr : ∀ a, lt a a = false)
    (htr : ∀ a b c, lt a b = true → lt b c = true → lt a c = true) (l acc : List α)
    (hs : sortedBy lt acc = true) :
    (l.foldl (fun acc x => insertStable lt x acc) acc).Perm (l ++ acc) ∧
    sortedBy lt (l.foldl (fun acc x => insertStable lt x acc) acc) = true := by
  induction l generalizing acc with
  | nil => exact ⟨List.Perm.refl _, hs⟩
  | cons x t ih =>
    simp only [List.foldl_cons]
    obtain ⟨hp, hs'⟩ := ih (insertStable lt x acc) (insertStable_sorted lt hirr htr x acc hs)
    refine ⟨?_, hs'⟩
    refine hp.trans ?_
    refine ((insertStable_perm lt x acc).append_left t).trans ?_
    exact (List.perm_middle).trans (List.Perm.refl _)

/-- NOTE: irreflexivity is required: with `lt := fun _ _ => true` (transitive) `stableSort lt [a, a]` has an inversion. -/
theorem stableSort_perm_sorted {α} (lt : α → α → Bool) (hirr : ∀ a, lt a a = false)
    (htr : ∀ a b c, lt a b = true → lt b c = true → lt a c = true) (l : List α) :
    (stableSort lt l).Perm l ∧ sortedBy lt (stableSort lt l) = true := by
  obtain ⟨hp, hs⟩ := foldl_insertStable lt hirr htr l [] rfl
  exact ⟨by simpa [stableSort] using hp, hs⟩

theorem stableSort_perm_invariant {α} (lt : α → α → Bool) (hirr : ∀ a, lt a a = false)
    (htr : ∀ a b c, lt a b = true → lt b c = true → lt a c = true)
    (l₁ l₂ : List α) (hp : l₁.Perm l₂) :
    (stableSort lt l₁).Perm (stableSort lt l₂) ∧
    (∀ out ∈ [stableSort lt l₁, stableSort lt l₂], ∀ (i j : Nat) (x y : α), i < j → out[i]? = some y → out[j]? = some x → lt x y = false) := by
  obtain ⟨hp1, hs1⟩ := stableSort_perm_sorted lt hirr htr l₁
  obtain ⟨hp2, hs2⟩ := stableSort_perm_sorted lt hirr htr l₂
  refine ⟨hp1.trans (hp.trans hp2.symm), ?_⟩
  intro out hout i j x y hij hy hx
  have hsorted : sortedBy lt out = true := by
    rcases List.mem_cons.mp hout with rfl | hout
    · exact hs1
    · rcases List.mem_cons.mp hout with rfl | hout
      · exact hs2
      · cases hout
  exact pairwise_getElem? ((sortedBy_iff lt out).mp hsorted) i j y x hij hy hx

/-! ### strict weak orders -/

theorem isSWO_of {α} (lt : α → α → Bool) (l : List α)
    (h1 : ∀ x ∈ l, lt x x = false)
    (h2 : ∀ x ∈ l, ∀ y ∈ l, ∀ z ∈ l, lt x y = true → lt y z = true → lt x z = true)
    (h3 : ∀ x ∈ l, ∀ y ∈ l, ∀ z ∈ l, lt x y = false → lt y x = false → lt y z = false → lt z y = false →
      lt x z = false ∧ lt z x = false) : isSWO lt l = true := by
  unfold isSWO
  simp only [Bool.and_eq_true, List.all_eq_true]
  refine ⟨⟨?_, ?_⟩, ?_⟩
  · intro x hx; rw [h1 x hx]; rfl
  · intro x hx y hy z hz
    have := h2 x hx y hy z hz
    revert this
    cases lt x y <;> cases lt y z <;> cases lt x z <;> simp
  · intro x hx y hy z hz
    have := h3 x hx y hy z hz
    revert this
    cases lt x y <;> cases lt y x <;> cases lt y z <;> cases lt z y <;> cases lt x z <;> cases lt z x <;> simp

theorem isSWO_of_iff {α} (lt : α → α → Bool) (P : α → α → Prop) (l : List α)
    (hP : ∀ x ∈ l, ∀ y ∈ l, (lt x y = true ↔ P x y))
    (h1 : ∀ x, ¬ P x x)
    (h2 : ∀ x y z, P x y → P y z → P x z)
    (h3 : ∀ x y z, ¬ P x y → ¬ P y x → ¬ P y z → ¬ P z y → ¬ P x z ∧ ¬ P z x) : isSWO lt l = true := by
  have hF : ∀ x ∈ l, ∀ y ∈ l, (lt x y = false ↔ ¬ P x y) := by
    intro x hx y hy; rw [← hP x hx y hy, Bool.not_eq_true]
  apply isSWO_of
  · intro x hx; rw [hF x hx x hx]; exact h1 x
  · intro x hx y hy z hz; rw [hP x hx y hy, hP y hy z hz, hP x hx z hz]; exact h2 x y z
  · intro x hx y hy z hz
    rw [hF x hx y hy, hF y hy x hx, hF y hy z hz, hF z hz y hy, hF x hx z hz, hF z hz x hx]; exact h3 x y z

theorem qLessPrio_iff (l r : QKey) : qLessPrio l r = true ↔ l.prio > r.prio := by
  simp [qLessPrio]

theorem aLessFairPrio_iff (l r : AKey) :
    aLessFairPrio l r = true ↔ (l.share < r.share ∨ (l.share = r.share ∧ l.prio > r.prio)) := by
  unfold aLessFairPrio
  split
  next h => simp only [bne_iff_ne, ne_eq] at h; simp only [decide_eq_true_eq]; omega
  next h => simp only [bne_iff_ne, ne_eq, Classical.not_not] at h; simp only [decide_eq_true_eq]; omega

theorem aLessPrioFair_iff (l r : AKey) :
    aLessPrioFair l r = true ↔ (l.prio > r.prio ∨ (l.prio = r.prio ∧ l.share < r.share)) := by
  unfold aLessPrioFair
  split
  next h => simp; omega
  next h =>
    split
    next h' => simp; omega
    next h' => simp only [decide_eq_true_eq]; omega

theorem aLessSubmitPrio_iff (l r : AKey) :
    aLessSubmitPrio l r = true ↔ (l.submit < r.submit ∨ (l.submit = r.submit ∧ l.prio > r.prio)) := by
  unfold aLessSubmitPrio
  split
  next h => simp; omega
  next h =>
    split
    next h' => simp; omega
    next h' => simp only [decide_eq_true_eq]; omega

theorem aLessPrioSubmit_iff (l r : AKey) :
    aLessPrioSubmit l r = true ↔ (l.prio > r.prio ∨ (l.prio = r.prio ∧ l.submit < r.submit)) := by
  unfold aLessPrioSubmit
  split
  next h => simp; omega
  next h =>
    split
    next h' => simp; omega
    next h' => simp only [decide_eq_true_eq]; omega

theorem swo_comparators :
    (∀ l : List QKey, isSWO qLessPrio l = true) ∧
    (∀ l : List AKey, isSWO aLessFairPrio l = true ∧ isSWO aLessPrioFair l = true ∧
                      isSWO aLessSubmitPrio l = true ∧ isSWO aLessPrioSubmit l = true) := by
  refine ⟨fun l => ?_, fun l => ⟨?_, ?_, ?_, ?_⟩⟩
  · exact isSWO_of_iff _ _ l (fun x _ y _ => qLessPrio_iff x y) (by intros; omega) (by intros; omega) (by intros; omega)
  · exact isSWO_of_iff _ _ l (fun x _ y _ => aLessFairPrio_iff x y) (by intros; omega) (by intros; omega) (by intros; omega)
  · exact isSWO_of_iff _ _ l (fun x _ y _ => aLessPrioFair_iff x y) (by intros; omega) (by intros; omega) (by intros; omega)
  · exact isSWO_of_iff _ _ l (fun x _ y _ => aLessSubmitPrio_iff x y) (by intros; omega) (by intros; omega) (by intros; omega)
  · exact isSWO_of_iff _ _ l (fun x _ y _ => aLessPrioSubmit_iff x y) (by intros; omega) (by intros; omega) (by intros; omega)

/-! ### fair queue policies without reaching the pending tie-break -/

theorem qLessPrioFair_iff (x y : QKey) (hxy : x.prio = y.prio → x.share = y.share → x = y)
    (hp : pendingGt x x = false) :
    qLessPrioFair x y = true ↔ (x.prio > y.prio ∨ (x.prio = y.prio ∧ x.share < y.share)) := by
  unfold qLessPrioFair
  split
  next h => simp; omega
  next h =>
    split
    next h' => simp; omega
    next h' =>
      split
      next hs =>
        have hs' : x.share = y.share := by simpa using hs
        have := hxy (by omega) hs'
        subst this
        rw [hp]; simp
      next hs =>
        have hs' : x.share ≠ y.share := by simpa using hs
        simp only [decide_eq_true_eq]; omega

theorem qLessFairPrio_iff (x y : QKey) (hxy : x.prio = y.prio → x.share = y.share → x = y)
    (hp : pendingGt x x = false) :
    qLessFairPrio x y = true ↔ (x.share < y.share ∨ (x.share = y.share ∧ x.prio > y.prio)) := by
  unfold qLessFairPrio
  split
  next hs =>
    have hs' : x.share = y.share := by simpa using hs
    split
    next h => simp; omega
    next h =>
      split
      next h' => simp; omega
      next h' =>
        have := hxy (by omega) hs'
        subst this
        rw [hp]; simp
  next hs =>
    have hs' : x.share ≠ y.share := by simpa using hs
    simp only [decide_eq_true_eq]; omega

theorem swo_fair_no_tie (l : List QKey)
    (h : ∀ x ∈ l, ∀ y ∈ l, x.prio = y.prio → x.share = y.share → x = y) (hp : ∀ x ∈ l, pendingGt x x = false) :
    isSWO qLessPrioFair l = true ∧ isSWO qLessFairPrio l = true := by
  constructor
  · exact isSWO_of_iff _ _ l (fun x hx y hy => qLessPrioFair_iff x y (h x hx y hy) (hp x hx))
      (by intros; omega) (by intros; omega) (by intros; omega)
  · exact isSWO_of_iff _ _ l (fun x hx y hy => qLessFairPrio_iff x y (h x hx y hy) (hp x hx))
      (by intros; omega) (by intros; omega) (by intros; omega)

/-! ### asks of an application -/

theorem askBefore_iff (a b : AskKey) :
    askBefore a b = true ↔ (a.prio > b.prio ∨ (a.prio = b.prio ∧ a.ctime < b.ctime)) := by
  simp [askBefore]

theorem askBefore_false_iff (a b : AskKey) :
    askBefore a b = false ↔ (a.prio < b.prio ∨ (a.prio = b.prio ∧ a.ctime ≥ b.ctime)) := by
  rw [← Bool.not_eq_true, askBefore_iff]; omega

theorem askLessThan_iff (a o : AskKey) : askLessThan a o = true ↔ askBefore a o = false := by
  rw [askBefore_false_iff]
  unfold askLessThan
  split
  next h => have h' : a.prio = o.prio := by simpa using h
            simp only [decide_eq_true_eq]; omega
  next h => have h' : a.prio ≠ o.prio := by simpa using h
            simp only [decide_eq_true_eq]; omega

/-- `a ≤ b ≤ c` in the documented preorder -/
theorem askBefore_false_trans (a b c : AskKey) (h1 : askBefore b a = false) (h2 : askBefore c b = false) :
    askBefore c a = false := by
  rw [askBefore_false_iff] at *; omega

/-- insertion before the first element satisfying `p` -/
def insBefore {α} (p : α → Bool) (a : α) : List α → List α
  | [] => [a]
  | y :: t => if p y then a :: y :: t else y :: insBefore p a t

theorem take_drop_findIdx_eq {α} (p : α → Bool) (a : α) (s : List α) :
    s.take ((s.findIdx? p).getD s.length) ++ [a] ++ s.drop ((s.findIdx? p).getD s.length) = insBefore p a s := by
  induction s with
  | nil => simp [insBefore]
  | cons y t ih =>
    rw [List.findIdx?_cons]
    unfold insBefore
    split
    next hy => simp
    next hy =>
      cases hf : t.findIdx? p with
      | none => rw [hf] at ih; simpa using ih
      | some i => rw [hf] at ih; simpa using ih

theorem insBefore_perm {α} (p : α → Bool) (a : α) (s : List α) : (insBefore p a s).Perm (a :: s) := by
  induction s with
  | nil => exact List.Perm.refl _
  | cons y t ih =>
    simp only [insBefore]
    split
    · exact List.Perm.refl _
    · exact (List.Perm.cons y ih).trans (List.Perm.swap a y t)

theorem insBefore_sorted (a : AskKey) (s : List AskKey) (hs : sortedBy askBefore s = true) :
    sortedBy askBefore (insBefore (fun x => askLessThan x a) a s) = true := by
  induction s with
  | nil => simp [insBefore, sortedBy]
  | cons y t ih =>
    rw [sortedBy_iff, List.pairwise_cons] at hs
    obtain ⟨hy, ht⟩ := hs
    simp only [insBefore]
    split
    next hya =>
      rw [askLessThan_iff] at hya
      rw [sortedBy_iff, List.pairwise_cons, List.pairwise_cons]
      refine ⟨?_, hy, ht⟩
      intro w hw
      rcases List.mem_cons.mp hw with rfl | hw'
      · exact hya
      · exact askBefore_false_trans a y w (by
          -- a ≤ y : askBefore y a = false
          exact hya) (hy w hw')
    next hya =>
      have ih' := ih ((sortedBy_iff _ t).mpr ht)
      rw [sortedBy_iff] at ih'
      rw [sortedBy_iff, List.pairwise_cons]
      refine ⟨?_, ih'⟩
      intro w hw
      rcases List.mem_cons.mp ((insBefore_perm _ a t).mem_iff.mp hw) with rfl | hw'
      · have : askLessThan y w = false := by simpa using hya
        rw [← Bool.not_eq_true, askLessThan_iff, askBefore_false_iff] at this
        rw [askBefore_false_iff]; omega
      · exact hy w hw'

theorem askInsert_sorted (s : List AskKey) (a : AskKey) (hs : sortedBy askBefore s = true) :
    sortedBy askBefore (askInsert s a) = true ∧ (askInsert s a).Perm (a :: s) := by
  unfold askInsert
  split
  next last hlast =>
    split
    next hlt =>
      rw [askLessThan_iff] at hlt
      refine ⟨?_, List.perm_append_singleton a s⟩
      obtain ⟨ys, rfl⟩ := List.getLast?_eq_some_iff.mp hlast
      rw [sortedBy_iff] at hs ⊢
      rw [List.pairwise_append]
      refine ⟨hs, by simp, ?_⟩
      intro w hw b hb
      rcases List.mem_singleton.mp hb with rfl
      -- w ≤ last ≤ b
      have hwl : askBefore last w = false := by
        rw [List.pairwise_append] at hs
        rcases List.mem_append.mp hw with hw1 | hw2
        · exact hs.2.2 w hw1 last (by simp)
        · rcases List.mem_singleton.mp hw2 with rfl
          rw [askBefore_false_iff]; omega
      exact askBefore_false_trans w last b hwl hlt
    next hlt =>
      show sortedBy askBefore (s.take ((s.findIdx? _).getD s.length) ++ [a] ++ s.drop ((s.findIdx? _).getD s.length)) = true ∧
        (s.take ((s.findIdx? _).getD s.length) ++ [a] ++ s.drop ((s.findIdx? _).getD s.length)).Perm (a :: s)
      rw [take_drop_findIdx_eq]
      exact ⟨insBefore_sorted a s hs, insBefore_perm _ a s⟩
  next hnone =>
    exact ⟨by simp [sortedBy], by
      have : s = [] := by simpa using hnone
      subst this; exact List.Perm.refl _⟩

theorem askRemove_sorted (s : List AskKey) (key : String) (hs : sortedBy askBefore s = true) :
    sortedBy askBefore (askRemove s key) = true ∧ (askRemove s key).length ≤ s.length := by
  unfold askRemove
  split
  next i hi =>
    rw [← List.eraseIdx_eq_take_drop_succ]
    have hsub : (s.eraseIdx i).Sublist s := List.eraseIdx_sublist s i
    refine ⟨?_, hsub.length_le⟩
    rw [sortedBy_iff] at hs ⊢
    exact hs.sublist hsub
  next => exact ⟨hs, Nat.le_refl _⟩

end Yk
